/-
Helper lemmas for the heap theorem, part 1 (model: `Model/Heap.lean`): the simulation relation and
how it is kept by allocation and by stores.

`R : List Nat` is the bijection between Go objects and GooseLang blocks: Go object `o` lives in block
`R[o]`.  It has no repetitions (`HRel.nodup`), it only grows, and always by blocks that did not exist
before (`Ext`).  Blocks outside `R` are the cells of `var`-declared variables.

  `PRel R`    a Go `*T` (nil or object) and a cell value (`null` or the location (R[o], 0))
  `VRel R`    Go values and GooseLang values: numbers, pointers through `R`, struct values field by field,
              slices as (R[o], offset), length, capacity — a slice of capacity 0 is related to every slice
              value of length and capacity 0 (it can never be read or written; `NewSlice _ #0` is nil)
  `ObjRel R`  a Go object and the block of its flattened fields / cells
  `HRel R G H` every Go object `o` is allocated as block `R[o]` and related to it
  `RelS`/`Rel` the scope stacks, level by level (as in `Lemmas/Scope.lean`): a `:=` variable is bound to a
              related value, a `var` variable to the location of a block OUTSIDE `R` that holds the flattened
              related value; different `var` variables have different blocks.
-/
import GooseVerif.Model.Heap

namespace GooseVerif.Model.Heap

/-! ### the monads -/

theorem Res.bind_ok {α β : Type} {r : Res α} {f : α → Res β} {y : β} (h : r.bind f = .ok y) :
    ∃ x, r = .ok x ∧ f x = .ok y := by
  cases r with
  | ok a => exact ⟨a, rfl, h⟩
  | panic => simp [Res.bind] at h
  | bad => simp [Res.bind] at h

theorem ofOpt_ok {α : Type} {o : Option α} {x : α} (h : ofOpt o = .ok x) : o = some x := by
  cases o with
  | none => simp [ofOpt] at h
  | some a => simp [ofOpt] at h; rw [h]

theorem asNum_ok {v : Val} {n : Nat} (h : asNum v = .ok n) : v = .num n := by
  cases v <;> simp [asNum] at h
  rw [h]

theorem asPtrS_ok {v : Val} {o : Option Nat} (h : asPtrS v = .ok o) : v = .ptrS o := by
  cases v <;> simp [asPtrS] at h
  rw [h]

theorem asSl_ok {v : Val} {s : Nat × Nat × Nat × Nat} (h : asSl v = .ok s) : v = .sl s.1 s.2.1 s.2.2.1 s.2.2.2 := by
  cases v <;> simp [asSl] at h
  rw [← h]

theorem getStr_ok {G : GHeap} {o : Nat} {s : Nat × Nat × Option Nat} (h : getStr G o = .ok s) :
    G[o]? = some (.str s.1 s.2.1 s.2.2) := by
  unfold getStr at h
  split at h
  · next a b n heq => simp at h; rw [heq, ← h]
  · simp at h

theorem getCell_ok {G : GHeap} {o v : Nat} (h : getCell G o = .ok v) : G[o]? = some (.cell v) := by
  unfold getCell at h
  split at h
  · next w heq => simp at h; rw [heq, h]
  · simp at h

theorem getArr_ok {G : GHeap} {o : Nat} {vs : List Nat} (h : getArr G o = .ok vs) : G[o]? = some (.arr vs) := by
  unfold getArr at h
  split at h
  · next w heq => simp at h; rw [heq, h]
  · simp at h

theorem Except.bind'_ok {α β : Type} {r : Except String α} {f : α → Except String β} {y : β}
    (h : Except.bind' r f = .ok y) : ∃ x, r = .ok x ∧ f x = .ok y := by
  cases r with
  | ok a => exact ⟨a, rfl, h⟩
  | error m => simp [Except.bind'] at h

theorem expectTy_ok {w : String} {a b : Ty} {u : Unit} (h : expectTy w a b = .ok u) : a = b := by
  unfold expectTy at h
  split at h
  · assumption
  · simp at h

/-! ### association lists -/

theorem look_append {α : Type} (x : String) (a b : List (String × α)) :
    look x (a ++ b) = match look x a with
      | some v => some v
      | none => look x b := by
  induction a with
  | nil => simp [look]
  | cons p a ih =>
    obtain ⟨y, v⟩ := p
    by_cases hy : y = x
    · simp [look, hy]
    · simp [look, hy, ih]

theorem look_mem {α : Type} {x : String} {v : α} {e : List (String × α)} (h : look x e = some v) :
    (x, v) ∈ e := by
  induction e with
  | nil => simp [look] at h
  | cons p e ih =>
    obtain ⟨y, w⟩ := p
    by_cases hy : y = x
    · simp [look, hy] at h
      simp [hy, h]
    · simp [look, hy] at h
      simp [ih h]

theorem Stmts.eq_nil_of_isNil {ss : Stmts} (h : ss.isNil = true) : ss = .nil := by
  cases ss with
  | nil => rfl
  | ret _ => simp [Stmts.isNil] at h
  | cons _ _ => simp [Stmts.isNil] at h

/-! ### the relation on values, objects and heaps -/

/-- a Go `*T` and a cell value -/
def PRel (R : List Nat) : Option Nat → BVal → Prop
  | none, v => v = .null
  | some o, v => ∃ b, R[o]? = some b ∧ v = .loc b 0

/-- Go values and GooseLang values -/
def VRel (R : List Nat) : Val → TVal → Prop
  | .num n, tv => tv = .base (.num n)
  | .ptrS o, tv => ∃ v, tv = .base v ∧ PRel R o v
  | .ptrN o, tv => ∃ b, R[o]? = some b ∧ tv = .base (.loc b 0)
  | .str a b n, tv => ∃ v, tv = .str (.num a) (.num b) v ∧ PRel R n v
  | .sl o off l c, tv => ∃ p, tv = .sl p l c ∧ l ≤ c ∧ (c = 0 ∨ ∃ b, R[o]? = some b ∧ p = .loc b off)

/-- a Go object and its block -/
def ObjRel (R : List Nat) : Obj → List BVal → Prop
  | .str a b n, blk => ∃ v, blk = [.num a, .num b, v] ∧ PRel R n v
  | .cell v, blk => blk = [.num v]
  | .arr vs, blk => blk = vs.map BVal.num

structure HRel (R : List Nat) (G : GHeap) (H : THeap) : Prop where
  len : R.length = G.length
  nodup : R.Nodup
  bound : ∀ b ∈ R, b < H.length
  obj : ∀ (o : Nat) (x : Obj), G[o]? = some x → ∃ b blk, R[o]? = some b ∧ H[b]? = some blk ∧ ObjRel R x blk

/-- `R'`, `H'` extend `R`, `H` by new blocks only -/
def Ext (R : List Nat) (H : THeap) (R' : List Nat) (H' : THeap) : Prop :=
  ∃ dR dH, R' = R ++ dR ∧ H' = H ++ dH ∧ ∀ b ∈ dR, H.length ≤ b

/-- `R'` extends `R` -/
def Pre (R R' : List Nat) : Prop := ∃ d, R' = R ++ d

theorem Ext.refl (R : List Nat) (H : THeap) : Ext R H R H := ⟨[], [], by simp, by simp, by simp⟩

theorem Ext.trans {R R1 R2 : List Nat} {H H1 H2 : THeap} (a : Ext R H R1 H1) (b : Ext R1 H1 R2 H2) :
    Ext R H R2 H2 := by
  obtain ⟨d1, e1, rfl, rfl, h1⟩ := a
  obtain ⟨d2, e2, rfl, rfl, h2⟩ := b
  refine ⟨d1 ++ d2, e1 ++ e2, by simp, by simp, ?_⟩
  intro x hx
  rcases List.mem_append.mp hx with hx | hx
  · exact h1 x hx
  · have := h2 x hx
    simp at this
    omega

theorem Ext.pre {R R' : List Nat} {H H' : THeap} (a : Ext R H R' H') : Pre R R' := by
  obtain ⟨d, _, h, _, _⟩ := a
  exact ⟨d, h⟩

theorem Pre.refl (R : List Nat) : Pre R R := ⟨[], by simp⟩

theorem Pre.trans {R R1 R2 : List Nat} (a : Pre R R1) (b : Pre R1 R2) : Pre R R2 := by
  obtain ⟨d1, rfl⟩ := a
  obtain ⟨d2, rfl⟩ := b
  exact ⟨d1 ++ d2, by simp⟩

theorem Pre.get {R R' : List Nat} (a : Pre R R') {o b : Nat} (h : R[o]? = some b) : R'[o]? = some b := by
  obtain ⟨d, rfl⟩ := a
  have hlt : o < R.length := by
    rcases Nat.lt_or_ge o R.length with hlt | hge
    · exact hlt
    · rw [List.getElem?_eq_none hge] at h; cases h
  rw [List.getElem?_append_left hlt]
  exact h

theorem PRel.mono {R R' : List Nat} (a : Pre R R') {o : Option Nat} {v : BVal} (h : PRel R o v) : PRel R' o v := by
  cases o with
  | none => exact h
  | some o =>
    obtain ⟨b, hb, hv⟩ := h
    exact ⟨b, a.get hb, hv⟩

theorem VRel.mono {R R' : List Nat} (a : Pre R R') {v : Val} {tv : TVal} (h : VRel R v tv) : VRel R' v tv := by
  cases v with
  | num n => exact h
  | ptrS o =>
    obtain ⟨w, hw, hp⟩ := h
    exact ⟨w, hw, hp.mono a⟩
  | ptrN o =>
    obtain ⟨b, hb, hv⟩ := h
    exact ⟨b, a.get hb, hv⟩
  | str x y n =>
    obtain ⟨w, hw, hp⟩ := h
    exact ⟨w, hw, hp.mono a⟩
  | sl o off l c =>
    obtain ⟨p, hp, hle, hc⟩ := h
    refine ⟨p, hp, hle, ?_⟩
    rcases hc with hc | ⟨b, hb, hpb⟩
    · exact .inl hc
    · exact .inr ⟨b, a.get hb, hpb⟩

theorem ObjRel.mono {R R' : List Nat} (a : Pre R R') {x : Obj} {blk : List BVal} (h : ObjRel R x blk) :
    ObjRel R' x blk := by
  cases x with
  | str p q n =>
    obtain ⟨w, hw, hp⟩ := h
    exact ⟨w, hw, hp.mono a⟩
  | cell v => exact h
  | arr vs => exact h

theorem lt_of_getElem? {α : Type} {l : List α} {i : Nat} {x : α} (h : l[i]? = some x) : i < l.length := by
  rcases Nat.lt_or_ge i l.length with hlt | hge
  · exact hlt
  · rw [List.getElem?_eq_none hge] at h
    cases h

theorem mem_of_getElem? {α : Type} {l : List α} {i : Nat} {x : α} (h : l[i]? = some x) : x ∈ l :=
  List.mem_of_getElem? h

/-- the values a related pointer can have point into `R` -/
theorem VRel.loc_mem {R : List Nat} {v : Val} {b o : Nat} (h : VRel R v (.base (.loc b o))) : b ∈ R := by
  cases v with
  | num n => simp [VRel] at h
  | ptrS p =>
    obtain ⟨w, hw, hp⟩ := h
    cases p with
    | none => simp [PRel] at hp; subst hp; simp at hw
    | some q =>
      obtain ⟨b', hb', hv⟩ := hp
      subst hv
      simp at hw
      obtain ⟨rfl, _⟩ := hw
      exact mem_of_getElem? hb'
  | ptrN q =>
    obtain ⟨b', hb', hv⟩ := h
    simp at hv
    obtain ⟨rfl, _⟩ := hv
    exact mem_of_getElem? hb'
  | str x y n => obtain ⟨w, hw, _⟩ := h; simp at hw
  | sl q off l c => obtain ⟨p, hp, _⟩ := h; simp at hp

/-! ### heaps: allocation and stores -/

theorem getElem?_append_some {α : Type} {l : List α} {i : Nat} {x : α} (d : List α) (h : l[i]? = some x) :
    (l ++ d)[i]? = some x := by
  rw [List.getElem?_append_left (lt_of_getElem? h)]
  exact h

/-- growing the target heap (a `var` cell, or the blocks of an `Ext`) keeps the heap relation -/
theorem HRel.grow {R : List Nat} {G : GHeap} {H : THeap} (h : HRel R G H) (d : THeap) : HRel R G (H ++ d) where
  len := h.len
  nodup := h.nodup
  bound := by
    intro b hb
    have := h.bound b hb
    simp
    omega
  obj := by
    intro o x hx
    obtain ⟨b, blk, h1, h2, h3⟩ := h.obj o x hx
    exact ⟨b, blk, h1, getElem?_append_some d h2, h3⟩

/-- allocating a Go object and its block -/
theorem HRel.alloc {R : List Nat} {G : GHeap} {H : THeap} (h : HRel R G H) (x : Obj) (blk : List BVal)
    (hx : ObjRel (R ++ [H.length]) x blk) : HRel (R ++ [H.length]) (G ++ [x]) (H ++ [blk]) where
  len := by simp [h.len]
  nodup := by
    rw [List.nodup_append]
    refine ⟨h.nodup, by simp, ?_⟩
    intro a ha b hb
    simp at hb
    subst hb
    have := h.bound a ha
    omega
  bound := by
    intro b hb
    simp at hb ⊢
    rcases hb with hb | hb
    · have := h.bound b hb
      omega
    · omega
  obj := by
    intro o y hy
    rcases Nat.lt_or_ge o G.length with hlt | hge
    · rw [List.getElem?_append_left hlt] at hy
      obtain ⟨b, blk', h1, h2, h3⟩ := h.obj o y hy
      exact ⟨b, blk', (Pre.get ⟨[H.length], rfl⟩ h1), getElem?_append_some _ h2, h3.mono ⟨[H.length], rfl⟩⟩
    · have ho : o = G.length := by
        have := lt_of_getElem? hy
        simp at this
        omega
      subst ho
      simp at hy
      subst hy
      refine ⟨H.length, blk, ?_, by simp, hx⟩
      rw [← h.len]
      simp

theorem Ext.alloc (R : List Nat) (H : THeap) (blk : List BVal) : Ext R H (R ++ [H.length]) (H ++ [blk]) :=
  ⟨[H.length], [blk], rfl, rfl, by simp⟩

theorem Ext.cell (R : List Nat) (H : THeap) (blk : List BVal) : Ext R H R (H ++ [blk]) :=
  ⟨[], [blk], by simp, rfl, by simp⟩

/-- a store into a block that is NOT an object's (a `var` cell) -/
theorem HRel.set_other {R : List Nat} {G : GHeap} {H : THeap} (h : HRel R G H) {b : Nat} (hb : b ∉ R)
    (blk : List BVal) : HRel R G (H.set b blk) where
  len := h.len
  nodup := h.nodup
  bound := by
    intro c hc
    simp
    exact h.bound c hc
  obj := by
    intro o x hx
    obtain ⟨c, blk', h1, h2, h3⟩ := h.obj o x hx
    refine ⟨c, blk', h1, ?_, h3⟩
    have hne : b ≠ c := by
      intro he
      subst he
      exact hb (mem_of_getElem? h1)
    rw [List.getElem?_set_ne hne]
    exact h2

/-- a store into the block of the Go object `o`, which becomes `x'` -/
theorem HRel.set_obj {R : List Nat} {G : GHeap} {H : THeap} (h : HRel R G H) {o b : Nat} (hb : R[o]? = some b)
    (x' : Obj) (blk' : List BVal) (hx : ObjRel R x' blk') : HRel R (setObj G o x') (H.set b blk') where
  len := by simp [setObj, h.len]
  nodup := h.nodup
  bound := by
    intro c hc
    simp
    exact h.bound c hc
  obj := by
    intro o' y hy
    have hbl : b < H.length := h.bound b (mem_of_getElem? hb)
    by_cases ho : o = o'
    · subst ho
      have hol : o < G.length := by
        have := lt_of_getElem? hy
        simpa [setObj] using this
      simp [setObj, hol] at hy
      subst hy
      exact ⟨b, blk', hb, by simp [hbl], hx⟩
    · simp only [setObj] at hy
      rw [List.getElem?_set_ne ho] at hy
      obtain ⟨c, blk, h1, h2, h3⟩ := h.obj o' y hy
      refine ⟨c, blk, h1, ?_, h3⟩
      have hne : b ≠ c := by
        intro he
        subst he
        have hlo := lt_of_getElem? hb
        have := (List.getElem?_inj hlo h.nodup (j := o')).mp (by rw [hb, h1])
        exact ho this
      rw [List.getElem?_set_ne hne]
      exact h2

/-! ### the relation on scopes -/

/-- no binding of `e` is the block `b` -/
def Fresh (b : Nat) (e : Env) : Prop := ∀ y, (y, TVal.base (.loc b 0)) ∉ e

theorem Fresh.tail {b : Nat} {e : Env} {p : String × TVal} (h : Fresh b (p :: e)) : Fresh b e := by
  intro y hy
  exact h y (List.mem_cons_of_mem _ hy)

theorem Fresh.left {b : Nat} {a c : Env} (h : Fresh b (a ++ c)) : Fresh b a := by
  intro y hy
  exact h y (List.mem_append_left _ hy)

theorem Fresh.right {b : Nat} {a c : Env} (h : Fresh b (a ++ c)) : Fresh b c := by
  intro y hy
  exact h y (List.mem_append_right _ hy)

/-- One scope: Go's bindings, the static scope, the target bindings; `eo` is the target environment of
the enclosing scopes (for the distinctness of the `var` blocks). -/
inductive RelS (R : List Nat) (H : THeap) (eo : Env) : Scope → SScope → Env → Prop where
  | nil : RelS R H eo [] [] []
  | val {sc : Scope} {ssc : SScope} {esc : Env} (x : String) (v : Val) (tv : TVal) (τ : Ty) :
      RelS R H eo sc ssc esc → VRel R v tv → v.ty = τ →
      RelS R H eo ((x, v) :: sc) ((x, false, τ) :: ssc) ((x, tv) :: esc)
  | cell {sc : Scope} {ssc : SScope} {esc : Env} (x : String) (v : Val) (tv : TVal) (τ : Ty) (b : Nat) :
      RelS R H eo sc ssc esc → VRel R v tv → v.ty = τ → b ∉ R → H[b]? = some (flatten tv) →
      Fresh b (esc ++ eo) →
      RelS R H eo ((x, v) :: sc) ((x, true, τ) :: ssc) ((x, .base (.loc b 0)) :: esc)

/-- The stacks, level by level. -/
inductive Rel (R : List Nat) (H : THeap) : Stack → SEnv → List Env → Prop where
  | nil : Rel R H [] [] []
  | cons {sc : Scope} {ssc : SScope} {esc : Env} {st : Stack} {Γ : SEnv} {envs : List Env} :
      RelS R H envs.flatten sc ssc esc → Rel R H st Γ envs → Rel R H (sc :: st) (ssc :: Γ) (esc :: envs)

/-- every block an environment mentions is allocated -/
theorem RelS.bound {R : List Nat} {H : THeap} {eo : Env} {sc : Scope} {ssc : SScope} {esc : Env}
    (r : RelS R H eo sc ssc esc) (hR : ∀ b ∈ R, b < H.length) :
    ∀ y b o, (y, TVal.base (.loc b o)) ∈ esc → b < H.length := by
  induction r with
  | nil => intro y b o hm; cases hm
  | val x v tv τ _ hv _ ih =>
    intro y b o hm
    simp at hm
    rcases hm with ⟨_, rfl⟩ | hm
    · exact hR b hv.loc_mem
    · exact ih y b o hm
  | cell x v tv τ b' _ _ _ _ hb _ ih =>
    intro y b o hm
    simp at hm
    rcases hm with ⟨_, rfl, _⟩ | hm
    · exact lt_of_getElem? hb
    · exact ih y b o hm

theorem Rel.bound {R : List Nat} {H : THeap} {stk : Stack} {Γ : SEnv} {envs : List Env}
    (r : Rel R H stk Γ envs) (hR : ∀ b ∈ R, b < H.length) :
    ∀ y b o, (y, TVal.base (.loc b o)) ∈ envs.flatten → b < H.length := by
  induction r with
  | nil => intro y b o hm; simp at hm
  | cons rs _ ih =>
    intro y b o hm
    rw [List.flatten_cons] at hm
    rcases List.mem_append.mp hm with hm | hm
    · exact rs.bound hR y b o hm
    · exact ih y b o hm

/-- the next block to be allocated is not in the environment -/
theorem Rel.fresh_length {R : List Nat} {H : THeap} {stk : Stack} {Γ : SEnv} {envs : List Env}
    (r : Rel R H stk Γ envs) (hR : ∀ b ∈ R, b < H.length) : Fresh H.length envs.flatten := by
  intro y hm
  exact Nat.lt_irrefl _ (r.bound hR y _ _ hm)

/-- The frame rule for the scopes: `R` grows by blocks that did not exist, and the blocks outside `R` keep
their contents. -/
theorem RelS.frame {R R' : List Nat} {H H' : THeap} {eo : Env} {sc : Scope} {ssc : SScope} {esc : Env}
    (r : RelS R H eo sc ssc esc) (hR : ∃ d, R' = R ++ d ∧ ∀ b ∈ d, H.length ≤ b)
    (hH : ∀ b blk, b ∉ R → H[b]? = some blk → H'[b]? = some blk) : RelS R' H' eo sc ssc esc := by
  obtain ⟨d, rfl, hd⟩ := hR
  induction r with
  | nil => exact .nil
  | val x v tv τ _ hv hτ ih => exact .val x v tv τ ih (hv.mono ⟨d, rfl⟩) hτ
  | cell x v tv τ b _ hv hτ hb hcell hf ih =>
    refine .cell x v tv τ b ih (hv.mono ⟨d, rfl⟩) hτ ?_ (hH b _ hb hcell) hf
    intro hm
    rcases List.mem_append.mp hm with hm | hm
    · exact hb hm
    · have := hd b hm
      have := lt_of_getElem? hcell
      omega

theorem Rel.frame {R R' : List Nat} {H H' : THeap} {stk : Stack} {Γ : SEnv} {envs : List Env}
    (r : Rel R H stk Γ envs) (hR : ∃ d, R' = R ++ d ∧ ∀ b ∈ d, H.length ≤ b)
    (hH : ∀ b blk, b ∉ R → H[b]? = some blk → H'[b]? = some blk) : Rel R' H' stk Γ envs := by
  induction r with
  | nil => exact .nil
  | cons rs _ ih => exact .cons (rs.frame hR hH) ih

theorem Rel.ext {R R' : List Nat} {H H' : THeap} {stk : Stack} {Γ : SEnv} {envs : List Env}
    (r : Rel R H stk Γ envs) (a : Ext R H R' H') : Rel R' H' stk Γ envs := by
  obtain ⟨dR, dH, rfl, rfl, hd⟩ := a
  exact r.frame ⟨dR, rfl, hd⟩ (fun b blk _ h => getElem?_append_some dH h)

/-- a store into an object's block keeps the scopes -/
theorem Rel.set_obj {R : List Nat} {H : THeap} {stk : Stack} {Γ : SEnv} {envs : List Env}
    (r : Rel R H stk Γ envs) {b : Nat} (hb : b ∈ R) (blk : List BVal) : Rel R (H.set b blk) stk Γ envs := by
  refine r.frame ⟨[], by simp, by simp⟩ ?_
  intro c blk' hc h
  have hne : b ≠ c := by
    intro he
    subst he
    exact hc hb
  rw [List.getElem?_set_ne hne]
  exact h

/-! ### a store to a `var` block that a part of the environment does not mention -/

theorem RelS.set_frame {R : List Nat} {H : THeap} {eo : Env} {sc : Scope} {ssc : SScope} {esc : Env}
    (b : Nat) (blk : List BVal) (r : RelS R H eo sc ssc esc) : Fresh b esc → RelS R (H.set b blk) eo sc ssc esc := by
  induction r with
  | nil => intro _; exact .nil
  | val x v tv τ _ hv hτ ih => intro hf; exact .val x v tv τ (ih hf.tail) hv hτ
  | cell x v tv τ b' _ hv hτ hb hcell hf' ih =>
    intro hf
    have hne : b ≠ b' := by
      intro he
      subst he
      exact hf x List.mem_cons_self
    refine .cell x v tv τ b' (ih hf.tail) hv hτ hb ?_ hf'
    rw [List.getElem?_set_ne hne]
    exact hcell

theorem Rel.set_frame {R : List Nat} {H : THeap} {stk : Stack} {Γ : SEnv} {envs : List Env}
    (b : Nat) (blk : List BVal) (r : Rel R H stk Γ envs) : Fresh b envs.flatten → Rel R (H.set b blk) stk Γ envs := by
  induction r with
  | nil => intro _; exact .nil
  | cons rs _ ih =>
    intro hf
    rw [List.flatten_cons] at hf
    exact .cons (rs.set_frame b blk hf.left) (ih hf.right)

/-- a block of an enclosing scope does not occur in the scope -/
theorem RelS.fresh_of_outer {R : List Nat} {H : THeap} {eo : Env} {sc : Scope} {ssc : SScope} {esc : Env}
    (r : RelS R H eo sc ssc esc) {y : String} {b : Nat} (hm : (y, TVal.base (.loc b 0)) ∈ eo) (hb : b ∉ R) :
    Fresh b esc := by
  induction r with
  | nil => intro z hz; cases hz
  | val x v tv τ _ hv _ ih =>
    intro z hz
    simp at hz
    rcases hz with ⟨_, rfl⟩ | hz
    · exact hb hv.loc_mem
    · exact ih z hz
  | cell x v tv τ b' _ _ _ _ _ hf ih =>
    intro z hz
    simp at hz
    rcases hz with ⟨_, rfl⟩ | hz
    · exact hf y (List.mem_append_right _ hm)
    · exact ih z hz

/-! ### lookup -/

/-- What the three lookups in one scope give, by the static entry. -/
def LookS (R : List Nat) (H : THeap) (x : String) (sc : Scope) (esc : Env) : Option (Bool × Ty) → Prop
  | none => look x sc = none ∧ look x esc = none
  | some (false, τ) => ∃ v tv, look x sc = some v ∧ look x esc = some tv ∧ VRel R v tv ∧ v.ty = τ
  | some (true, τ) => ∃ v tv b, look x sc = some v ∧ look x esc = some (.base (.loc b 0)) ∧ VRel R v tv ∧
      v.ty = τ ∧ H[b]? = some (flatten tv) ∧ b ∉ R

theorem LookS.skip {R : List Nat} {H : THeap} {x y : String} {sc : Scope} {esc : Env} {w : Option (Bool × Ty)}
    (v : Val) (tv : TVal) (hy : ¬ y = x) (hl : LookS R H x sc esc w) : LookS R H x ((y, v) :: sc) ((y, tv) :: esc) w := by
  match w with
  | none => simpa [LookS, look, hy] using hl
  | some (false, τ) => simpa [LookS, look, hy] using hl
  | some (true, τ) => simpa [LookS, look, hy] using hl

theorem RelS.lookup {R : List Nat} {H : THeap} {eo : Env} {sc : Scope} {ssc : SScope} {esc : Env} (x : String)
    (r : RelS R H eo sc ssc esc) : LookS R H x sc esc (look x ssc) := by
  induction r with
  | nil => simp [look, LookS]
  | val y v tv τ _ hv hτ ih =>
    by_cases hy : y = x
    · simp only [look, hy, if_true, LookS]
      exact ⟨v, tv, rfl, rfl, hv, hτ⟩
    · simp only [look, hy, if_false]
      exact ih.skip v tv hy
  | cell y v tv τ b _ hv hτ hb hcell _ ih =>
    by_cases hy : y = x
    · simp only [look, hy, if_true, LookS]
      exact ⟨v, tv, b, rfl, rfl, hv, hτ, hcell, hb⟩
    · simp only [look, hy, if_false]
      exact ih.skip v _ hy

/-- What the lookups in the whole stacks give. -/
def LookR (R : List Nat) (H : THeap) (x : String) (stk : Stack) (env : Env) : Option (Bool × Ty) → Prop
  | none => True
  | some (false, τ) => ∃ v tv, lookStk x stk = some v ∧ look x env = some tv ∧ VRel R v tv ∧ v.ty = τ
  | some (true, τ) => ∃ v tv b, lookStk x stk = some v ∧ look x env = some (.base (.loc b 0)) ∧ VRel R v tv ∧
      v.ty = τ ∧ H[b]? = some (flatten tv) ∧ b ∉ R

theorem Rel.lookup {R : List Nat} {H : THeap} {stk : Stack} {Γ : SEnv} {envs : List Env} (x : String)
    (r : Rel R H stk Γ envs) : LookR R H x stk envs.flatten (lookStk x Γ) := by
  induction r with
  | nil => simp [lookStk, LookR]
  | @cons sc ssc esc st Γ envs rs _ ih =>
    have hs := rs.lookup x
    rw [List.flatten_cons, lookStk]
    match hw : look x ssc with
    | none =>
      rw [hw] at hs
      obtain ⟨h1, h2⟩ := hs
      simp only []
      match hΓ : lookStk x Γ with
      | none => trivial
      | some (false, τ) =>
        rw [hΓ] at ih
        obtain ⟨v, tv, h3, h4, h5, h6⟩ := ih
        exact ⟨v, tv, by simp [lookStk, h1, h3], by simp [look_append, h2, h4], h5, h6⟩
      | some (true, τ) =>
        rw [hΓ] at ih
        obtain ⟨v, tv, b, h3, h4, h5, h6, h7, h8⟩ := ih
        exact ⟨v, tv, b, by simp [lookStk, h1, h3], by simp [look_append, h2, h4], h5, h6, h7, h8⟩
    | some (false, τ) =>
      rw [hw] at hs
      obtain ⟨v, tv, h1, h2, h3, h4⟩ := hs
      exact ⟨v, tv, by simp [lookStk, h1], by simp [look_append, h2], h3, h4⟩
    | some (true, τ) =>
      rw [hw] at hs
      obtain ⟨v, tv, b, h1, h2, h3, h4, h5, h6⟩ := hs
      exact ⟨v, tv, b, by simp [lookStk, h1], by simp [look_append, h2], h3, h4, h5, h6⟩

/-! ### assignment to a `var` variable -/

theorem RelS.upd_none {R : List Nat} {H : THeap} {eo : Env} {sc : Scope} {ssc : SScope} {esc : Env}
    (x : String) (v' : Val) (r : RelS R H eo sc ssc esc) : look x ssc = none → updScope x v' sc = none := by
  induction r with
  | nil => intro _; rfl
  | val y v tv τ _ _ _ ih =>
    by_cases hy : y = x
    · simp [look, hy]
    · intro hl
      simp [look, hy] at hl
      simp [updScope, hy, ih hl]
  | cell y v tv τ b _ _ _ _ _ _ ih =>
    by_cases hy : y = x
    · simp [look, hy]
    · intro hl
      simp [look, hy] at hl
      simp [updScope, hy, ih hl]

/-- A new value for a wrapped variable found in this scope: Go updates this scope, the target overwrites the
variable's block, and nothing else changes. -/
theorem RelS.upd {R : List Nat} {H : THeap} {eo : Env} {sc : Scope} {ssc : SScope} {esc : Env}
    (x : String) (τ : Ty) (v' : Val) (tv' : TVal) (hv' : VRel R v' tv') (hτ' : v'.ty = τ)
    (r : RelS R H eo sc ssc esc) : look x ssc = some (true, τ) →
      ∃ b sc', updScope x v' sc = some sc' ∧ look x esc = some (.base (.loc b 0)) ∧ b < H.length ∧ b ∉ R ∧
        Fresh b eo ∧ RelS R (H.set b (flatten tv')) eo sc' ssc esc := by
  induction r with
  | nil => intro hl; simp [look] at hl
  | @val sc ssc esc y v tv σ _ hv hσ ih =>
    intro hl
    by_cases hy : y = x
    · simp [look, hy] at hl
    · simp [look, hy] at hl
      obtain ⟨b, sc', h1, h2, h3, h4, h5, h6⟩ := ih hl
      exact ⟨b, (y, v) :: sc', by simp [updScope, hy, h1], by simp [look, hy, h2], h3, h4, h5, .val y v tv σ h6 hv hσ⟩
  | @cell sc ssc esc y v tv σ b' rs hv hσ hb' hcell hf ih =>
    intro hl
    by_cases hy : y = x
    · simp [look, hy] at hl
      subst hl
      have hlt := lt_of_getElem? hcell
      refine ⟨b', (y, v') :: sc, by simp [updScope, hy], by simp [look, hy], hlt, hb', hf.right, ?_⟩
      refine .cell y v' tv' σ b' (rs.set_frame b' _ hf.left) hv' hτ' hb' ?_ hf
      simp [hlt]
    · simp [look, hy] at hl
      obtain ⟨b, sc', h1, h2, h3, h4, h5, h6⟩ := ih hl
      have hne : b ≠ b' := by
        intro he
        subst he
        exact hf x (List.mem_append_left _ (look_mem h2))
      refine ⟨b, (y, v) :: sc', by simp [updScope, hy, h1], by simp [look, hy, h2], h3, h4, h5, ?_⟩
      refine .cell y v tv σ b' h6 hv hσ hb' ?_ hf
      rw [List.getElem?_set_ne hne]
      exact hcell

/-- A new value for a name whose innermost declaration is wrapped. -/
theorem Rel.upd {R : List Nat} {H : THeap} {stk : Stack} {Γ : SEnv} {envs : List Env}
    (x : String) (τ : Ty) (v' : Val) (tv' : TVal) (hv' : VRel R v' tv') (hτ' : v'.ty = τ)
    (r : Rel R H stk Γ envs) : lookStk x Γ = some (true, τ) →
      ∃ b stk', updStk x v' stk = some stk' ∧ look x envs.flatten = some (.base (.loc b 0)) ∧ b < H.length ∧
        b ∉ R ∧ Rel R (H.set b (flatten tv')) stk' Γ envs := by
  induction r with
  | nil => intro hl; simp [lookStk] at hl
  | @cons sc ssc esc st Γ envs rs rt ih =>
    intro hl
    rw [lookStk] at hl
    rw [List.flatten_cons]
    match hw : look x ssc with
    | some w =>
      simp [hw] at hl
      subst hl
      obtain ⟨b, sc', h1, h2, h3, h4, h5, h6⟩ := rs.upd x τ v' tv' hv' hτ' hw
      exact ⟨b, sc' :: st, by simp [updStk, h1], by simp [look_append, h2], h3, h4, .cons h6 (rt.set_frame b _ h5)⟩
    | none =>
      simp [hw] at hl
      obtain ⟨b, st', h1, h2, h3, h4, h5⟩ := ih hl
      have hs := rs.lookup x
      rw [hw] at hs
      have hf : Fresh b esc := rs.fresh_of_outer (look_mem h2) h4
      exact ⟨b, sc :: st', by simp [updStk, rs.upd_none x v' hw, h1], by simp [look_append, hs.2, h2], h3, h4,
        .cons (rs.set_frame b _ hf) h5⟩

/-! ### flattening -/

theorem flattenAs_of_VRel {R : List Nat} {v : Val} {tv : TVal} (h : VRel R v tv) :
    flattenAs v.ty tv = some (flatten tv) := by
  cases v with
  | num n => simp [VRel] at h; subst h; rfl
  | ptrS o => obtain ⟨w, rfl, _⟩ := h; rfl
  | ptrN o => obtain ⟨b, _, rfl⟩ := h; rfl
  | str a b n => obtain ⟨w, rfl, _⟩ := h; rfl
  | sl o off l c => obtain ⟨p, rfl, _⟩ := h; rfl

theorem unflatten_of_VRel {R : List Nat} {v : Val} {tv : TVal} (h : VRel R v tv) :
    unflatten v.ty (flatten tv) = some tv := by
  cases v with
  | num n => simp [VRel] at h; subst h; rfl
  | ptrS o => obtain ⟨w, rfl, _⟩ := h; rfl
  | ptrN o => obtain ⟨b, _, rfl⟩ := h; rfl
  | str a b n => obtain ⟨w, rfl, _⟩ := h; rfl
  | sl o off l c => obtain ⟨p, rfl, _⟩ := h; rfl

theorem flatten_length_of_VRel {R : List Nat} {v : Val} {tv : TVal} (h : VRel R v tv) :
    (flatten tv).length = v.ty.size := by
  cases v with
  | num n => simp [VRel] at h; subst h; rfl
  | ptrS o => obtain ⟨w, rfl, _⟩ := h; rfl
  | ptrN o => obtain ⟨b, _, rfl⟩ := h; rfl
  | str a b n => obtain ⟨w, rfl, _⟩ := h; rfl
  | sl o off l c => obtain ⟨p, rfl, _⟩ := h; rfl

/-- loading a whole block -/
theorem loadAt_whole {H : THeap} {b : Nat} {blk : List BVal} (h : H[b]? = some blk) :
    loadAt H b 0 blk.length = some blk := by
  simp [loadAt, h]

/-- overwriting a whole block -/
theorem storeAt_whole {H : THeap} {b : Nat} {blk cells : List BVal} (h : H[b]? = some blk)
    (hl : cells.length = blk.length) : storeAt H b 0 cells = some (H.set b cells) := by
  simp [storeAt, h, hl]

end GooseVerif.Model.Heap
