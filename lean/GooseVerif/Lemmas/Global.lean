/-
Lemmas about the model of package-level variables (Model/Global.lean): the decided equality of
types is equality, what the guard says about lists of fields, a reference-free well-typed
initialiser allocates nothing and evaluates to one value in every heap, and then re-evaluating it
before every use changes nothing.
-/
import GooseVerif.Model.Global

namespace GooseVerif.Model.Global

/-! ### `Ty.beq` is equality -/

mutual
theorem Ty.eq_of_beq : (t t' : Ty) → Ty.beq t t' = true → t = t'
  | .num, .num, _ => rfl
  | .ref a, .ref b, h => by
    have := Ty.eq_of_beq a b (by simpa [Ty.beq] using h)
    rw [this]
  | .struct fs, .struct gs, h => by
    have := Ty.eqList_of_beqList fs gs (by simpa [Ty.beq] using h)
    rw [this]
  | .array n a, .array m b, h => by
    have h' : n = m ∧ Ty.beq a b = true := by simpa [Ty.beq] using h
    have := Ty.eq_of_beq a b h'.2
    rw [this, h'.1]
  | .num, .ref _, h => by simp [Ty.beq] at h
  | .num, .struct _, h => by simp [Ty.beq] at h
  | .num, .array _ _, h => by simp [Ty.beq] at h
  | .ref _, .num, h => by simp [Ty.beq] at h
  | .ref _, .struct _, h => by simp [Ty.beq] at h
  | .ref _, .array _ _, h => by simp [Ty.beq] at h
  | .struct _, .num, h => by simp [Ty.beq] at h
  | .struct _, .ref _, h => by simp [Ty.beq] at h
  | .struct _, .array _ _, h => by simp [Ty.beq] at h
  | .array _ _, .num, h => by simp [Ty.beq] at h
  | .array _ _, .ref _, h => by simp [Ty.beq] at h
  | .array _ _, .struct _, h => by simp [Ty.beq] at h
theorem Ty.eqList_of_beqList : (ts ts' : List Ty) → Ty.beqList ts ts' = true → ts = ts'
  | [], [], _ => rfl
  | f :: fs, g :: gs, h => by
    have h' : Ty.beq f g = true ∧ Ty.beqList fs gs = true := by simpa [Ty.beqList] using h
    rw [Ty.eq_of_beq f g h'.1, Ty.eqList_of_beqList fs gs h'.2]
  | [], _ :: _, h => by simp [Ty.beqList] at h
  | _ :: _, [], h => by simp [Ty.beqList] at h
end

mutual
theorem Ty.beq_refl : (t : Ty) → Ty.beq t t = true
  | .num => by simp [Ty.beq]
  | .ref a => by simpa [Ty.beq] using Ty.beq_refl a
  | .struct fs => by simpa [Ty.beq] using Ty.beqList_refl fs
  | .array n a => by simpa [Ty.beq] using Ty.beq_refl a
theorem Ty.beqList_refl : (ts : List Ty) → Ty.beqList ts ts = true
  | [] => by simp [Ty.beqList]
  | f :: fs => by simp [Ty.beqList, Ty.beq_refl f, Ty.beqList_refl fs]
end

theorem Ty.beq_iff (t t' : Ty) : Ty.beq t t' = true ↔ t = t' :=
  ⟨Ty.eq_of_beq t t', fun h => h ▸ Ty.beq_refl t⟩

/-- equality of types is decidable (the derive handler does not apply to a type nested in `List`) -/
instance : DecidableEq Ty := fun t t' => decidable_of_iff _ (Ty.beq_iff t t')

/-! ### the guard on lists of fields -/

theorem holdsReferenceList_iff (fs : List Ty) :
    holdsReferenceList fs = true ↔ ∃ f, f ∈ fs ∧ holdsReference f = true := by
  induction fs with
  | nil => simp [holdsReferenceList]
  | cons f fs ih => simp [holdsReferenceList, ih]

theorem holdsReferenceList_false_iff (fs : List Ty) :
    holdsReferenceList fs = false ↔ ∀ f, f ∈ fs → holdsReference f = false := by
  induction fs with
  | nil => simp [holdsReferenceList]
  | cons f fs ih => simp [holdsReferenceList, ih]

theorem holdsReference_struct (fs : List Ty) :
    holdsReference (.struct fs) = holdsReferenceList fs := by
  simp [holdsReference]

theorem holdsReference_array (n : Nat) (e : Ty) :
    holdsReference (.array n e) = holdsReference e := by
  simp [holdsReference]

/-- in a list of one type, every element is the first -/
theorem eq_headTy_of_sameTys (ts : List Ty) (h : sameTys ts = true) :
    ∀ t, t ∈ ts → t = headTy ts := by
  cases ts with
  | nil => intro t ht; cases ht
  | cons t0 ts =>
    intro t ht
    simp only [sameTys, List.all_eq_true] at h
    simp only [headTy]
    cases ht with
    | head => rfl
    | tail _ hm => exact Ty.eq_of_beq _ _ (h t hm)

/-- the elements of a well-typed array literal whose element type holds no reference hold none -/
theorem holdsReferenceList_of_sameTys (ts : List Ty) (h : sameTys ts = true)
    (hr : holdsReference (headTy ts) = false) : holdsReferenceList ts = false := by
  rw [holdsReferenceList_false_iff]
  intro t ht
  rw [eq_headTy_of_sameTys ts h t ht]
  exact hr

/-! ### a reference-free initialiser allocates nothing and does not read the heap -/

mutual
/-- evaluating a well-typed initialiser of a reference-free type in any heap: the value it has in
the empty heap, and the heap unchanged -/
theorem Init.eval_noref : (e : Init) → e.wellTyped = true → holdsReference e.ty = false →
    ∀ h : Heap, e.eval h = ((e.eval []).1, h)
  | .lit n, _, _, h => by simp [Init.eval]
  | .alloc e, _, hr, _ => by simp [Init.ty, holdsReference] at hr
  | .mk fs, hw, hr, h => by
    have hw' : Init.wellTypedList fs = true := by simpa [Init.wellTyped] using hw
    have hr' : holdsReferenceList (Init.tyList fs) = false := by
      simpa [Init.ty, holdsReference] using hr
    have := Init.evalList_noref fs hw' hr' h
    simp [Init.eval, this]
  | .arr es, hw, hr, h => by
    have hw' : Init.wellTypedList es = true ∧ sameTys (Init.tyList es) = true := by
      simpa [Init.wellTyped] using hw
    have hr' : holdsReference (headTy (Init.tyList es)) = false := by
      simpa [Init.ty, holdsReference] using hr
    have := Init.evalList_noref es hw'.1
      (holdsReferenceList_of_sameTys _ hw'.2 hr') h
    simp [Init.eval, this]
theorem Init.evalList_noref : (es : List Init) → Init.wellTypedList es = true →
    holdsReferenceList (Init.tyList es) = false →
    ∀ h : Heap, Init.evalList es h = ((Init.evalList es []).1, h)
  | [], _, _, h => by simp [Init.evalList]
  | e :: es, hw, hr, h => by
    have hw' : e.wellTyped = true ∧ Init.wellTypedList es = true := by
      simpa [Init.wellTypedList] using hw
    have hr' : holdsReference e.ty = false ∧ holdsReferenceList (Init.tyList es) = false := by
      simpa [Init.tyList, holdsReferenceList] using hr
    have h1 := Init.eval_noref e hw'.1 hr'.1 h
    have h2 := Init.eval_noref e hw'.1 hr'.1 []
    have h3 := Init.evalList_noref es hw'.2 hr'.2 h
    have h4 := Init.evalList_noref es hw'.2 hr'.2 []
    have e1 : (e.eval h).2 = h := by rw [h1]
    have e2 : (e.eval []).2 = [] := by rw [h2]
    have e3 : (e.eval h).1 = (e.eval []).1 := by rw [h1]
    simp only [Init.evalList, e1, e2, e3]
    rw [h3]
end

/-- re-evaluating, before every use, an initialiser that always yields the value `v` and leaves the
heap alone is performing the uses against `v` -/
theorem runGooseFrom_eq_runFrom (init : Init) (v : Val)
    (hev : ∀ h : Heap, init.eval h = (v, h)) (us : List Use) :
    ∀ h : Heap, runGooseFrom init h us = runFrom v h us := by
  induction us with
  | nil => intro h; simp [runGooseFrom, runFrom]
  | cons u us ih =>
    intro h
    simp only [runGooseFrom, runFrom, hev h]
    rw [ih]

end GooseVerif.Model.Global
