/-
Helper definitions for the collections theorem, part 6: rewriting target expressions (to state translator
mutants), the example programs of `Props/C01Coll.lean`, and the oracle of the line protocol.
-/
import GooseVerif.Lemmas.CollOrder
import GooseVerif.Lemmas.CollStmt

namespace GooseVerif.Model.Coll
open GooseVerif.Model.Heap (look lookStk bindStk Res ofOpt)

/-! ### rewriting target expressions -/

/-- apply `rule` at every node, children first -/
def rewrite (rule : T → T) : T → T
  | .lit n => rule (.lit n)
  | .blit b => rule (.blit b)
  | .var x => rule (.var x)
  | .add a b => rule (.add (rewrite rule a) (rewrite rule b))
  | .mul a b => rule (.mul (rewrite rule a) (rewrite rule b))
  | .cmp op a b => rule (.cmp op (rewrite rule a) (rewrite rule b))
  | .load ty e => rule (.load ty (rewrite rule e))
  | .store ty d e => rule (.store ty (rewrite rule d) (rewrite rule e))
  | .refTo ty e => rule (.refTo ty (rewrite rule e))
  | .newMap => rule .newMap
  | .mapGet m k => rule (.mapGet (rewrite rule m) (rewrite rule k))
  | .fst e => rule (.fst (rewrite rule e))
  | .mapInsert m k v => rule (.mapInsert (rewrite rule m) (rewrite rule k) (rewrite rule v))
  | .mapDelete m k => rule (.mapDelete (rewrite rule m) (rewrite rule k))
  | .mapLen m => rule (.mapLen (rewrite rule m))
  | .mapIter m k v body => rule (.mapIter (rewrite rule m) k v (rewrite rule body))
  | .newSlice n => rule (.newSlice (rewrite rule n))
  | .newSliceCap n c => rule (.newSliceCap (rewrite rule n) (rewrite rule c))
  | .sliceGet s i => rule (.sliceGet (rewrite rule s) (rewrite rule i))
  | .sliceSet s i e => rule (.sliceSet (rewrite rule s) (rewrite rule i) (rewrite rule e))
  | .sliceLen s => rule (.sliceLen (rewrite rule s))
  | .sliceCap s => rule (.sliceCap (rewrite rule s))
  | .sliceAppend s e => rule (.sliceAppend (rewrite rule s) (rewrite rule e))
  | .sliceAppendSlice s t => rule (.sliceAppendSlice (rewrite rule s) (rewrite rule t))
  | .sliceCopy d s => rule (.sliceCopy (rewrite rule d) (rewrite rule s))
  | .subslice s a b => rule (.subslice (rewrite rule s) (rewrite rule a) (rewrite rule b))
  | .sliceTake s b => rule (.sliceTake (rewrite rule s) (rewrite rule b))
  | .sliceSkip s a => rule (.sliceSkip (rewrite rule s) (rewrite rule a))
  | .forSlice i x s body => rule (.forSlice i x (rewrite rule s) (rewrite rule body))
  | .letIn x e b => rule (.letIn x (rewrite rule e) (rewrite rule b))
  | .let2 a b e body => rule (.let2 a b (rewrite rule e) (rewrite rule body))
  | .seq a b => rule (.seq (rewrite rule a) (rewrite rule b))
  | .ite c a b => rule (.ite (rewrite rule c) (rewrite rule a) (rewrite rule b))
  | .unit => rule .unit

/-- mutant 1: `m[k]` translated without `Fst` (`indexExpr` ignoring `isSpecial`) -/
def ruleNoFst : T → T
  | .fst e => e
  | t => t

/-- mutant 2: the two results of `v, ok := m[k]` bound in the wrong order -/
def ruleSwapLookup : T → T
  | .let2 a b e body => .let2 b a e body
  | t => t

/-- mutant 3: `x = append(s, e)` translated as the in-place store `SliceSet s (slice.len s) e` -/
def ruleAppendInPlace : T → T
  | .store ty d (.sliceAppend s e) => .seq (.sliceSet s (.sliceLen s) e) (.store ty d s)
  | t => t

/-- mutant 4: the body of `MapIter` receiving (value, key) -/
def ruleSwapIter : T → T
  | .mapIter m k v body => .mapIter m v k body
  | t => t

/-- mutant 5: `ForSlice` binding (element, index) -/
def ruleSwapForSlice : T → T
  | .forSlice i x s body => .forSlice x i s body
  | t => t

/-- mutant 6: a use of a `var` variable without the load -/
def ruleNoLoad : T → T
  | .load _ e => e
  | t => t

/-! ### the oracle of the line protocol is a permutation -/

theorem insAsc_perm (e : Nat × Nat) (l : List (Nat × Nat)) : (insAsc e l).Perm (e :: l) := by
  induction l with
  | nil => exact List.Perm.refl _
  | cons f r ih =>
    simp only [insAsc]
    split
    · exact List.Perm.refl _
    · exact (List.Perm.cons f ih).trans (List.Perm.swap e f r)

theorem ordAsc_perm (es : List (Nat × Nat)) : (ordAsc es).Perm es := by
  induction es with
  | nil => exact List.Perm.refl _
  | cons e r ih =>
    simp only [ordAsc]
    exact (insAsc_perm e (ordAsc r)).trans (List.Perm.cons e ih)

/-! ### example programs -/

def acc (e : Exp) : Stmt := .assign "acc" (.e (.add (.var "acc") e))

/-- `m := make(map[uint64]uint64); n := m; n[k] = x; return m[j]` -/
def exMapRef (k x j : Nat) : Stmts :=
  seqS [.define "m" (.e (.mkMap false)), .define "n" (.e (.var "m")), .mapSet (.var "n") (.lit k) (.lit x)]
    (.ret (.mapGet (.var "m") (.lit j)))

/-- `m := make(map[uint64]uint64); m[k] = x; var n map[uint64]uint64 = m; delete(n, k); return uint64(len(m))` -/
def exMapRefDelete (k x : Nat) : Stmts :=
  seqS [.define "m" (.e (.mkMap false)), .mapSet (.var "m") (.lit k) (.lit x), .declare "n" (.e (.var "m")),
        .delete (.var "n") (.lit k)]
    (.ret (.mapLen (.var "m")))

/-- `m := make(map[uint64]uint64); m[k] = x; v, ok := m[j]; var r uint64 = 0; if ok { r = v + 1 }; return r` -/
def exLookup2 (k x j : Nat) : Stmts :=
  seqS [.define "m" (.e (.mkMap false)), .mapSet (.var "m") (.lit k) (.lit x),
        .lookup2 (some "v") (some "ok") (.var "m") (.lit j), .declare "r" (.e (.lit 0)),
        .ite (.var "ok") (seqS [.assign "r" (.e (.add (.var "v") (.lit 1)))] .nil) .nil]
    (.ret (.var "r"))

/-- `m := make(map[uint64]uint64); m[k] = x; delete(m, k); _, ok := m[k]; var r uint64 = m[k]; if ok { r = 99 }; return r` -/
def exDeleteGet (k x : Nat) : Stmts :=
  seqS [.define "m" (.e (.mkMap false)), .mapSet (.var "m") (.lit k) (.lit x), .delete (.var "m") (.lit k),
        .lookup2 none (some "ok") (.var "m") (.lit k), .declare "r" (.e (.mapGet (.var "m") (.lit k))),
        .ite (.var "ok") (seqS [.assign "r" (.e (.lit 99))] .nil) .nil]
    (.ret (.var "r"))

/-- `m := make(map[uint64]uint64); m[k1] = 1; m[k2] = 2; m[k1] = 3; return uint64(len(m))` -/
def exLen (k1 k2 : Nat) : Stmts :=
  seqS [.define "m" (.e (.mkMap false)), .mapSet (.var "m") (.lit k1) (.lit 1), .mapSet (.var "m") (.lit k2) (.lit 2),
        .mapSet (.var "m") (.lit k1) (.lit 3)]
    (.ret (.mapLen (.var "m")))

/-- `s := make([]uint64, 2, 3); t := append(s, x); t[0] = y; return s[0] + uint64(len(s))*100`: the append fits -/
def exAppendFits (x y : Nat) : Stmts :=
  seqS [.define "s" (.e (.mkSliceCap (.lit 2) (.lit 3))), .define "t" (.append (.var "s") (.lit x)),
        .setIdx (.var "t") (.lit 0) (.lit y)]
    (.ret (.add (.idx (.var "s") (.lit 0)) (.mul (.len (.var "s")) (.lit 100))))

/-- `s := make([]uint64, 2); t := append(s, x); t[0] = y; return s[0] + t[0]*100 + t[2]*10000`: it does not fit -/
def exAppendGrows (x y : Nat) : Stmts :=
  seqS [.define "s" (.e (.mkSlice (.lit 2))), .define "t" (.append (.var "s") (.lit x)),
        .setIdx (.var "t") (.lit 0) (.lit y)]
    (.ret (.add (.idx (.var "s") (.lit 0))
      (.add (.mul (.idx (.var "t") (.lit 0)) (.lit 100)) (.mul (.idx (.var "t") (.lit 2)) (.lit 10000)))))

/-- `s := make([]uint64, 2, 3); t := append(s, x); u := append(s, y); return t[2]`: both appends write the SAME cell -/
def exAppendTwice (x y : Nat) : Stmts :=
  seqS [.define "s" (.e (.mkSliceCap (.lit 2) (.lit 3))), .define "t" (.append (.var "s") (.lit x)),
        .define "u" (.append (.var "s") (.lit y)), .define "w" (.e (.len (.var "u")))]
    (.ret (.idx (.var "t") (.lit 2)))

/-- `m := make(…); m[1] = a; m[2] = b; m[7] = c; var acc uint64 = 0; for k, v := range m { acc = acc + k*3 + v }; return acc` -/
def exRange (a b c : Nat) : Stmts :=
  seqS [.define "m" (.e (.mkMap false)), .mapSet (.var "m") (.lit 1) (.lit a), .mapSet (.var "m") (.lit 2) (.lit b),
        .mapSet (.var "m") (.lit 7) (.lit c), .declare "acc" (.e (.lit 0)),
        .rangeMap (some "k") (some "v") (.var "m") (seqS [acc (.add (.mul (.var "k") (.lit 3)) (.var "v"))] .nil)]
    (.ret (.var "acc"))

/-- the same loop with the body `acc = acc*2 + k`, which does NOT meet the condition -/
def exRangeOrdered : Stmts :=
  seqS [.define "m" (.e (.mkMap false)), .mapSet (.var "m") (.lit 1) (.lit 0), .mapSet (.var "m") (.lit 2) (.lit 0),
        .declare "acc" (.e (.lit 0)),
        .rangeMap (some "k") none (.var "m")
          (seqS [.assign "acc" (.e (.add (.mul (.var "acc") (.lit 2)) (.var "k")))] .nil)]
    (.ret (.var "acc"))

/-- `m[1] = 0; for k := range m { m[k + 10] = 1 }; return len(m)` and the same with `delete(m, k)`: the body changes the
    ranged map — Go leaves open what the loop visits -/
def exRangeInsert : Stmts :=
  seqS [.define "m" (.e (.mkMap false)), .mapSet (.var "m") (.lit 1) (.lit 0),
        .rangeMap (some "k") none (.var "m") (seqS [.mapSet (.var "m") (.add (.var "k") (.lit 10)) (.lit 1)] .nil)]
    (.ret (.mapLen (.var "m")))
def exRangeDelete : Stmts :=
  seqS [.define "m" (.e (.mkMap false)), .mapSet (.var "m") (.lit 1) (.lit 0),
        .rangeMap (some "k") none (.var "m") (seqS [.delete (.var "m") (.var "k")] .nil)]
    (.ret (.mapLen (.var "m")))

/-- `s := make([]uint64, 3); s[0] = a; s[1] = b; s[2] = c; var acc uint64 = 0;
    for i, x := range s { acc = acc*10 + x*2 + i }; return acc` -/
def exSliceRange (a b c : Nat) : Stmts :=
  seqS [.define "s" (.e (.mkSlice (.lit 3))), .setIdx (.var "s") (.lit 0) (.lit a), .setIdx (.var "s") (.lit 1) (.lit b),
        .setIdx (.var "s") (.lit 2) (.lit c), .declare "acc" (.e (.lit 0)),
        .rangeSlice (some "i") (some "x") (.var "s")
          (seqS [.assign "acc" (.e (.add (.mul (.var "acc") (.lit 10)) (.add (.mul (.var "x") (.lit 2)) (.var "i"))))] .nil)]
    (.ret (.var "acc"))

/-- `s := make([]uint64, 3); var acc uint64 = 0; for _, x := range s { acc = acc*10 + x; s[2] = 7 }; return acc`:
    the last iteration reads the element written by the first -/
def exSliceRangeWrite : Stmts :=
  seqS [.define "s" (.e (.mkSlice (.lit 3))), .declare "acc" (.e (.lit 0)),
        .rangeSlice none (some "x") (.var "s")
          (seqS [.assign "acc" (.e (.add (.mul (.var "acc") (.lit 10)) (.var "x"))),
                 .setIdx (.var "s") (.lit 2) (.lit 7)] .nil)]
    (.ret (.var "acc"))

/-- `m := make(…); m[1] = 5; return m[1] + 1` -/
def exGet : Stmts :=
  seqS [.define "m" (.e (.mkMap false)), .mapSet (.var "m") (.lit 1) (.lit 5)]
    (.ret (.add (.mapGet (.var "m") (.lit 1)) (.lit 1)))

/-- `m := make(…); m[1] = 5; v, ok := m[1]; var r uint64 = 0; if ok { r = v }; return r` -/
def exLookupSwap : Stmts :=
  seqS [.define "m" (.e (.mkMap false)), .mapSet (.var "m") (.lit 1) (.lit 5),
        .lookup2 (some "v") (some "ok") (.var "m") (.lit 1), .declare "r" (.e (.lit 0)),
        .ite (.var "ok") (seqS [.assign "r" (.e (.var "v"))] .nil) .nil]
    (.ret (.var "r"))

/-- `m := make(…); m[1] = 5; v, _ := m[1]; return v` -/
def exLookupValue : Stmts :=
  seqS [.define "m" (.e (.mkMap false)), .mapSet (.var "m") (.lit 1) (.lit 5),
        .lookup2 (some "v") none (.var "m") (.lit 1)]
    (.ret (.var "v"))

/-- `var s []uint64 = make([]uint64, 1); s = append(s, 7); return s[1]`  (len = cap: the append must reallocate) -/
def exAppendAssign : Stmts :=
  seqS [.declare "s" (.e (.mkSlice (.lit 1))), .assign "s" (.append (.var "s") (.lit 7))]
    (.ret (.idx (.var "s") (.lit 1)))

/-- `m := make(…); m[1] = 5; var acc uint64 = 0; for k, v := range m { acc = acc + k*3 + v }; return acc` -/
def exIter : Stmts :=
  seqS [.define "m" (.e (.mkMap false)), .mapSet (.var "m") (.lit 1) (.lit 5), .declare "acc" (.e (.lit 0)),
        .rangeMap (some "k") (some "v") (.var "m") (seqS [acc (.add (.mul (.var "k") (.lit 3)) (.var "v"))] .nil)]
    (.ret (.var "acc"))

/-- `x := 1; x = 2; return x`, and the two refusals on the defined map type -/
def exAssignDef : Stmts := seqS [.define "x" (.e (.lit 1)), .assign "x" (.e (.lit 2))] (.ret (.var "x"))
def exSetDefined : Stmts :=
  seqS [.define "m" (.e (.mkMap true)), .mapSet (.var "m") (.lit 1) (.lit 2)] (.ret (.mapGet (.var "m") (.lit 1)))
def exMapKey : Stmts := seqS [.define "m" (.e .mkMapK32)] (.ret (.mapLen (.var "m")))
def exDeleteDefined : Stmts :=
  seqS [.define "m" (.e (.mkMap true)), .delete (.var "m") (.lit 1)] (.ret (.mapLen (.var "m")))

/-- what goose accepts on `M`: `n := make(map…); n[1] = 2; m := M(n); v, ok := m[1]; var acc uint64 = m[1] + len(m);
    for k := range m { acc = acc + k }; if ok { acc = acc + v }; return acc` -/
def exDefinedReads : Stmts :=
  seqS [.define "n" (.e (.mkMap false)), .mapSet (.var "n") (.lit 1) (.lit 2), .define "m" (.e (.asM (.var "n"))),
        .lookup2 (some "v") (some "ok") (.var "m") (.lit 1),
        .declare "acc" (.e (.add (.mapGet (.var "m") (.lit 1)) (.mapLen (.var "m")))),
        .rangeMap (some "k") none (.var "m") (seqS [acc (.var "k")] .nil),
        .ite (.var "ok") (seqS [acc (.var "v")] .nil) .nil]
    (.ret (.var "acc"))

/-- `s := make([]uint64, 2); return s[2]`; `s := make([]uint64, 2, 4); t := s[:5]; return uint64(len(t))` -/
def exOutOfRange : Stmts := seqS [.define "s" (.e (.mkSlice (.lit 2)))] (.ret (.idx (.var "s") (.lit 2)))
def exSliceBeyondCap : Stmts :=
  seqS [.define "s" (.e (.mkSliceCap (.lit 2) (.lit 4))), .define "t" (.e (.take (.var "s") (.lit 5)))]
    (.ret (.len (.var "t")))

/-- a program with everything: aliasing of a map and of a backing array, an append in place and one that grows,
    `copy`, both loops, a nested block that shadows -/
def exAll : Stmts :=
  seqS [.define "m" (.e (.mkMap false)), .declare "n" (.e (.var "m")),
        .mapSet (.var "n") (.lit 3) (.lit 4), .mapSet (.var "m") (.lit 1) (.lit 2),
        .define "s" (.e (.mkSliceCap (.lit 2) (.lit 3))), .setIdx (.var "s") (.lit 1) (.lit 6),
        .declare "t" (.append (.var "s") (.lit 7)),
        .assign "t" (.appendS (.var "t") (.var "s")),
        .define "c" (.copy (.var "s") (.skip (.var "t") (.lit 1))),
        .declare "acc" (.e (.var "c")),
        .rangeMap (some "k") (some "v") (.var "n") (seqS [acc (.add (.mul (.var "k") (.lit 3)) (.var "v"))] .nil),
        .block (seqS [.define "m" (.e (.len (.var "t"))), acc (.var "m")] .nil),
        .rangeSlice (some "i") (some "x") (.var "t")
          (seqS [.assign "acc" (.e (.add (.mul (.var "acc") (.lit 2)) (.add (.var "x") (.var "i"))))] .nil),
        .delete (.var "m") (.lit 3)]
    (.ret (.add (.var "acc") (.add (.mapLen (.var "n")) (.idx (.var "s") (.lit 0)))))

end GooseVerif.Model.Coll
