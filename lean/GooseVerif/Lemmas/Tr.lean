/-
Helper lemmas for C01 (control-flow translation, model: `Model/Tr.lean`).

`Sound u o r` relates the outcome `o` of the Go semantics with the result `r` of evaluating the
translation made for usage `u`.  The main lemma `sound_stmts`/`sound_inBlock` is one mutual
structural induction over `Stmts`/`Stmt`; loops are handled by `loop_sound`, an induction on the
fuel that is independent of the syntax.
-/
import GooseVerif.Model.Tr

namespace GooseVerif.Model.Tr

/-- What the translation for usage `u` must compute when Go's control flow computes `o`. -/
def Sound {σ ν : Type} (u : Usage) (o : Out σ ν) (r : Option (TV ν × σ)) : Prop :=
  match o with
  | .normal s' =>
    (u = .returned → r = some (.unit, s')) ∧
    (u = .loop → r = some (.cont, s')) ∧
    (u = .local → ∃ v, r = some (v, s'))
  | .returned v s' => u = .returned ∧ r = some (.val v, s')
  | .broke s' => u = .loop ∧ r = some (.brk, s')
  | .continued s' => u = .loop ∧ r = some (.cont, s')
  | .fuel => True

/-- A `Local` translation steps to the same state whenever the source terminates normally, and
the source cannot do anything else (except run out of fuel). -/
theorem Sound.local_cases {σ ν : Type} {o : Out σ ν} {r : Option (TV ν × σ)}
    (h : Sound .local o r) : o = .fuel ∨ ∃ s' v, o = .normal s' ∧ r = some (v, s') := by
  cases o with
  | normal s' =>
    obtain ⟨v, hv⟩ := h.2.2 rfl
    exact .inr ⟨s', v, rfl, hv⟩
  | returned v s' => exact absurd h.1 (by decide)
  | broke s' => exact absurd h.1 (by decide)
  | continued s' => exact absurd h.1 (by decide)
  | fuel => exact .inl rfl

/-- The finalizer computes what a normally terminating list must compute. -/
theorem sound_finalizer {σ ν : Type} (I : Interp σ ν) (f : Nat) (u : Usage) (s : σ) :
    Sound u (.normal s : Out σ ν) (evalT I f (finalizer u) s) := by
  cases u <;> simp [Sound, finalizer, evalT]

/-- `b ;; finalizer u` after a binding that behaves like a `Local` one. -/
theorem sound_seq_finalizer {σ ν : Type} (I : Interp σ ν) (f : Nat) (u : Usage) (b : Tgt)
    (o : Out σ ν) (s : σ) (h : Sound .local o (evalT I f b s)) :
    Sound u o (evalT I f (.seq b (finalizer u)) s) := by
  rcases h.local_cases with rfl | ⟨s', v, rfl, hr⟩
  · trivial
  · simp only [evalT, hr]
    exact sound_finalizer I f u s'

/-- `b ;; r` where `b` is a `Local` binding. -/
theorem sound_seq {σ ν : Type} (I : Interp σ ν) (f : Nat) (u : Usage) (b r : Tgt)
    (o : Out σ ν) (rest : σ → Out σ ν) (s : σ)
    (hb : Sound .local o (evalT I f b s))
    (hr : ∀ s', Sound u (rest s') (evalT I f r s')) :
    Sound u (match o with | .normal s' => rest s' | o => o) (evalT I f (.seq b r) s) := by
  rcases hb.local_cases with rfl | ⟨s', v, rfl, hv⟩
  · trivial
  · simp only [evalT, hv]
    exact hr s'

/-- The loop combinators correspond when the bodies do (usage `Loop`). -/
theorem loop_sound {σ ν : Type} (cond : σ → Bool) (bS : Nat → σ → Out σ ν)
    (bT : Nat → σ → Option (TV ν × σ))
    (hb : ∀ f s, Sound .loop (bS f s) (bT f s)) :
    ∀ f s, loopIter cond bS f s = .fuel ∨
      ∃ s', loopIter cond bS f s = .normal s' ∧ loopIterT cond bT f s = some (.unit, s') := by
  intro f
  induction f with
  | zero =>
    intro s
    cases hc : cond s <;> simp [loopIter, loopIterT, hc]
  | succ f ih =>
    intro s
    cases hc : cond s
    · simp [loopIter, loopIterT, hc]
    · have h := hb f s
      simp only [loopIter, loopIterT, hc, if_true]
      cases ho : bS f s with
      | normal s' =>
        rw [ho] at h
        have := h.2.1 rfl
        simp only [this]
        exact ih s'
      | continued s' =>
        rw [ho] at h
        have := h.2
        simp only [this]
        exact ih s'
      | broke s' =>
        rw [ho] at h
        have := h.2
        simp only [this]
        exact .inr ⟨s', rfl, rfl⟩
      | returned v s' =>
        rw [ho] at h
        exact absurd h.1 (by decide)
      | fuel => exact .inl rfl

/-- A `for` loop is sound as a `Local` binding. -/
theorem loop_sound_local {σ ν : Type} (cond : σ → Bool) (bS : Nat → σ → Out σ ν)
    (bT : Nat → σ → Option (TV ν × σ))
    (hb : ∀ f s, Sound .loop (bS f s) (bT f s)) (f : Nat) (s : σ) :
    Sound .local (loopIter cond bS f s) (loopIterT cond bT f s) := by
  rcases loop_sound cond bS bT hb f s with h | ⟨s', h1, h2⟩
  · rw [h]; trivial
  · rw [h1, h2]
    exact ⟨fun h => absurd h (by decide), fun h => absurd h (by decide), fun _ => ⟨_, rfl⟩⟩

/-! ### `endsWithReturn` is semantically right -/

mutual
/-- A list that `endsWithReturn` never terminates normally. -/
theorem ewr_not_normal {σ ν : Type} (I : Interp σ ν) :
    ∀ (ss : Stmts), endsWithReturn ss = true → ∀ f s s', exec I f ss s ≠ .normal s'
  | .nil, h, _, _, _ => by simp [endsWithReturn] at h
  | .cons st rest, h, f, s, s' => by
    cases rest with
    | nil =>
      have hst := ewrStmt_not_normal I st (by simpa [endsWithReturn] using h) f s
      simp only [exec]
      cases ho : execStmt I f st s with
      | normal s'' => exact absurd ho (hst s'')
      | returned v s'' => simp
      | broke s'' => simp
      | continued s'' => simp
      | fuel => simp
    | cons st' rest' =>
      have hrest := ewr_not_normal I (.cons st' rest') (by simpa [endsWithReturn] using h) f
      simp only [exec]
      cases ho : execStmt I f st s with
      | normal s'' => exact hrest s'' s'
      | returned v s'' => simp
      | broke s'' => simp
      | continued s'' => simp
      | fuel => simp
/-- The same for the last statement. -/
theorem ewrStmt_not_normal {σ ν : Type} (I : Interp σ ν) :
    ∀ (st : Stmt), endsWithReturn (.cons st .nil) = true → ∀ f s s', execStmt I f st s ≠ .normal s'
  | .atom _, h, _, _, _ => by simp [endsWithReturn] at h
  | .ret _, _, _, _, _ => by simp [execStmt]
  | .brk, _, _, _, _ => by simp [execStmt]
  | .cont, _, _, _, _ => by simp [execStmt]
  | .loop _ _, h, _, _, _ => by simp [endsWithReturn] at h
  | .block _, h, _, _, _ => by simp [endsWithReturn] at h
  | .ite c thn els, h, f, s, s' => by
    have h' : endsWithReturn thn = true ∧ endsWithReturn els = true := by
      simpa [endsWithReturn] using h
    simp only [execStmt]
    cases I.cond c s
    · simpa using ewr_not_normal I els h'.2 f s s'
    · simpa using ewr_not_normal I thn h'.1 f s s'
end

/-! ### The translator -/

/-- `ifStmt` is sound, given sound translations of the three sub-lists.  `thnS`/`elsS`/`remS`
are the source semantics of the then-branch, the else-branch and the remainder. -/
theorem sound_trIf {σ ν : Type} (I : Interp σ ν) (f : Nat) (c : Nat)
    (remEmpty thnEnds elsEmpty : Bool) (u : Usage)
    (thnT elsT remT : Usage → Except String Tgt) (thnS elsS remS : σ → Out σ ν)
    (hthn : ∀ u' t, thnT u' = .ok t → ∀ s, Sound u' (thnS s) (evalT I f t s))
    (hels : ∀ u' t, elsT u' = .ok t → ∀ s, Sound u' (elsS s) (evalT I f t s))
    (hrem : ∀ u' t, remT u' = .ok t → ∀ s, Sound u' (remS s) (evalT I f t s))
    (hremEmpty : remEmpty = true → ∀ s, remS s = .normal s)
    (hends : thnEnds = true → ∀ s s', thnS s ≠ .normal s')
    (helsEmpty : elsEmpty = true → ∀ s, elsS s = .normal s)
    (t : Tgt) (h : trIf c remEmpty thnEnds elsEmpty u thnT elsT remT = .ok t) (s : σ) :
    Sound u (match (if I.cond c s then thnS s else elsS s) with
             | .normal s' => remS s'
             | o => o) (evalT I f t s) := by
  unfold trIf at h
  split at h
  · -- no code after the conditional
    rename_i hre
    split at h
    · cases h
    · rename_i a ha
      split at h
      · cases h
      · rename_i b hb
        cases h
        have h1 := hthn u a ha s
        have h2 := hels u b hb s
        simp only [evalT]
        cases I.cond c s
        · simp only [Bool.false_eq_true, if_false]
          cases ho : elsS s <;> rw [ho] at h2 <;> simp only [hremEmpty hre] <;> exact h2
        · simp only [if_true]
          cases ho : thnS s <;> rw [ho] at h1 <;> simp only [hremEmpty hre] <;> exact h1
  · split at h
    · -- the then-branch always leaves: the remainder goes into the else-branch
      rename_i hte
      split at h
      · cases h
      · rename_i a ha
        split at h
        · rename_i hee
          split at h
          · cases h
          · rename_i r hr
            cases h
            have h1 := hthn u a ha s
            have h2 := hrem u r hr s
            simp only [evalT]
            cases I.cond c s
            · simp only [Bool.false_eq_true, if_false, helsEmpty hee s]
              exact h2
            · simp only [if_true]
              have hn := hends hte s
              cases ho : thnS s with
              | normal s' => exact absurd ho (hn s')
              | returned v s' => rw [ho] at h1; exact h1
              | broke s' => rw [ho] at h1; exact h1
              | continued s' => rw [ho] at h1; exact h1
              | fuel => trivial
        · cases h
    · -- a conditional in the middle of a block
      split at h
      · cases h
      · rename_i a ha
        split at h
        · cases h
        · rename_i b hb
          split at h
          · cases h
          · rename_i r hr
            cases h
            apply sound_seq I f u (.ite c a b) r _ remS s _ (hrem u r hr)
            simp only [evalT]
            cases I.cond c s
            · simp only [Bool.false_eq_true, if_false]
              exact hels .local b hb s
            · simp only [if_true]
              exact hthn .local a ha s

/-- Unfolding of `stmts` on a list that does not start with an `if`. -/
theorem trStmtsWith_cons_nonIte (ewr : Stmts → Bool) (st : Stmt) (rest : Stmts) (u : Usage)
    (h : st.isIte = false) :
    trStmtsWith ewr (.cons st rest) u =
      if rest.isNil then
        match trInBlockWith ewr st u with
        | .error e => .error e
        | .ok (b, fin) => .ok (if fin then b else .seq b (finalizer u))
      else
        match trInBlockWith ewr st .local with
        | .error e => .error e
        | .ok (b, _) =>
          match trStmtsWith ewr rest u with
          | .error e => .error e
          | .ok r => .ok (.seq b r) := by
  cases st <;> first | rfl | (simp [Stmt.isIte] at h)

theorem Stmts.eq_nil_of_isNil {ss : Stmts} (h : ss.isNil = true) : ss = .nil := by
  cases ss with
  | nil => rfl
  | cons _ _ => simp [Stmts.isNil] at h

mutual
/-- Soundness of `stmts` for any `ewr` that is semantically an "always leaves" test. -/
theorem sound_stmts {σ ν : Type} (I : Interp σ ν) (ewr : Stmts → Bool)
    (hewr : ∀ ss, ewr ss = true → ∀ f s s', exec I f ss s ≠ .normal s') :
    ∀ (ss : Stmts) (u : Usage) (t : Tgt), trStmtsWith ewr ss u = .ok t →
      ∀ f s, Sound u (exec I f ss s) (evalT I f t s)
  | .nil, u, t, h, f, s => by
    simp only [trStmtsWith] at h
    cases h
    exact sound_finalizer I f u s
  | .cons st rest, u, t, h, f, s => by
    cases hst : st.isIte
    · rw [trStmtsWith_cons_nonIte ewr st rest u hst] at h
      have ih1 := sound_inBlock I ewr hewr st
      have ih2 := sound_stmts I ewr hewr rest
      split at h
      · -- the last statement
        rename_i hnil
        have := Stmts.eq_nil_of_isNil hnil
        subst this
        split at h
        · cases h
        · rename_i b fin hb
          cases h
          have h1 := ih1 u b fin hb f s
          simp only [exec]
          cases fin
          · simp only [Bool.false_eq_true, if_false] at h1 ⊢
            have h2 := sound_seq_finalizer I f u b _ s h1
            cases ho : execStmt I f st s <;> rw [ho] at h2 <;> exact h2
          · simp only [if_true] at h1 ⊢
            cases ho : execStmt I f st s <;> rw [ho] at h1 <;> exact h1
      · split at h
        · cases h
        · rename_i b fin hb
          split at h
          · cases h
          · rename_i r hr
            cases h
            have h1 := ih1 .local b fin hb f s
            have h1' : Sound .local (execStmt I f st s) (evalT I f b s) := by
              cases fin <;> simpa using h1
            simp only [exec]
            exact sound_seq I f u b r _ (exec I f rest) s h1' (ih2 u r hr f)
    · cases st with
      | ite c thn els =>
        simp only [trStmtsWith] at h
        simp only [exec, execStmt]
        refine sound_trIf I f c rest.isNil (ewr thn) els.isNil u _ _ _
          (exec I f thn) (exec I f els) (exec I f rest)
          (fun u' t' h' s' => sound_stmts I ewr hewr thn u' t' h' f s')
          (fun u' t' h' s' => sound_stmts I ewr hewr els u' t' h' f s')
          (fun u' t' h' s' => sound_stmts I ewr hewr rest u' t' h' f s')
          ?_ (fun h' s' s'' => hewr thn h' f s' s'') ?_ t h s
        · intro hn s'
          rw [Stmts.eq_nil_of_isNil hn]
          rfl
        · intro hn s'
          rw [Stmts.eq_nil_of_isNil hn]
          rfl
      | _ => simp [Stmt.isIte] at hst
/-- Soundness of `stmtInBlock`: a non-finalized binding behaves like a `Local` one. -/
theorem sound_inBlock {σ ν : Type} (I : Interp σ ν) (ewr : Stmts → Bool)
    (hewr : ∀ ss, ewr ss = true → ∀ f s s', exec I f ss s ≠ .normal s') :
    ∀ (st : Stmt) (u : Usage) (t : Tgt) (fin : Bool), trInBlockWith ewr st u = .ok (t, fin) →
      ∀ f s, Sound (if fin = true then u else .local) (execStmt I f st s) (evalT I f t s)
  | .atom k, u, t, fin, h, f, s => by
    simp only [trInBlockWith, Except.ok.injEq, Prod.mk.injEq] at h
    obtain ⟨rfl, rfl⟩ := h
    cases u <;> simp [Sound, execStmt, evalT]
  | .ret e, u, t, fin, h, f, s => by
    cases u <;> simp only [trInBlockWith, Except.ok.injEq, Prod.mk.injEq, reduceCtorEq] at h
    obtain ⟨rfl, rfl⟩ := h
    simp [Sound, execStmt, evalT]
  | .brk, u, t, fin, h, f, s => by
    cases u <;> simp only [trInBlockWith, Except.ok.injEq, Prod.mk.injEq, reduceCtorEq] at h
    obtain ⟨rfl, rfl⟩ := h
    simp [Sound, execStmt, evalT]
  | .cont, u, t, fin, h, f, s => by
    cases u <;> simp only [trInBlockWith, Except.ok.injEq, Prod.mk.injEq, reduceCtorEq] at h
    obtain ⟨rfl, rfl⟩ := h
    simp [Sound, execStmt, evalT]
  | .block b, u, t, fin, h, f, s => by
    simp only [trInBlockWith] at h
    split at h
    · cases h
    · rename_i t' ht'
      simp only [Except.ok.injEq, Prod.mk.injEq] at h
      obtain ⟨rfl, rfl⟩ := h
      simp only [if_true, execStmt]
      exact sound_stmts I ewr hewr b u t' ht' f s
  | .loop c body, u, t, fin, h, f, s => by
    simp only [trInBlockWith] at h
    split at h
    · cases h
    · rename_i t' ht'
      simp only [Except.ok.injEq, Prod.mk.injEq] at h
      obtain ⟨rfl, rfl⟩ := h
      have hl : Sound .local (execStmt I f (.loop c body) s) (evalT I f (.loop c t') s) := by
        simp only [execStmt, evalT]
        exact loop_sound_local (I.cond c) _ _
          (fun f' s' => sound_stmts I ewr hewr body .loop t' ht' f' s') f s
      cases u <;> simpa using hl
  | .ite c thn els, u, t, fin, h, f, s => by
    simp only [trInBlockWith] at h
    split at h
    · cases h
    · rename_i t' ht'
      simp only [Except.ok.injEq, Prod.mk.injEq] at h
      obtain ⟨rfl, rfl⟩ := h
      simp only [if_true, execStmt]
      have := sound_trIf I f c true (ewr thn) els.isNil u _ _ _
          (exec I f thn) (exec I f els) (fun s' => .normal s')
          (fun u' t' h' s' => sound_stmts I ewr hewr thn u' t' h' f s')
          (fun u' t' h' s' => sound_stmts I ewr hewr els u' t' h' f s')
          (fun u' t' h' s' => by cases h'; exact sound_finalizer I f u' s')
          (fun _ _ => rfl) (fun h' s' s'' => hewr thn h' f s' s'')
          (fun hn s' => by rw [Stmts.eq_nil_of_isNil hn]; rfl) t' ht' s
      cases ho : (if I.cond c s = true then exec I f thn s else exec I f els s) <;>
        rw [ho] at this <;> exact this
end

/-- Soundness of the translator of goose. -/
theorem trStmts_sound {σ ν : Type} (I : Interp σ ν) (ss : Stmts) (u : Usage) (t : Tgt)
    (h : trStmts ss u = .ok t) (f : Nat) (s : σ) :
    Sound u (exec I f ss s) (evalT I f t s) :=
  sound_stmts I endsWithReturn (fun ss h f s s' => ewr_not_normal I ss h f s s') ss u t h f s

end GooseVerif.Model.Tr
