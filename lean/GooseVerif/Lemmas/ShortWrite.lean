import GooseVerif.Model.ShortWrite

namespace GooseVerif.Model.ShortWrite

theorem partial_step (f : File) (v : List Byte) (off n k : Nat) (cur : File)
    (h : Partial f v off n cur) : Partial f v off (n + k) (pwriteAt cur v off n k) := by
  intro i
  unfold pwriteAt
  rw [h i]
  by_cases h1 : off + n ≤ i ∧ i < off + n + k
  · have : off ≤ i ∧ i < off + (n + k) := by omega
    simp [h1, this]
  · by_cases h2 : off ≤ i ∧ i < off + n
    · have : off ≤ i ∧ i < off + (n + k) := by omega
      simp [h1, h2, this]
    · have : ¬ (off ≤ i ∧ i < off + (n + k)) := by omega
      simp [h1, h2, this]

theorem partial_zero (f : File) (v : List Byte) (off : Nat) : Partial f v off 0 f := by
  intro i
  rw [if_neg (by omega)]

theorem loop_inv (v : List Byte) (off : Nat) (f : File) (as : List Ans) :
    ∀ (cur : File) (n : Nat), n ≤ v.length → Partial f v off n cur → ∀ out, writeLoop v off cur n as = some out →
      (∃ m, m ≤ v.length ∧ Partial f v off m out.file) ∧ (∀ g, out = .ok g → Partial f v off v.length g) := by
  induction as with
  | nil =>
    intro cur n hn hp out h
    unfold writeLoop at h
    by_cases hd : v.length ≤ n
    · simp [hd] at h; subst h
      have : n = v.length := by omega
      subst this
      exact ⟨⟨_, hn, hp⟩, fun g hg => by cases hg; exact hp⟩
    · simp [hd] at h
  | cons a rest ih =>
    intro cur n hn hp out h
    unfold writeLoop at h
    by_cases hd : v.length ≤ n
    · simp [hd] at h; subst h
      have : n = v.length := by omega
      subst this
      exact ⟨⟨_, hn, hp⟩, fun g hg => by cases hg; exact hp⟩
    · simp only [hd, if_false] at h
      cases a with
      | err =>
        simp at h; subst h
        exact ⟨⟨n, hn, hp⟩, fun g hg => by cases hg⟩
      | wrote k =>
        simp only at h
        by_cases hk : min k (v.length - n) = 0
        · simp [hk] at h; subst h
          exact ⟨⟨n, hn, hp⟩, fun g hg => by cases hg⟩
        · simp only [hk, if_false] at h
          exact ih _ _ (by omega) (partial_step f v off n _ cur hp) out h

/-- Progress: a kernel that never fails and always transfers at least one byte lets the loop finish within `len(v)` calls. -/
theorem loop_progress (v : List Byte) (off : Nat) (as : List Ans) :
    ∀ (cur : File) (n : Nat), (∀ a ∈ as, ∃ k, a = .wrote k ∧ 0 < k) → v.length ≤ n + as.length →
      ∃ g, writeLoop v off cur n as = some (.ok g) := by
  induction as with
  | nil =>
    intro cur n _ hl
    unfold writeLoop
    have : v.length ≤ n := by simpa using hl
    simp [this]
  | cons a rest ih =>
    intro cur n hall hl
    unfold writeLoop
    by_cases hd : v.length ≤ n
    · simp [hd]
    · simp only [hd, if_false]
      obtain ⟨k, rfl, hk⟩ := hall a (by simp)
      have hk' : ¬ (min k (v.length - n) = 0) := by omega
      simp only [hk', if_false]
      exact ih _ _ (fun a ha => hall a (by simp [ha])) (by simp at hl; omega)

/-- A failure — an error, or a transfer of zero bytes — that arrives before the block is complete ends the loop in a panic. -/
theorem loop_failure_surfaces (v : List Byte) (off : Nat) (bad : Ans) (rest : List Ans)
    (hbad : bad = .err ∨ bad = .wrote 0) (pre : List Ans) :
    ∀ (cur : File) (n : Nat), (∀ a ∈ pre, ∃ k, a = .wrote k ∧ 0 < k) → n + (pre.map Ans.count).sum < v.length →
      ∃ g, writeLoop v off cur n (pre ++ bad :: rest) = some (.panic g) := by
  induction pre with
  | nil =>
    intro cur n _ hs
    simp at hs
    unfold writeLoop
    have hd : ¬ v.length ≤ n := by omega
    rcases hbad with rfl | rfl
    · simp [hd]
    · simp [hd]
  | cons a pre ih =>
    intro cur n hall hs
    obtain ⟨k, rfl, hk⟩ := hall a (by simp)
    simp [Ans.count] at hs
    have hd : ¬ v.length ≤ n := by omega
    have hk' : ¬ (min k (v.length - n) = 0) := by omega
    have hmin : min k (v.length - n) = k := by omega
    show ∃ g, writeLoop v off cur n (Ans.wrote k :: (pre ++ bad :: rest)) = some (.panic g)
    unfold writeLoop
    simp only [hd, if_false, hk']
    rw [hmin]
    exact ih _ _ (fun a ha => hall a (by simp [ha])) (by omega)

/-! read loop -/

theorem partialR_zero (buf0 f : File) (off : Nat) : PartialR buf0 f off 0 buf0 := by
  intro j
  rw [if_neg (by omega)]

theorem partialR_step (buf0 f : File) (off n k : Nat) (cur : File)
    (h : PartialR buf0 f off n cur) : PartialR buf0 f off (n + k) (preadAt cur f off n k) := by
  intro j
  unfold preadAt
  rw [h j]
  by_cases h1 : n ≤ j ∧ j < n + k
  · have : j < n + k := by omega
    simp [h1, this]
  · by_cases h2 : j < n
    · have : j < n + k := by omega
      simp [h1, h2, this]
    · have : ¬ (j < n + k) := by omega
      simp [h1, h2, this]

theorem read_inv (len off : Nat) (f buf0 : File) (as : List Ans) :
    ∀ (cur : File) (n : Nat), n ≤ len → PartialR buf0 f off n cur → ∀ out, readLoop len off f cur n as = some out →
      (∃ m, m ≤ len ∧ PartialR buf0 f off m out.file) ∧ (∀ g, out = .ok g → PartialR buf0 f off len g) := by
  induction as with
  | nil =>
    intro cur n hn hp out h
    unfold readLoop at h
    by_cases hd : len ≤ n
    · simp [hd] at h; subst h
      have : n = len := by omega
      subst this
      exact ⟨⟨_, hn, hp⟩, fun g hg => by cases hg; exact hp⟩
    · simp [hd] at h
  | cons a rest ih =>
    intro cur n hn hp out h
    unfold readLoop at h
    by_cases hd : len ≤ n
    · simp [hd] at h; subst h
      have : n = len := by omega
      subst this
      exact ⟨⟨_, hn, hp⟩, fun g hg => by cases hg; exact hp⟩
    · simp only [hd, if_false] at h
      cases a with
      | err =>
        simp at h; subst h
        exact ⟨⟨n, hn, hp⟩, fun g hg => by cases hg⟩
      | wrote k =>
        simp only at h
        by_cases hk : min k (len - n) = 0
        · simp [hk] at h; subst h
          exact ⟨⟨n, hn, hp⟩, fun g hg => by cases hg⟩
        · simp only [hk, if_false] at h
          exact ih _ _ (by omega) (partialR_step buf0 f off n _ cur hp) out h

end GooseVerif.Model.ShortWrite
