/-
Helper lemmas for `Model/Conc.lean`, part 4: from threads to thread pools, and from steps to schedules.

`CRel c d`: the same heap, threads pairwise related (`TRel`), thread 0 of the Go side is the main thread.
-/
import GooseVerif.Lemmas.ConcSim

namespace GooseVerif.Model.Conc
open GooseVerif.Model.Core (W BinOp CmpOp Exp Cond look)

/-! ### `poolStep` -/

section pool
variable {α : Type} {stepT : Heap → Nat → Nat → α → Res α} {doneV : α → Option W}

/-- The configuration after thread `i` has moved. -/
def Cfg.after (c : Cfg α) (i : Nat) (h : Heap) (t' : α) (sp : Option α) : Cfg α :=
  { heap := h, threads := (c.threads.set i t') ++ sp.toList }

theorem poolStep_eq {c : Cfg α} {lab : Label} {t : α} (hm : mainDone doneV c = none) (ht : c.threads[lab.1]? = some t) :
    poolStep stepT doneV c lab =
      match stepT c.heap lab.1 lab.2 t with
      | .ok h t' sp => .ok (c.after lab.1 h t' sp)
      | .blocked => .blocked
      | .stuck => .stuck := by
  unfold poolStep
  rw [hm]; simp only [ht]
  rfl

theorem poolStep_ok_inv {c c' : Cfg α} {lab : Label} (h : poolStep stepT doneV c lab = .ok c') :
    mainDone doneV c = none ∧ ∃ t hp t' sp, c.threads[lab.1]? = some t ∧ stepT c.heap lab.1 lab.2 t = .ok hp t' sp ∧
      c' = c.after lab.1 hp t' sp := by
  unfold poolStep at h
  cases hm : mainDone doneV c with
  | some v => simp [hm] at h
  | none =>
    simp only [hm] at h
    cases ht : c.threads[lab.1]? with
    | none => simp [ht] at h
    | some t =>
      simp only [ht] at h
      cases hs : stepT c.heap lab.1 lab.2 t with
      | ok hp t' sp => simp only [hs] at h; cases h; exact ⟨rfl, t, hp, t', sp, rfl, hs, rfl⟩
      | blocked => simp [hs] at h
      | stuck => simp [hs] at h

theorem poolStep_stuck_inv {c : Cfg α} {lab : Label} (h : poolStep stepT doneV c lab = .stuck) :
    mainDone doneV c = none ∧ ∃ t, c.threads[lab.1]? = some t ∧ stepT c.heap lab.1 lab.2 t = .stuck := by
  unfold poolStep at h
  cases hm : mainDone doneV c with
  | some v => simp [hm] at h
  | none =>
    simp only [hm] at h
    cases ht : c.threads[lab.1]? with
    | none => simp [ht] at h
    | some t =>
      simp only [ht] at h
      cases hs : stepT c.heap lab.1 lab.2 t with
      | ok hp t' sp => simp [hs] at h
      | blocked => simp [hs] at h
      | stuck => exact ⟨rfl, t, rfl, hs⟩

theorem poolRun_append {c c' c'' : Cfg α} {s1 s2 : List Label} (h1 : poolRun stepT doneV c s1 = some c')
    (h2 : poolRun stepT doneV c' s2 = some c'') : poolRun stepT doneV c (s1 ++ s2) = some c'' := by
  induction s1 generalizing c with
  | nil => simp [poolRun] at h1; subst h1; exact h2
  | cons lab r ih =>
    simp only [poolRun, List.cons_append] at h1 ⊢
    cases hs : poolStep stepT doneV c lab with
    | ok c1 => simp only [hs] at h1 ⊢; exact ih h1
    | blocked => simp [hs] at h1
    | stuck => simp [hs] at h1

theorem poolRun_one {c c' : Cfg α} {lab : Label} (h : poolStep stepT doneV c lab = .ok c') :
    poolRun stepT doneV c [lab] = some c' := by
  simp [poolRun, h]

theorem poolRun_snoc {c c' c'' : Cfg α} {s : List Label} {lab : Label} (h1 : poolRun stepT doneV c s = some c')
    (h2 : poolStep stepT doneV c' lab = .ok c'') : poolRun stepT doneV c (s ++ [lab]) = some c'' :=
  poolRun_append h1 (poolRun_one h2)

/-- Induction over a schedule from its end. -/
theorem poolRun_snoc_inv {c c'' : Cfg α} {s : List Label} {lab : Label}
    (h : poolRun stepT doneV c (s ++ [lab]) = some c'') :
    ∃ c', poolRun stepT doneV c s = some c' ∧ poolStep stepT doneV c' lab = .ok c'' := by
  induction s generalizing c with
  | nil =>
    simp only [List.nil_append, poolRun] at h
    cases hs : poolStep stepT doneV c lab with
    | ok c1 => simp only [hs] at h; cases h; exact ⟨c, rfl, hs⟩
    | blocked => simp [hs] at h
    | stuck => simp [hs] at h
  | cons l r ih =>
    simp only [List.cons_append, poolRun] at h ⊢
    cases hs : poolStep stepT doneV c l with
    | ok c1 => simp only [hs] at h ⊢; exact ih h
    | blocked => simp [hs] at h
    | stuck => simp [hs] at h

end pool

/-! ### the relation on configurations -/

def ThreadsRel (ss : List Thread) (ts : List TThread) : Prop :=
  ss.length = ts.length ∧ ∀ (i : Nat) (s : Thread) (t : TThread), ss[i]? = some s → ts[i]? = some t → TRel s t

/-- Thread 0 of the Go side is the main thread (the one whose body is followed by `return e`). -/
def MainOK (c : GCfg) : Prop := ∃ t, c.threads[0]? = some t ∧ t.ret.isSome = true

def CRel (c : GCfg) (d : TCfg) : Prop := c.heap = d.heap ∧ ThreadsRel c.threads d.threads ∧ MainOK c

theorem ThreadsRel.get {ss : List Thread} {ts : List TThread} (h : ThreadsRel ss ts) {i : Nat} {s : Thread}
    (hs : ss[i]? = some s) : ∃ t, ts[i]? = some t ∧ TRel s t := by
  have hi : i < ts.length := by
    rw [← h.1]
    rcases Nat.lt_or_ge i ss.length with hlt | hge
    · exact hlt
    · rw [List.getElem?_eq_none hge] at hs; cases hs
  exact ⟨ts[i], List.getElem?_eq_getElem hi, h.2 i s _ hs (List.getElem?_eq_getElem hi)⟩

theorem ThreadsRel.get' {ss : List Thread} {ts : List TThread} (h : ThreadsRel ss ts) {i : Nat} {t : TThread}
    (ht : ts[i]? = some t) : ∃ s, ss[i]? = some s ∧ TRel s t := by
  have hi : i < ss.length := by
    rw [h.1]
    rcases Nat.lt_or_ge i ts.length with hlt | hge
    · exact hlt
    · rw [List.getElem?_eq_none hge] at ht; cases ht
  exact ⟨ss[i], List.getElem?_eq_getElem hi, h.2 i _ t (List.getElem?_eq_getElem hi) ht⟩

theorem ThreadsRel.none {ss : List Thread} {ts : List TThread} (h : ThreadsRel ss ts) {i : Nat}
    (hs : ss[i]? = none) : ts[i]? = none := by
  cases ht : ts[i]? with
  | none => rfl
  | some t => obtain ⟨s, h1, _⟩ := h.get' ht; rw [hs] at h1; cases h1

theorem ThreadsRel.set {ss : List Thread} {ts : List TThread} (h : ThreadsRel ss ts) (i : Nat) {s : Thread} {t : TThread}
    (hst : TRel s t) : ThreadsRel (ss.set i s) (ts.set i t) := by
  refine ⟨by simp [h.1], ?_⟩
  intro j s' t' hs ht
  rw [List.getElem?_set] at hs ht
  by_cases hij : i = j
  · simp only [hij, if_true] at hs ht
    split at hs
    · split at ht
      · cases hs; cases ht; exact hst
      · cases ht
    · cases hs
  · simp only [hij, if_false] at hs ht
    exact h.2 j s' t' hs ht

theorem ThreadsRel.append {ss : List Thread} {ts : List TThread} (h : ThreadsRel ss ts) {sp : Option Thread}
    {sp' : Option TThread} (hsp : SpRel sp sp') :
    ThreadsRel (ss ++ sp.toList) (ts ++ sp'.toList) := by
  cases sp with
  | none =>
    cases sp' with
    | none => simpa using h
    | some _ => cases hsp
  | some s =>
    cases sp' with
    | none => cases hsp
    | some t =>
      refine ⟨by simp [h.1], ?_⟩
      intro j s' t' hs ht
      rw [List.getElem?_append] at hs ht
      by_cases hj : j < ss.length
      · have hj' : j < ts.length := h.1 ▸ hj
        simp only [hj, hj', if_true] at hs ht
        exact h.2 j s' t' hs ht
      · have hj' : ¬ j < ts.length := h.1 ▸ hj
        simp only [hj, hj', if_false] at hs ht
        rw [h.1] at hs
        simp only [Option.toList, List.getElem?_singleton] at hs ht
        by_cases h0 : j - ts.length = 0
        · simp only [h0, if_true] at hs ht
          cases hs; cases ht; exact hsp
        · simp [h0] at hs

theorem crel_mainDone {c : GCfg} {d : TCfg} (h : CRel c d) : mainDone TThread.doneV d = mainDone Thread.doneV c := by
  obtain ⟨_, hth, t0, ht0, hret⟩ := h
  obtain ⟨t, ht, hrel⟩ := hth.get ht0
  simp only [mainDone, ht0, ht]
  exact trel_doneV hrel hret

/-! ### Go's steps keep `ret` (thread 0 stays the main thread) -/

theorem gstepStmt_ret {h h' : Heap} {i ch : Nat} {t t' : Thread} {rest : Stmts} {s : Stmt} {sp : Option Thread}
    (hs : gstepStmt h i ch t rest s = .ok h' t' sp) : t'.ret = t.ret := by
  cases s <;> simp only [gstepStmt] at hs <;> (repeat' split at hs) <;>
    first
    | (cases hs; rfl)
    | cases hs

theorem gstep_ret {h h' : Heap} {i ch : Nat} {t t' : Thread} {sp : Option Thread}
    (hs : gstep h i ch t = .ok h' t' sp) : t'.ret = t.ret := by
  unfold gstep at hs
  split at hs
  · cases hs
  · (repeat' split at hs) <;> first | (cases hs; rfl) | cases hs
  · (repeat' split at hs) <;> first | (cases hs; rfl) | cases hs
  · split at hs
    · exact gstepStmt_ret hs
    · (repeat' split at hs) <;> first | (cases hs; rfl) | cases hs

theorem mainOK_after {c : GCfg} {i : Nat} {t t' : Thread} {hp : Heap} {sp : Option Thread} (hm : MainOK c)
    (ht : c.threads[i]? = some t) (hret : t'.ret = t.ret) : MainOK (c.after i hp t' sp) := by
  obtain ⟨t0, ht0, hr⟩ := hm
  have hlen : 0 < c.threads.length := by
    rcases Nat.lt_or_ge 0 c.threads.length with hlt | hge
    · exact hlt
    · rw [List.getElem?_eq_none hge] at ht0; cases ht0
  by_cases hi : i = 0
  · subst hi
    rw [ht0] at ht; cases ht
    refine ⟨t', ?_, hret ▸ hr⟩
    simp only [Cfg.after]
    rw [List.getElem?_append_left (by simpa using hlen), List.getElem?_set_self hlen]
  · refine ⟨t0, ?_, hr⟩
    simp only [Cfg.after]
    rw [List.getElem?_append_left (by simpa using hlen), List.getElem?_set_ne hi, ht0]

/-! ### administrative steps at the pool level -/

theorem crel_admin {c : GCfg} {d : TCfg} {i : Nat} {t t' : TThread} (h : CRel c d) (ht : d.threads[i]? = some t)
    (hs : astep t = some t') : CRel c (d.after i d.heap t' none) := by
  obtain ⟨hh, hth, hm⟩ := h
  obtain ⟨s, hs', hrel⟩ := hth.get' ht
  refine ⟨hh, ?_, hm⟩
  have := hth.set i (s := s) (trel_admin hrel hs)
  have hself : c.threads.set i s = c.threads := by
    obtain ⟨hi, hget⟩ := List.getElem?_eq_some_iff.1 hs'
    rw [← hget]; exact List.set_getElem_self hi
  rw [hself] at this
  simpa [Cfg.after] using this

/-- The administrative steps `t ⇝* E` of thread `i`, as a schedule of the pool. -/
theorem admin_run {c : GCfg} {t E : TThread} (hs : AStar t E) : ∀ {d : TCfg} {i : Nat} (ch : Nat), CRel c d →
    mainDone Thread.doneV c = none → d.threads[i]? = some t →
    ∃ n d', trun .strict d (List.replicate n (i, ch)) = some d' ∧ CRel c d' ∧ d'.threads[i]? = some E := by
  induction hs with
  | refl t => intro d i ch h _ ht; exact ⟨0, d, rfl, h, ht⟩
  | @step t t' t'' hst _ ih =>
    intro d i ch h hm ht
    have hmd : mainDone TThread.doneV d = none := by rw [crel_mainDone h]; exact hm
    have hstep : tcstep .strict d (i, ch) = .ok (d.after i d.heap t' none) := by
      unfold tcstep
      rw [poolStep_eq hmd (lab := (i, ch)) ht]
      simp [tstep, hst]
    have hrel := crel_admin h ht hst
    have hi : i < d.threads.length := by
      rcases Nat.lt_or_ge i d.threads.length with hlt | hge
      · exact hlt
      · rw [List.getElem?_eq_none hge] at ht; cases ht
    have ht' : (d.after i d.heap t' none).threads[i]? = some t' := by
      simp [Cfg.after, List.getElem?_set_self hi]
    obtain ⟨n, d', hrun, hrel', hE⟩ := ih ch hrel hm ht'
    refine ⟨n + 1, d', ?_, hrel', hE⟩
    show trun .strict d ((i, ch) :: List.replicate n (i, ch)) = some d'
    unfold trun poolRun
    unfold tcstep at hstep
    rw [hstep]
    exact hrun

/-! ### forward and backward simulation of one step -/

/-- **Forward.**  A step of Go thread `i` is matched by administrative steps of GooseLang thread `i` followed
by one effect step of that thread. -/
theorem crel_forward {c c' : GCfg} {d : TCfg} {lab : Label} (h : CRel c d) (hs : gcstep c lab = .ok c') :
    ∃ n d', trun .strict d (List.replicate (n + 1) lab) = some d' ∧ CRel c' d' := by
  obtain ⟨hm, s, hp, s', sp, hsi, hstep, rfl⟩ := poolStep_ok_inv hs
  obtain ⟨t, hti, hrel⟩ := h.2.1.get hsi
  obtain ⟨E, hE, hEn⟩ := trel_reach hrel
  obtain ⟨n, d1, hrun, hrel1, hE1⟩ := admin_run hE (i := lab.1) lab.2 h hm hti
  obtain ⟨hh1, hth1, hm1⟩ := hrel1
  obtain ⟨s1, hs1, hrelE⟩ := hth1.get' hE1
  rw [hsi] at hs1; cases hs1
  have hsim := trel_normal hrelE hEn c.heap lab.1 lab.2
  rw [hstep] at hsim
  have hmd1 : mainDone TThread.doneV d1 = none := by rw [crel_mainDone ⟨hh1, hth1, hm1⟩]; exact hm
  cases hest : estep .strict c.heap lab.1 lab.2 E with
  | blocked => rw [hest] at hsim; cases hsim
  | stuck => rw [hest] at hsim; cases hsim
  | ok hp' t' sp' =>
    rw [hest] at hsim
    cases hsim with
    | ok hrel' hsp =>
      have hstep1 : tcstep .strict d1 lab = .ok (d1.after lab.1 hp t' sp') := by
        unfold tcstep
        rw [poolStep_eq hmd1 hE1]
        simp only [tstep, hEn, ← hh1, hest]
      refine ⟨n, d1.after lab.1 hp t' sp', ?_, rfl, ?_, mainOK_after h.2.2 hsi (gstep_ret hstep)⟩
      · have : List.replicate (n + 1) lab = List.replicate n lab ++ [lab] := by
          simp [List.replicate_succ']
        rw [this]
        exact poolRun_snoc hrun hstep1
      · exact (hth1.set lab.1 hrel').append hsp

/-- A fatal step of Go thread `i` is matched by administrative steps of GooseLang thread `i` after which that
thread is stuck. -/
theorem crel_forward_stuck {c : GCfg} {d : TCfg} {lab : Label} (h : CRel c d) (hs : gcstep c lab = .stuck) :
    ∃ n d', trun .strict d (List.replicate n lab) = some d' ∧ CRel c d' ∧ tcstep .strict d' lab = .stuck := by
  obtain ⟨hm, s, hsi, hstep⟩ := poolStep_stuck_inv hs
  obtain ⟨t, hti, hrel⟩ := h.2.1.get hsi
  obtain ⟨E, hE, hEn⟩ := trel_reach hrel
  obtain ⟨n, d1, hrun, hrel1, hE1⟩ := admin_run hE (i := lab.1) lab.2 h hm hti
  obtain ⟨hh1, hth1, hm1⟩ := hrel1
  obtain ⟨s1, hs1, hrelE⟩ := hth1.get' hE1
  rw [hsi] at hs1; cases hs1
  have hsim := trel_normal hrelE hEn c.heap lab.1 lab.2
  rw [hstep] at hsim
  have hmd1 : mainDone TThread.doneV d1 = none := by rw [crel_mainDone ⟨hh1, hth1, hm1⟩]; exact hm
  refine ⟨n, d1, hrun, ⟨hh1, hth1, hm1⟩, ?_⟩
  unfold tcstep
  rw [poolStep_eq hmd1 hE1]
  simp only [tstep, hEn, ← hh1]
  cases hest : estep .strict c.heap lab.1 lab.2 E with
  | blocked => rw [hest] at hsim; cases hsim
  | stuck => rfl
  | ok _ _ _ => rw [hest] at hsim; cases hsim

/-- **Backward.**  A step of the GooseLang pool is an administrative step (the Go side does not move) or is
matched by the same step of the Go pool. -/
theorem crel_backward {c : GCfg} {d d' : TCfg} {lab : Label} (h : CRel c d) (hs : tcstep .strict d lab = .ok d') :
    CRel c d' ∨ ∃ c', gcstep c lab = .ok c' ∧ CRel c' d' := by
  obtain ⟨hmd, t, hp, t', sp', hti, hstep, rfl⟩ := poolStep_ok_inv hs
  obtain ⟨hh, hth, hm⟩ := h
  obtain ⟨s, hsi, hrel⟩ := hth.get' hti
  have hmc : mainDone Thread.doneV c = none := by rw [← crel_mainDone ⟨hh, hth, hm⟩]; exact hmd
  unfold tstep at hstep
  cases ha : astep t with
  | some t1 =>
    simp only [ha] at hstep; cases hstep
    exact .inl (crel_admin ⟨hh, hth, hm⟩ hti ha)
  | none =>
    simp only [ha] at hstep
    have hsim := trel_normal hrel ha c.heap lab.1 lab.2
    rw [hh, hstep] at hsim
    cases hg : gstep d.heap lab.1 lab.2 s with
    | blocked => rw [hg] at hsim; cases hsim
    | stuck => rw [hg] at hsim; cases hsim
    | ok hp1 s' sp =>
      rw [hg] at hsim
      cases hsim with
      | ok hrel' hsp =>
        refine .inr ⟨c.after lab.1 hp s' sp, ?_, rfl, (hth.set lab.1 hrel').append hsp,
          mainOK_after hm hsi (gstep_ret hg)⟩
        unfold gcstep
        rw [poolStep_eq hmc hsi, hh, hg]

/-- A stuck GooseLang thread is a stuck Go thread. -/
theorem crel_stuck {c : GCfg} {d : TCfg} {lab : Label} (h : CRel c d) (hs : tcstep .strict d lab = .stuck) :
    gcstep c lab = .stuck := by
  obtain ⟨hmd, t, hti, hstep⟩ := poolStep_stuck_inv hs
  obtain ⟨hh, hth, hm⟩ := h
  obtain ⟨s, hsi, hrel⟩ := hth.get' hti
  have hmc : mainDone Thread.doneV c = none := by rw [← crel_mainDone ⟨hh, hth, hm⟩]; exact hmd
  unfold tstep at hstep
  cases ha : astep t with
  | some t1 => simp [ha] at hstep
  | none =>
    simp only [ha] at hstep
    have hsim := trel_normal hrel ha c.heap lab.1 lab.2
    rw [hh, hstep] at hsim
    unfold gcstep
    rw [poolStep_eq hmc hsi, hh]
    cases hg : gstep d.heap lab.1 lab.2 s with
    | blocked => rw [hg] at hsim; cases hsim
    | stuck => rfl
    | ok _ _ _ => rw [hg] at hsim; cases hsim

/-- If no GooseLang thread can move, no Go thread can. -/
theorem crel_blocked {c : GCfg} {d : TCfg} {lab : Label} (h : CRel c d) (hs : tcstep .strict d lab = .blocked) :
    gcstep c lab = .blocked := by
  obtain ⟨hh, hth, hm⟩ := h
  unfold gcstep poolStep
  unfold tcstep poolStep at hs
  rw [crel_mainDone ⟨hh, hth, hm⟩] at hs
  cases hmc : mainDone Thread.doneV c with
  | some v => rfl
  | none =>
    simp only [hmc] at hs ⊢
    cases hsi : c.threads[lab.1]? with
    | none => rfl
    | some s =>
      obtain ⟨t, hti, hrel⟩ := hth.get hsi
      simp only [hti] at hs
      simp only []
      unfold tstep at hs
      cases ha : astep t with
      | some t1 => simp [ha] at hs
      | none =>
        simp only [ha] at hs
        have hsim := trel_normal hrel ha c.heap lab.1 lab.2
        rw [hh] at hsim ⊢
        cases he : estep .strict d.heap lab.1 lab.2 t with
        | ok _ _ _ => simp [he] at hs
        | stuck => simp [he] at hs
        | blocked =>
          rw [he] at hsim
          cases hg : gstep d.heap lab.1 lab.2 s with
          | blocked => rfl
          | stuck => rw [hg] at hsim; cases hsim
          | ok _ _ _ => rw [hg] at hsim; cases hsim

/-! ### schedules -/

theorem crel_init {p : Prog} {t : T} (h : tr p = .ok t) : CRel (ginit p) (tinit t) := by
  refine ⟨rfl, ⟨rfl, ?_⟩, ⟨_, rfl, rfl⟩⟩
  intro i s t' hs ht
  cases i with
  | succ i => simp [ginit] at hs
  | zero =>
    simp [ginit] at hs; simp [tinit] at ht
    subst hs; subst ht
    exact ⟨_, .inl ⟨.returned p.result, [], t, .nil, h, rfl, fun _ => rfl⟩, Join.refl _⟩

/-- Every Go schedule is matched by a GooseLang schedule (each label repeated: administrative steps, then the
effect step). -/
theorem run_forward {c : GCfg} {d : TCfg} (h : CRel c d) : ∀ (sched : List Label) {c' : GCfg}, grun c sched = some c' →
    ∃ ns : List Nat, ns.length = sched.length ∧ ∃ d', trun .strict d ((sched.zip ns).flatMap (fun p => List.replicate (p.2 + 1) p.1)) = some d' ∧
      CRel c' d' := by
  intro sched
  induction sched generalizing c d with
  | nil => intro c' hr; simp [grun, poolRun] at hr; subst hr; exact ⟨[], rfl, d, rfl, h⟩
  | cons lab rest ih =>
    intro c' hr
    simp only [grun, poolRun] at hr
    cases hs : poolStep gstep Thread.doneV c lab with
    | blocked => simp [hs] at hr
    | stuck => simp [hs] at hr
    | ok c1 =>
      simp only [hs] at hr
      obtain ⟨n, d1, hrun1, hrel1⟩ := crel_forward h hs
      obtain ⟨ns, hlen, d', hrun', hrel'⟩ := ih hrel1 hr
      refine ⟨n :: ns, by simp [hlen], d', ?_, hrel'⟩
      simp only [List.zip_cons_cons, List.flatMap_cons]
      exact poolRun_append hrun1 hrun'

/-- Every GooseLang schedule is matched by a Go schedule (its effect steps, in the same order). -/
theorem run_backward {c : GCfg} {d : TCfg} (h : CRel c d) : ∀ (sched : List Label) {d' : TCfg}, trun .strict d sched = some d' →
    ∃ sched' c', sched'.Sublist sched ∧ grun c sched' = some c' ∧ CRel c' d' := by
  intro sched
  induction sched generalizing c d with
  | nil => intro d' hr; simp [trun, poolRun] at hr; subst hr; exact ⟨[], c, .slnil, rfl, h⟩
  | cons lab rest ih =>
    intro d' hr
    simp only [trun, poolRun] at hr
    cases hs : poolStep (tstep .strict) TThread.doneV d lab with
    | blocked => simp [hs] at hr
    | stuck => simp [hs] at hr
    | ok d1 =>
      simp only [hs] at hr
      rcases crel_backward h hs with hrel1 | ⟨c1, hg, hrel1⟩
      · obtain ⟨sched', c', hsub, hrun, hrel'⟩ := ih hrel1 hr
        exact ⟨sched', c', .cons _ hsub, hrun, hrel'⟩
      · obtain ⟨sched', c', hsub, hrun, hrel'⟩ := ih hrel1 hr
        refine ⟨lab :: sched', c', .cons_cons _ hsub, ?_, hrel'⟩
        simp only [grun, poolRun]
        unfold gcstep at hg
        rw [hg]
        exact hrun

end GooseVerif.Model.Conc
