import GooseVerif.Model.MemDiskConc
import GooseVerif.Lemmas.Lock
import GooseVerif.Lemmas.Disk

namespace GooseVerif.Model.MemDiskConc
open GooseVerif.Model.Lock GooseVerif.Model.Disk

theorem mode_readTo : modeOf "MemDisk.ReadTo" = .R := by decide +kernel
theorem mode_write : modeOf "MemDisk.Write" = .W := by decide +kernel

/-- Two half copies are one whole copy. -/
theorem chunkCopy_halves (dst src : Bytes) (h hi : Nat) (hhi : dst.length ≤ hi) :
    chunkCopy (chunkCopy dst src 0 h) src h hi = goCopy dst src := by
  apply List.ext_getElem?
  intro i
  simp only [chunkCopy, goCopy, List.getElem?_mapIdx, List.getElem?_append, List.length_take, List.getElem?_take,
    List.getElem?_drop]
  by_cases hi1 : i < dst.length
  · simp only [List.getElem?_eq_getElem hi1, Option.map_some]
    by_cases hs : i < src.length
    · have : i < min dst.length src.length := by omega
      simp only [this, ↓reduceIte, hi1, List.getD_eq_getElem?_getD, List.getElem?_eq_getElem hs, Option.getD_some]
      by_cases hh : i < h <;> simp [hh] <;> omega
    · have : ¬ i < min dst.length src.length := by omega
      simp only [this, ↓reduceIte, List.getD_eq_getElem?_getD, List.getElem?_eq_none (Nat.le_of_not_lt hs), Option.getD_none]
      have e : src.length + (i - min dst.length src.length) = i := by omega
      rw [e, List.getElem?_eq_getElem hi1]
      by_cases hh : i < h <;> simp [hh]
  · have hn : dst[i]? = none := List.getElem?_eq_none (Nat.le_of_not_lt hi1)
    simp only [hn, Option.map_none]
    have : ¬ i < min dst.length src.length := by omega
    simp only [this, ↓reduceIte]
    rw [List.getElem?_eq_none (by omega)]

end GooseVerif.Model.MemDiskConc

namespace GooseVerif.Model.MemDiskConc
open GooseVerif.Model.Lock GooseVerif.Model.Disk

/-- Readers never modify the blocks. -/
theorem readers_read_only (bs : Nat) :
    ∀ op, (memDiskProtocol bs).mode op = .R → ∀ k x, ((memDiskProtocol bs).micro op k x).1 = x.1 := by
  intro op hm k x
  cases op with
  | write a v => simp only [memDiskProtocol, mode_write] at hm; cases hm
  | readTo a buf =>
    obtain ⟨blocks, l⟩ := x
    match k with
    | 0 => rfl
    | 1 => rfl
    | k + 2 => rfl

/-- Run alone, `ReadTo` is `memImpl.readTo`. -/
theorem runAlone_readTo (bs : Nat) (blocks : List Bytes) (a : Nat) (buf : Bytes) :
    runAlone (memDiskProtocol bs) (.readTo a buf) blocks =
      (blocks, match (memImpl bs).readTo blocks a buf with
               | some b => DRet.buf b
               | none => DRet.panic) := by
  simp only [runAlone, memDiskProtocol, iter, memImpl]
  by_cases ha : a < blocks.length
  · have hn : ¬ blocks.length ≤ a := by omega
    simp only [hn, decide_false, Bool.or_false, Bool.false_eq_true, ↓reduceIte, List.getElem?_eq_getElem ha,
      List.getD_eq_getElem?_getD, Option.getD_some]
    rw [chunkCopy_halves _ _ _ _ (by simp [chunkCopy]; omega)]
  · have hn : blocks.length ≤ a := by omega
    simp [hn, List.getElem?_eq_none hn]

/-- Run alone, `Write` is `memImpl.write`. -/
theorem runAlone_write (bs : Nat) (blocks : List Bytes) (hall : AllLen bs blocks) (a : Nat) (v : Bytes) :
    runAlone (memDiskProtocol bs) (.write a v) blocks =
      (match (memImpl bs).write blocks a v with
       | some b' => (b', DRet.ok)
       | none => (blocks, DRet.panic)) := by
  simp only [runAlone, memDiskProtocol, iter, memImpl]
  by_cases hv : v.length = bs
  · by_cases ha : a < blocks.length
    · have hn : ¬ blocks.length ≤ a := by omega
      simp only [hv, bne_self_eq_false, hn, decide_false, Bool.or_false, Bool.false_eq_true, ↓reduceIte, ne_eq,
        not_true_eq_false, List.getElem?_eq_getElem ha, List.getD_eq_getElem?_getD, Option.getD_some,
        List.getElem?_set_self ha, List.set_set]
      rw [chunkCopy_halves _ _ _ _ (by rw [hall _ (List.getElem_mem ha)]; exact Nat.le_refl _)]
    · have hn : blocks.length ≤ a := by omega
      simp [hv, hn, List.getElem?_eq_none hn]
  · simp [hv]

end GooseVerif.Model.MemDiskConc

namespace GooseVerif.Model.MemDiskConc
open GooseVerif.Model.Disk

theorem file_writes_commute' (bs : Nat) (d : FileSt) (r : Regs) (hs : FileSim bs d r) (a a' : Nat) (v v' : Bytes)
    (hne : a ≠ a') (d1 d2 e1 e2 : FileSt)
    (h1 : (fileImpl bs).write d a v = some d1) (h2 : (fileImpl bs).write d1 a' v' = some d2)
    (h3 : (fileImpl bs).write d a' v' = some e1) (h4 : (fileImpl bs).write e1 a v = some e2) :
    d2 = e2 := by
  have R := file_refines' bs
  -- follow both orders on the registers
  rcases R.write d r a v hs with ⟨hn, _⟩ | ⟨d1', r1, hw1, hr1, hs1⟩
  · rw [hn] at h1; cases h1
  rw [h1] at hw1; cases hw1
  rcases R.write d1 r1 a' v' hs1 with ⟨hn, _⟩ | ⟨d2', r2, hw2, hr2, hs2⟩
  · rw [hn] at h2; cases h2
  rw [h2] at hw2; cases hw2
  rcases R.write d r a' v' hs with ⟨hn, _⟩ | ⟨e1', q1, hw3, hq1, ht1⟩
  · rw [hn] at h3; cases h3
  rw [h3] at hw3; cases hw3
  rcases R.write e1 q1 a v ht1 with ⟨hn, _⟩ | ⟨e2', q2, hw4, hq2, ht2⟩
  · rw [hn] at h4; cases h4
  rw [h4] at hw4; cases hw4
  -- the registers agree, hence the files
  have hregs : r2 = q2 := by
    simp only [specImpl] at hr1 hr2 hq1 hq2
    split at hr1 <;> cases hr1
    split at hr2 <;> cases hr2
    split at hq1 <;> cases hq1
    split at hq2 <;> cases hq2
    exact List.set_comm v v' hne
  obtain ⟨f2, n2⟩ := d2
  obtain ⟨g2, m2⟩ := e2
  have hf := hs2.1
  have hg := ht2.1
  have hn2 := hs2.2.2
  have hm2 := ht2.2.2
  simp only at hf hg hn2 hm2
  subst hregs
  rw [hf, hg, hn2, hm2]

end GooseVerif.Model.MemDiskConc
