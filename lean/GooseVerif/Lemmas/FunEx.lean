/-
Example packages and hand-made mutants of the translation for the functions theorem (`Props/C01Fun.lean`).
Everything here is a closed term; the theorems about them are by evaluation.
-/
import GooseVerif.Lemmas.FunTr

namespace GooseVerif.Model.Fun
open GooseVerif.Model.Coll (Cmp)

def sl : List Stmt → Stmts
  | [] => .nil
  | s :: r => .cons s (sl r)

def el : List Exp → Exps
  | [] => .nil
  | e :: r => .cons e (el r)

def tl : List T → Ts
  | [] => .nil
  | t :: r => .cons t (tl r)

def fnDecl (name : String) (params : List String) (nres : Nat) (body : List Stmt) : FuncDecl :=
  { name := name, recv := none, params := params, nres := nres, named := false, body := sl body }

def methDecl (m : String) (rname : String) (ptr : Bool) (params : List String) (nres : Nat) (body : List Stmt) : FuncDecl :=
  { name := "T__" ++ m, recv := some { rname := rname, ptr := ptr, mname := m }, params := params, nres := nres, named := false,
    body := sl body }

/-! ### one package with every construct -/

/-- func two(x, y uint64) (uint64, uint64) { return x + y, x } -/
def exTwo : FuncDecl := fnDecl "two" ["x", "y"] 2 [.ret (el [.add (.var "x") (.var "y"), .var "x"])]

/-- func three(x uint64) (uint64, uint64, uint64) { return x, x + 1, x + 2 } -/
def exThree : FuncDecl := fnDecl "three" ["x"] 3 [.ret (el [.var "x", .add (.var "x") (.lit 1), .add (.var "x") (.lit 2)])]

/-- func zero() uint64 { return 7 } -/
def exZero : FuncDecl := fnDecl "zero" [] 1 [.ret (el [.lit 7])]

/-- func nothing(x uint64) { } -/
def exNothing : FuncDecl := fnDecl "nothing" ["x"] 0 []

/-- func fact(n uint64) uint64 { if n == 0 { return 1 }; return n * fact(n-1) } -/
def exFact : FuncDecl := fnDecl "fact" ["n"] 1
  [.ite (.cmp .eq (.var "n") (.lit 0)) (sl [.ret (el [.lit 1])]) .nil,
   .ret (el [.mul (.var "n") (.call "fact" (el [.sub (.var "n") (.lit 1)]))])]

/-- func fib(n uint64) uint64 { if n < 2 { return n }; a := fib(n-1); b := fib(n-2); return a + b } -/
def exFib : FuncDecl := fnDecl "fib" ["n"] 1
  [.ite (.cmp .lt (.var "n") (.lit 2)) (sl [.ret (el [.var "n"])]) .nil,
   .define "a" (.call "fib" (el [.sub (.var "n") (.lit 1)])),
   .define "b" (.call "fib" (el [.sub (.var "n") (.lit 2)])),
   .ret (el [.add (.var "a") (.var "b")])]

/-- func isEven(n uint64) bool { if n == 0 { return true }; return isOdd(n-1) } -/
def exEven : FuncDecl := fnDecl "isEven" ["n"] 1
  [.ite (.cmp .eq (.var "n") (.lit 0)) (sl [.ret (el [.blit true])]) .nil,
   .ret (el [.call "isOdd" (el [.sub (.var "n") (.lit 1)])])]

/-- func isOdd(n uint64) bool { if n == 0 { return false } else { return isEven(n-1) } } -/
def exOdd : FuncDecl := fnDecl "isOdd" ["n"] 1
  [.ite (.cmp .eq (.var "n") (.lit 0)) (sl [.ret (el [.blit false])]) (sl [.ret (el [.call "isEven" (el [.sub (.var "n") (.lit 1)])])])]

/-- func (r *T) seta(k uint64) { r.a = k } -/
def exSeta : FuncDecl := methDecl "seta" "r" true ["k"] 0 [.setP .a (.var "r") (.var "k")]

/-- func (r T) geta(k uint64) uint64 { return r.a + k } -/
def exGeta : FuncDecl := methDecl "geta" "r" false ["k"] 1 [.ret (el [.add (.fld false .a (.var "r")) (.var "k")])]

/-- func (r T) self() T { return r } -/
def exSelf : FuncDecl := methDecl "self" "r" false [] 1 [.ret (el [.var "r"])]

/-- func (r *T) selfp() *T { return r } -/
def exSelfp : FuncDecl := methDecl "selfp" "r" true [] 1 [.ret (el [.var "r"])]

/-- func (r *T) down(n uint64) uint64 { if n == 0 { return r.a }; v := r.down(n-1); return v + 1 } -/
def exDown : FuncDecl := methDecl "down" "r" true ["n"] 1
  [.ite (.cmp .eq (.var "n") (.lit 0)) (sl [.ret (el [.fld true .a (.var "r")])]) .nil,
   .define "v" (.mcall true "down" (.var "r") (el [.sub (.var "n") (.lit 1)])),
   .ret (el [.add (.var "v") (.lit 1)])]

/-- func cat(s, t string) uint64 { return uint64(len(s + t)) } -/
def exCat : FuncDecl := fnDecl "cat" ["s", "t"] 1 [.ret (el [.slen (.add (.var "s") (.var "t"))])]

/-- func round(s string) bool { return string([]byte(s)) == s } -/
def exRound : FuncDecl := fnDecl "round" ["s"] 1 [.ret (el [.scmp .eq (.ofBytes (.toBytes (.var "s"))) (.var "s")])]

/-- func same(s, t string) (bool, bool) { return s == t, s != t } -/
def exSame : FuncDecl := fnDecl "same" ["s", "t"] 2 [.ret (el [.scmp .eq (.var "s") (.var "t"), .scmp .ne (.var "s") (.var "t")])]

/-- func ap(f func(uint64) uint64, x uint64) uint64 { return f(x) + 1 } -/
def exAp : FuncDecl := fnDecl "ap" ["f", "x"] 1 [.ret (el [.add (.call "f" (el [.var "x"])) (.lit 1)])]

/-- func pos2(p, q uint64) uint64 { a, b := two(p, q); return a*1000 + b } -/
def exPos2 : FuncDecl := fnDecl "pos2" ["p", "q"] 1
  [.defineN ["a", "b"] (.call "two" (el [.var "p", .var "q"])),
   .ret (el [.add (.mul (.var "a") (.lit 1000)) (.var "b")])]

/-- func pos3(p uint64) uint64 { a, b, c := three(p); return a + b*10 + c*100 } -/
def exPos3 : FuncDecl := fnDecl "pos3" ["p"] 1
  [.defineN ["a", "b", "c"] (.call "three" (el [.var "p"])),
   .ret (el [.add (.var "a") (.add (.mul (.var "b") (.lit 10)) (.mul (.var "c") (.lit 100)))])]

/-- func blank(p uint64) uint64 { _, b, _ := three(p); return b } -/
def exBlank : FuncDecl := fnDecl "blank" ["p"] 1
  [.defineN ["_", "b", "_"] (.call "three" (el [.var "p"])), .ret (el [.var "b"])]

/-- func sees(p, q uint64) uint64 { var v uint64 = p; g := func() uint64 { return v }; v = q; return g() } -/
def exSees : FuncDecl := fnDecl "sees" ["p", "q"] 1
  [.declare "v" .u64 (.var "p"),
   .define "g" (.fn false [] (sl [.ret (el [.var "v"])])),
   .assign "v" (.var "q"),
   .ret (el [.call "g" .nil])]

/-- func visible(p, q uint64) uint64 { var v uint64 = p; g := func(k uint64) { v = k }; g(q); return v } -/
def exVisible : FuncDecl := fnDecl "visible" ["p", "q"] 1
  [.declare "v" .u64 (.var "p"),
   .define "g" (.fn false ["k"] (sl [.assign "v" (.var "k")])),
   .expr (.call "g" (el [.var "q"])),
   .ret (el [.var "v"])]

/-- func byvalue(p, q uint64) uint64 { c := p; g := func() uint64 { return c }; var r uint64 = 0;
      if q == q { c := q; r = g()*1000 + c }; return r }:
a `:=` variable is captured by value, a later variable of the same name is another variable -/
def exByValue : FuncDecl := fnDecl "byvalue" ["p", "q"] 1
  [.define "c" (.var "p"),
   .define "g" (.fn false [] (sl [.ret (el [.var "c"])])),
   .declare "r" .u64 (.lit 0),
   .ite (.cmp .eq (.var "q") (.var "q"))
     (sl [.define "c" (.var "q"), .assign "r" (.add (.mul (.call "g" .nil) (.lit 1000)) (.var "c"))]) .nil,
   .ret (el [.var "r"])]

/-- func copy(p, q uint64) uint64 { var v T = T{a: p, b: 0}; c := v.self(); v.a = q; return c.a } -/
def exCopy : FuncDecl := fnDecl "copy" ["p", "q"] 1
  [.declare "v" .strct (.mk (.var "p") (.lit 0)),
   .define "c" (.mcall false "self" (.var "v") .nil),
   .setV .a "v" (.var "q"),
   .ret (el [.fld false .a (.var "c")])]

/-- func share(p, q uint64) uint64 { x := &T{a: p, b: 0}; x.seta(q); return x.a } -/
def exShare : FuncDecl := fnDecl "share" ["p", "q"] 1
  [.define "x" (.new (.var "p") (.lit 0)),
   .expr (.mcall true "seta" (.var "x") (el [.var "q"])),
   .ret (el [.fld true .a (.var "x")])]

/-- func shareRet(p, q uint64) uint64 { x := &T{a: p, b: 0}; c := x.selfp(); x.a = q; return c.a } -/
def exShareRet : FuncDecl := fnDecl "shareRet" ["p", "q"] 1
  [.define "x" (.new (.var "p") (.lit 0)),
   .define "c" (.mcall true "selfp" (.var "x") .nil),
   .setP .a (.var "x") (.var "q"),
   .ret (el [.fld true .a (.var "c")])]

/-- func hof(p uint64) uint64 { var n uint64 = 0; g := func(k uint64) uint64 { n = n + 1; return k + p };
      x := ap(g, 1); y := ap(zeroish…)`: a closure and a top-level function passed as arguments -/
def exHof : FuncDecl := fnDecl "hof" ["p"] 1
  [.declare "n" .u64 (.lit 0),
   .define "g" (.fn false ["k"] (sl [.assign "n" (.add (.var "n") (.lit 1)), .ret (el [.add (.var "k") (.var "p")])])),
   .define "x" (.call "ap" (el [.var "g", .lit 1])),
   .define "y" (.call "ap" (el [.fref "fact", .lit 3])),
   .ret (el [.add (.add (.var "x") (.mul (.var "y") (.lit 100))) (.mul (.var "n") (.lit 10000))])]

/-- func downer(p uint64) uint64 { x := &T{a: p, b: 0}; return x.down(3) } -/
def exDowner : FuncDecl := fnDecl "downer" ["p"] 1
  [.define "x" (.new (.var "p") (.lit 0)), .ret (el [.mcall true "down" (.var "x") (el [.lit 3])])]

/-- func useZero(p uint64) uint64 { nothing(p); return zero() + p } -/
def exUseZero : FuncDecl := fnDecl "useZero" ["p"] 1
  [.expr (.call "nothing" (el [.var "p"])), .ret (el [.add (.call "zero" .nil) (.var "p")])]

def exPkg : Pkg :=
  [exTwo, exThree, exZero, exNothing, exFact, exFib, exEven, exOdd, exSeta, exGeta, exSelf, exSelfp, exDown, exCat, exRound, exSame,
   exAp, exPos2, exPos3, exBlank, exSees, exVisible, exByValue, exCopy, exShare, exShareRet, exHof, exDowner, exUseZero]

/-- what goose emits for `exPkg` (every declaration is accepted: `Props/C01Fun.lean`, `exPkg_accepted`) -/
def exTP : TPkg := trAccepted false exPkg exPkg

/-! ### reading results -/

def goNums : Res (List Val × GHeap) → Option (List Nat)
  | .ok (vs, _) => vs.mapM fun v => match v with
    | .num n => some n
    | .bool b => some (if b then 1 else 0)
    | _ => none
  | _ => none

def tNum : Res (TVal × THeap) → Option Nat
  | .ok (.num n, _) => some n
  | .ok (.bool b, _) => some (if b then 1 else 0)
  | _ => none

def isStuck {α : Type} : Res α → Bool
  | .bad => true
  | _ => false

def isFuel {α : Type} : Res α → Bool
  | .fuel => true
  | _ => false

/-! ### shapes goose refuses -/

/-- func named(p uint64) (r uint64) { return p } -/
def rejNamed : FuncDecl := { fnDecl "named" ["p"] 1 [.ret (el [.var "p"])] with named := true }

/-- func litNamed(p uint64) uint64 { g := func(k uint64) (r uint64) { return k }; return g(p) } -/
def rejLitNamed : FuncDecl := fnDecl "litNamed" ["p"] 1
  [.define "g" (.fn true ["k"] (sl [.ret (el [.var "k"])])), .ret (el [.call "g" (el [.var "p"])])]

/-- func multi(p uint64) uint64 { return pos2(two(p, 1)) } -/
def rejMulti : FuncDecl := fnDecl "multi" ["p"] 1 [.ret (el [.call "pos2" (el [.call "two" (el [.var "p", .lit 1])])])]

/-- func assignDef(p uint64) uint64 { x := p; g := func() { x = 3 }; g(); return x } -/
def rejAssign : FuncDecl := fnDecl "assignDef" ["p"] 1
  [.define "x" (.var "p"), .define "g" (.fn false [] (sl [.assign "x" (.lit 3)])), .expr (.call "g" .nil), .ret (el [.var "x"])]

/-- func order(s, t string) bool { return s < t } -/
def rejOrder : FuncDecl := fnDecl "order" ["s", "t"] 1 [.ret (el [.scmp .lt (.var "s") (.var "t")])]

/-- func fnVar(p uint64) uint64 { var g func(uint64) uint64 = func(k uint64) uint64 { return k }; return g(p) } -/
def rejFnVar : FuncDecl := fnDecl "fnVar" ["p"] 1
  [.declare "g" .fn (.fn false ["k"] (sl [.ret (el [.var "k"])])), .ret (el [.call "g" (el [.var "p"])])]

/-- func retPos(p uint64) uint64 { if p == 0 { if p == 1 { return 1 } }; return 2 } -/
def rejRetPos : FuncDecl := fnDecl "retPos" ["p"] 1
  [.ite (.cmp .eq (.var "p") (.lit 0)) (sl [.ite (.cmp .eq (.var "p") (.lit 1)) (sl [.ret (el [.lit 1])]) .nil]) .nil,
   .ret (el [.lit 2])]

/-- func earlyElse(p uint64) uint64 { var a uint64 = p; if p == 0 { return 1 } else { a = a + 1 }; return a } -/
def rejEarlyElse : FuncDecl := fnDecl "earlyElse" ["p"] 1
  [.declare "a" .u64 (.var "p"),
   .ite (.cmp .eq (.var "p") (.lit 0)) (sl [.ret (el [.lit 1])]) (sl [.assign "a" (.add (.var "a") (.lit 1))]),
   .ret (el [.var "a"])]

/-! ### the shapes listed as findings: accepted by goose (`trGoose`), kept out of `tr` -/

/-- func ptrOnValue(p uint64) uint64 { var v T = T{a: p, b: 2}; v.seta(9); return v.a }: Go passes `&v` -/
def findPtrOnValue : FuncDecl := fnDecl "ptrOnValue" ["p"] 1
  [.declare "v" .strct (.mk (.var "p") (.lit 2)),
   .expr (.mcall false "seta" (.var "v") (el [.lit 9])),
   .ret (el [.fld false .a (.var "v")])]

/-- func valOnPtr(p uint64) uint64 { q := &T{a: p, b: 6}; return q.geta(3) }: Go passes `*q` -/
def findValOnPtr : FuncDecl := fnDecl "valOnPtr" ["p"] 1
  [.define "q" (.new (.var "p") (.lit 6)), .ret (el [.mcall true "geta" (.var "q") (el [.lit 3])])]

/-- func storeLet(p uint64) uint64 { t := T{a: 1, b: 2}; t.a = p; return t.a } -/
def findStoreLet : FuncDecl := fnDecl "storeLet" ["p"] 1
  [.define "t" (.mk (.lit 1) (.lit 2)), .setV .a "t" (.var "p"), .ret (el [.fld false .a (.var "t")])]

def findPkg : Pkg := [exSeta, exGeta, findPtrOnValue, findValOnPtr, findStoreLet]

/-! ### hand-made mutants of the emitted definitions -/

/-- replace the definition `name` of a table -/
def replaceDef (name : String) (d : List String × T) : TPkg → TPkg
  | [] => []
  | (n, x) :: r => if n = name then (n, d) :: r else (n, x) :: replaceDef name d r

/-- `pos3` with the names bound in swapped order: `let: (("a", "c"), "b") := three "p" in …` -/
def mutSwapped : TPkg := replaceDef "pos3" (["p"],
  .letN ["a", "c", "b"] (.app (.gvar "three") (tl [.var "p"]))
    (.add (.var "a") (.add (.mul (.var "b") (.lit 10)) (.mul (.var "c") (.lit 100))))) exTP

/-- `useZero` calling `zero` without `#()`: `nothing "p";; zero + "p"` -/
def mutNoUnit : TPkg := replaceDef "useZero" (["p"],
  .seq (.app (.gvar "nothing") (tl [.var "p"])) (.add (.gvar "zero") (.var "p"))) exTP

/-- `sees` with a closure that captured a COPY of the cell's content:
`let: "g" := (let: "v" := ![uint64T] "v" in (λ: <>, "v")) in …` -/
def mutCopyCapture : TPkg := replaceDef "sees" (["p", "q"],
  .letIn "v" (.refTo .u64 (.var "p"))
    (.letIn "g" (.letIn "v" (.load .u64 (.var "v")) (.lam ["_"] (.var "v")))
      (.seq (.store .u64 (.var "v") (.var "q")) (.app (.var "g") (tl [.unit]))))) exTP

/-- `cat` with `StringLength` replaced by the identity: `"s" + "t"` -/
def mutNoLength : TPkg := replaceDef "cat" (["s", "t"], .add (.var "s") (.var "t")) exTP

/-- `pos2` with the tuple built in reversed order in `two`: `("x", "x" + "y")` -/
def mutTupleOrder : TPkg := replaceDef "two" (["x", "y"], .tuple (tl [.var "x", .add (.var "x") (.var "y")])) exTP

/-- what goose emits for `findPkg`, the finding shapes included -/
def findTP : TPkg := trAccepted true findPkg findPkg

end GooseVerif.Model.Fun
