/-
Lemmas for C08: the work-list walk `visit` of `Model/Header.lean` computes exactly the set of FFIs
reachable through imports without passing through an FFI package, `fuelFor g` is enough fuel, and
`getFfi` is therefore a function of that set only.

Everything is proved for an arbitrary FFI table `F : String → Option String` (`visitWith`,
`getFfiWith`, `ReachW`) and then specialised to the regenerated table (`ffiOf`, `visit`, `getFfi`,
`Reach`). The regenerated table is looked at in exactly one place: `ffiOf_ne_none` (no FFI is
called "none"). Core Lean only.
-/
import GooseVerif.Model.Header

namespace GooseVerif.Model.Header

/-! ### `Graph.imports` -/

theorem imports_nil (p : String) : Graph.imports [] p = [] := rfl

theorem imports_cons (e : String × List String) (g : Graph) (p : String) :
    Graph.imports (e :: g) p = if e.1 = p then e.2 else Graph.imports g p := by
  unfold Graph.imports
  by_cases h : e.1 = p
  · simp [h]
  · simp [h]

/-! ### the walk over an arbitrary FFI table -/

/-- `visit` with the FFI table as a parameter. -/
def visitWith (F : String → Option String) :
    Nat → Graph → List String → List String × List String → List String × List String
  | 0, _, _, acc => acc
  | _, _, [], acc => acc
  | fuel + 1, g, p :: rest, (seen, ffis) =>
    if seen.contains p then visitWith F fuel g rest (seen, ffis)
    else
      match F p with
      | some f => visitWith F fuel g rest (p :: seen, if ffis.contains f then ffis else f :: ffis)
      | none => visitWith F fuel g (g.imports p ++ rest) (p :: seen, ffis)

/-- the classification of the set of FFIs seen -/
def classify : List String → FfiResult
  | [] => .ffi "none"
  | [f] => .ffi f
  | _ => .refused

def getFfiWith (F : String → Option String) (g : Graph) (root : String) : FfiResult :=
  classify (visitWith F (fuelFor g) g [root] ([], [])).2

theorem visit_eq_visitWith (fuel : Nat) (g : Graph) (w : List String) (acc : List String × List String) :
    visit fuel g w acc = visitWith ffiOf fuel g w acc := by
  induction fuel generalizing w acc with
  | zero => simp only [visit, visitWith]
  | succ n ih =>
    obtain ⟨seen, ffis⟩ := acc
    cases w with
    | nil => simp only [visit, visitWith]
    | cons p rest =>
      simp only [visit, visitWith, ih]
      by_cases hc : seen.contains p = true
      · simp only [hc, if_true]
      · simp only [hc]
        cases ffiOf p <;> rfl

theorem getFfi_eq_getFfiWith (g : Graph) (root : String) : getFfi g root = getFfiWith ffiOf g root := by
  unfold getFfi getFfiWith
  rw [visit_eq_visitWith]
  generalize (visitWith ffiOf (fuelFor g) g [root] ([], [])).2 = l
  match l with
  | [] => rfl
  | [_] => rfl
  | _ :: _ :: _ => rfl

/-! ### reachability that stops at FFI packages -/

/-- `p` is reachable from `root` through imports without passing THROUGH an FFI package of the table
`F` (the end point may be one). -/
inductive ReachW (F : String → Option String) (g : Graph) (root : String) : String → Prop
  | refl : ReachW F g root root
  | step {p q} : ReachW F g root p → F p = none → q ∈ g.imports p → ReachW F g root q

/-- `p` is reachable from `root` through imports without passing THROUGH an FFI package (the end
point may be one). -/
abbrev Reach (g : Graph) (root : String) : String → Prop := ReachW ffiOf g root

theorem Reach.refl {g : Graph} {root : String} : Reach g root root := ReachW.refl

theorem Reach.step {g : Graph} {root p q : String} :
    Reach g root p → ffiOf p = none → q ∈ g.imports p → Reach g root q := ReachW.step

/-! ### the invariant of the walk -/

/-- What is true of (work list, seen, ffis) at every step of the walk started at `root`. -/
structure Inv (F : String → Option String) (g : Graph) (root : String) (work seen ffis : List String) : Prop where
  reach : ∀ p, p ∈ seen ∨ p ∈ work → ReachW F g root p
  root_in : root ∈ seen ∨ root ∈ work
  closed : ∀ p, p ∈ seen → F p = none → ∀ q, q ∈ g.imports p → q ∈ seen ∨ q ∈ work
  ffis_iff : ∀ f, f ∈ ffis ↔ ∃ p, p ∈ seen ∧ F p = some f
  nodup : ffis.Nodup

variable {F : String → Option String} {g : Graph} {root : String}

theorem Inv.init : Inv F g root [root] [] [] where
  reach := by
    intro p hp
    rcases hp with hp | hp
    · cases hp
    · rw [List.mem_singleton] at hp; subst hp; exact .refl
  root_in := .inr (List.mem_singleton.mpr rfl)
  closed := by intro p hp; cases hp
  ffis_iff := by
    intro f
    constructor
    · intro h; cases h
    · rintro ⟨p, hp, _⟩; cases hp
  nodup := List.nodup_nil

private theorem mem_shift {p x : String} {rest seen : List String} (hp : p ∈ seen)
    (h : x ∈ seen ∨ x ∈ p :: rest) : x ∈ seen ∨ x ∈ rest := by
  rcases h with h | h
  · exact .inl h
  · rcases List.mem_cons.mp h with h | h
    · exact .inl (h ▸ hp)
    · exact .inr h

/-- popping an already-seen package -/
theorem Inv.skip {p : String} {rest seen ffis : List String}
    (h : Inv F g root (p :: rest) seen ffis) (hp : p ∈ seen) : Inv F g root rest seen ffis where
  reach := by
    intro x hx
    apply h.reach
    rcases hx with hx | hx
    · exact .inl hx
    · exact .inr (List.mem_cons_of_mem _ hx)
  root_in := mem_shift hp h.root_in
  closed := by
    intro x hx hF q hq
    exact mem_shift hp (h.closed x hx hF q hq)
  ffis_iff := h.ffis_iff
  nodup := h.nodup

private theorem mem_mark {p x : String} {rest seen : List String}
    (h : x ∈ seen ∨ x ∈ p :: rest) : x ∈ p :: seen ∨ x ∈ rest := by
  rcases h with h | h
  · exact .inl (List.mem_cons_of_mem _ h)
  · rcases List.mem_cons.mp h with h | h
    · exact .inl (h ▸ List.mem_cons_self)
    · exact .inr h

/-- marking an FFI package: its imports are not followed -/
theorem Inv.ffi {p f : String} {rest seen ffis : List String}
    (h : Inv F g root (p :: rest) seen ffis) (hF : F p = some f) :
    Inv F g root rest (p :: seen) (if ffis.contains f then ffis else f :: ffis) where
  reach := by
    intro x hx
    apply h.reach
    rcases hx with hx | hx
    · rcases List.mem_cons.mp hx with hx | hx
      · exact .inr (hx ▸ List.mem_cons_self)
      · exact .inl hx
    · exact .inr (List.mem_cons_of_mem _ hx)
  root_in := mem_mark h.root_in
  closed := by
    intro x hx hFx q hq
    rcases List.mem_cons.mp hx with hx | hx
    · subst hx; rw [hF] at hFx; cases hFx
    · exact mem_mark (h.closed x hx hFx q hq)
  ffis_iff := by
    intro f'
    by_cases hc : f ∈ ffis
    · have : ffis.contains f = true := List.contains_iff_mem.mpr hc
      simp only [this, if_true]
      rw [h.ffis_iff]
      constructor
      · rintro ⟨x, hx, hFx⟩; exact ⟨x, List.mem_cons_of_mem _ hx, hFx⟩
      · rintro ⟨x, hx, hFx⟩
        rcases List.mem_cons.mp hx with hx | hx
        · subst hx
          rw [hF] at hFx
          cases hFx
          exact (h.ffis_iff f).mp hc
        · exact ⟨x, hx, hFx⟩
    · have : ffis.contains f = false := by
        cases hb : ffis.contains f
        · rfl
        · exact absurd (List.contains_iff_mem.mp hb) hc
      simp only [this, Bool.false_eq_true, if_false, List.mem_cons]
      rw [h.ffis_iff]
      constructor
      · rintro (rfl | ⟨x, hx, hFx⟩)
        · exact ⟨p, .inl rfl, hF⟩
        · exact ⟨x, .inr hx, hFx⟩
      · rintro ⟨x, hx | hx, hFx⟩
        · subst hx
          rw [hF] at hFx
          cases hFx
          exact .inl rfl
        · exact .inr ⟨x, hx, hFx⟩
  nodup := by
    by_cases hc : f ∈ ffis
    · have : ffis.contains f = true := List.contains_iff_mem.mpr hc
      simp only [this, if_true]
      exact h.nodup
    · have : ffis.contains f = false := by
        cases hb : ffis.contains f
        · rfl
        · exact absurd (List.contains_iff_mem.mp hb) hc
      simp only [this, Bool.false_eq_true, if_false]
      exact List.nodup_cons.mpr ⟨hc, h.nodup⟩

/-- marking a non-FFI package: its imports go on the work list -/
theorem Inv.follow {p : String} {rest seen ffis : List String}
    (h : Inv F g root (p :: rest) seen ffis) (hF : F p = none) :
    Inv F g root (g.imports p ++ rest) (p :: seen) ffis where
  reach := by
    intro x hx
    rcases hx with hx | hx
    · apply h.reach
      rcases List.mem_cons.mp hx with hx | hx
      · exact .inr (hx ▸ List.mem_cons_self)
      · exact .inl hx
    · rcases List.mem_append.mp hx with hx | hx
      · exact .step (h.reach p (.inr List.mem_cons_self)) hF hx
      · exact h.reach x (.inr (List.mem_cons_of_mem _ hx))
  root_in := by
    rcases mem_mark h.root_in with h1 | h1
    · exact .inl h1
    · exact .inr (List.mem_append_right _ h1)
  closed := by
    intro x hx hFx q hq
    rcases List.mem_cons.mp hx with hx | hx
    · subst hx; exact .inr (List.mem_append_left _ hq)
    · rcases mem_mark (h.closed x hx hFx q hq) with h1 | h1
      · exact .inl h1
      · exact .inr (List.mem_append_right _ h1)
  ffis_iff := by
    intro f
    rw [h.ffis_iff]
    constructor
    · rintro ⟨x, hx, hFx⟩; exact ⟨x, List.mem_cons_of_mem _ hx, hFx⟩
    · rintro ⟨x, hx, hFx⟩
      rcases List.mem_cons.mp hx with hx | hx
      · subst hx; rw [hF] at hFx; cases hFx
      · exact ⟨x, hx, hFx⟩
  nodup := h.nodup

/-- with an empty work list, everything reachable has been seen -/
theorem Inv.complete {seen ffis : List String} (h : Inv F g root [] seen ffis) :
    ∀ p, ReachW F g root p → p ∈ seen := by
  intro p hp
  induction hp with
  | refl =>
    rcases h.root_in with h1 | h1
    · exact h1
    · cases h1
  | step _ hF hq ih =>
    rcases h.closed _ ih hF _ hq with h1 | h1
    · exact h1
    · cases h1

/-! ### the fuel measure -/

/-- the import-list lengths of the entries of `g` whose key has not been marked yet -/
def unseenCost (seen : List String) : Graph → Nat
  | [] => 0
  | e :: g => (if e.1 ∈ seen then 0 else e.2.length) + unseenCost seen g

theorem unseenCost_mono (seen : List String) (p : String) (g : Graph) :
    unseenCost (p :: seen) g ≤ unseenCost seen g := by
  induction g with
  | nil => exact Nat.le_refl _
  | cons e g ih =>
    simp only [unseenCost, List.mem_cons]
    by_cases h1 : e.1 ∈ seen
    · simp only [h1, or_true, if_true]; omega
    · by_cases h2 : e.1 = p
      · simp only [h2, true_or, if_true]; omega
      · simp only [h1, h2, or_self, if_false]; omega

/-- marking a new package pays for pushing its import list -/
theorem unseenCost_mark (seen : List String) (p : String) (hp : p ∉ seen) (g : Graph) :
    unseenCost (p :: seen) g + (g.imports p).length ≤ unseenCost seen g := by
  induction g with
  | nil => simp [unseenCost, imports_nil]
  | cons e g ih =>
    rw [imports_cons]
    simp only [unseenCost, List.mem_cons]
    by_cases h2 : e.1 = p
    · have h1 : e.1 ∉ seen := h2 ▸ hp
      have := unseenCost_mono seen p g
      simp only [h2, true_or, if_true]
      rw [h2] at h1
      simp only [h1, if_false]
      omega
    · by_cases h1 : e.1 ∈ seen
      · simp only [h1, h2, or_true, if_true, if_false]; omega
      · simp only [h1, h2, or_self, if_false]; omega

theorem unseenCost_nil_le (g : Graph) : 1 + unseenCost [] g ≤ fuelFor g := by
  unfold fuelFor
  induction g with
  | nil => simp [unseenCost]
  | cons e g ih =>
    simp only [unseenCost, List.not_mem_nil, if_false, List.map_cons, List.sum_cons]
    omega

/-! ### the walk keeps the invariant and, with enough fuel, ends with an empty work list -/

/-- The fuel invariant: `fuel ≥ |work list| + Σ_{entries of g whose key is not marked} |imports|`.
Every step lowers the right-hand side by at least one, so the walk ends with an empty work list. -/
theorem visitWith_inv (F : String → Option String) (g : Graph) (root : String) :
    ∀ (fuel : Nat) (work seen ffis : List String), Inv F g root work seen ffis →
      work.length + unseenCost seen g ≤ fuel →
      Inv F g root [] (visitWith F fuel g work (seen, ffis)).1 (visitWith F fuel g work (seen, ffis)).2 := by
  intro fuel
  induction fuel with
  | zero =>
    intro work seen ffis h hf
    have : work = [] := List.eq_nil_of_length_eq_zero (by omega)
    subst this
    simpa only [visitWith] using h
  | succ n ih =>
    intro work seen ffis h hf
    cases work with
    | nil => simpa only [visitWith] using h
    | cons p rest =>
      simp only [visitWith]
      simp only [List.length_cons] at hf
      by_cases hc : p ∈ seen
      · have hb : seen.contains p = true := List.contains_iff_mem.mpr hc
        simp only [hb, if_true]
        exact ih rest seen ffis (h.skip hc) (by omega)
      · have hb : seen.contains p = false := by
          cases hb : seen.contains p
          · rfl
          · exact absurd (List.contains_iff_mem.mp hb) hc
        simp only [hb, Bool.false_eq_true, if_false]
        cases hF : F p with
        | some f =>
          simp only []
          have := unseenCost_mono seen p g
          exact ih rest (p :: seen) _ (h.ffi hF) (by omega)
        | none =>
          simp only []
          have := unseenCost_mark seen p hc g
          exact ih _ (p :: seen) ffis (h.follow hF) (by simp only [List.length_append]; omega)

/-- the walk from `[root]` with any fuel `≥ fuelFor g` ends in a state satisfying the invariant with
an empty work list -/
theorem visitWith_final (F : String → Option String) (g : Graph) (root : String) (fuel : Nat)
    (hfuel : fuelFor g ≤ fuel) :
    Inv F g root [] (visitWith F fuel g [root] ([], [])).1 (visitWith F fuel g [root] ([], [])).2 := by
  apply visitWith_inv F g root fuel [root] [] [] Inv.init
  have := unseenCost_nil_le g
  simp only [List.length_singleton]
  omega

/-- The characterisation, for any FFI table and any fuel `≥ fuelFor g`: the packages marked are
exactly the reachable ones, the FFIs collected are exactly the FFIs of reachable packages, each
once. -/
theorem visitWith_complete_sound (F : String → Option String) (g : Graph) (root : String) (fuel : Nat)
    (hfuel : fuelFor g ≤ fuel) :
    (∀ p, p ∈ (visitWith F fuel g [root] ([], [])).1 ↔ ReachW F g root p) ∧
    (∀ f, f ∈ (visitWith F fuel g [root] ([], [])).2 ↔ ∃ p, ReachW F g root p ∧ F p = some f) ∧
    (visitWith F fuel g [root] ([], [])).2.Nodup := by
  have h := visitWith_final F g root fuel hfuel
  have hseen : ∀ p, p ∈ (visitWith F fuel g [root] ([], [])).1 ↔ ReachW F g root p :=
    fun p => ⟨fun hp => h.reach p (.inl hp), h.complete p⟩
  refine ⟨hseen, ?_, h.nodup⟩
  intro f
  rw [h.ffis_iff]
  constructor
  · rintro ⟨p, hp, hF⟩; exact ⟨p, (hseen p).mp hp, hF⟩
  · rintro ⟨p, hp, hF⟩; exact ⟨p, (hseen p).mpr hp, hF⟩

/-- The characterisation of `visit` with the fuel `getFfi` gives it. -/
theorem visit_complete_sound (g : Graph) (root : String) :
    (∀ f, f ∈ (visit (fuelFor g) g [root] ([], [])).2 ↔ ∃ p, Reach g root p ∧ ffiOf p = some f) ∧
    (visit (fuelFor g) g [root] ([], [])).2.Nodup := by
  rw [visit_eq_visitWith]
  exact (visitWith_complete_sound ffiOf g root (fuelFor g) (Nat.le_refl _)).2

/-- The packages marked by `visit` are exactly the reachable ones. -/
theorem visit_seen_iff (g : Graph) (root p : String) :
    p ∈ (visit (fuelFor g) g [root] ([], [])).1 ↔ Reach g root p := by
  rw [visit_eq_visitWith]
  exact (visitWith_complete_sound ffiOf g root (fuelFor g) (Nat.le_refl _)).1 p

/-- More fuel than `fuelFor g` changes nothing about the set found. -/
theorem visit_fuel_irrelevant (g : Graph) (root : String) (fuel : Nat) (h : fuelFor g ≤ fuel) (f : String) :
    f ∈ (visit fuel g [root] ([], [])).2 ↔ f ∈ (visit (fuelFor g) g [root] ([], [])).2 := by
  rw [visit_eq_visitWith, visit_eq_visitWith,
    (visitWith_complete_sound ffiOf g root fuel h).2.1,
    (visitWith_complete_sound ffiOf g root (fuelFor g) (Nat.le_refl _)).2.1]

/-! ### classification of a duplicate-free list -/

theorem classify_none_iff (l : List String) : classify l = .ffi "none" ↔ l = [] ∨ l = ["none"] := by
  match l with
  | [] => simp [classify]
  | [f] => simp [classify]
  | _ :: _ :: _ => simp [classify]

theorem classify_ffi_iff (l : List String) (f : String) (hf : f ≠ "none") : classify l = .ffi f ↔ l = [f] := by
  match l with
  | [] => simp [classify, Ne.symm hf]
  | [f'] => simp [classify]
  | _ :: _ :: _ => simp [classify]

theorem classify_refused_iff (l : List String) (hl : l.Nodup) :
    classify l = .refused ↔ ∃ a b, a ∈ l ∧ b ∈ l ∧ a ≠ b := by
  match l, hl with
  | [], _ => simp [classify]
  | [f], _ =>
    simp only [classify, List.mem_singleton]
    constructor
    · intro h; cases h
    · rintro ⟨a, b, rfl, rfl, h⟩; exact absurd rfl h
  | a :: b :: t, hl =>
    simp only [classify, true_iff]
    refine ⟨a, b, List.mem_cons_self, List.mem_cons_of_mem _ List.mem_cons_self, ?_⟩
    intro hab
    subst hab
    exact (List.nodup_cons.mp hl).1 List.mem_cons_self

theorem eq_singleton_of_nodup {l : List String} (hl : l.Nodup) {f : String} (hf : f ∈ l)
    (hall : ∀ x, x ∈ l → x = f) : l = [f] := by
  match l, hl with
  | [], _ => cases hf
  | [a], _ => rw [hall a List.mem_cons_self]
  | a :: b :: t, hl =>
    have ha := hall a List.mem_cons_self
    have hb := hall b (List.mem_cons_of_mem _ List.mem_cons_self)
    subst ha
    subst hb
    exact absurd List.mem_cons_self (List.nodup_cons.mp hl).1

theorem classify_perm {l l' : List String} (h : l.Perm l') : classify l = classify l' := by
  match l, l', h with
  | [], l', h => rw [List.nil_perm.mp h]
  | [a], l', h => rw [List.singleton_perm.mp h]
  | a :: b :: t, [], h => exact absurd h.length_eq (by simp)
  | a :: b :: t, [c], h => exact absurd h.length_eq (by simp)
  | a :: b :: t, c :: d :: t', _ => rfl

/-! ### `getFfi` in terms of reachability -/

/-- the FFI `f` is the FFI of a package reachable from `root` -/
def ReachFfiW (F : String → Option String) (g : Graph) (root f : String) : Prop :=
  ∃ p, ReachW F g root p ∧ F p = some f

theorem getFfiWith_list (F : String → Option String) (g : Graph) (root : String) :
    ∃ l : List String, getFfiWith F g root = classify l ∧ l.Nodup ∧ ∀ f, f ∈ l ↔ ReachFfiW F g root f :=
  ⟨_, rfl, (visitWith_complete_sound F g root _ (Nat.le_refl _)).2.2,
    (visitWith_complete_sound F g root _ (Nat.le_refl _)).2.1⟩

/-- no reachable FFI gives "none" (for any table) -/
theorem getFfiWith_none_of (F : String → Option String) (g : Graph) (root : String)
    (h : ∀ p, ReachW F g root p → F p = none) : getFfiWith F g root = .ffi "none" := by
  obtain ⟨l, hl, _, hmem⟩ := getFfiWith_list F g root
  rw [hl, classify_none_iff]
  left
  apply List.eq_nil_iff_forall_not_mem.mpr
  intro f hf
  obtain ⟨p, hp, hF⟩ := (hmem f).mp hf
  rw [h p hp] at hF
  cases hF

/-- "none" iff no FFI package is reachable, when no FFI of the table is itself called "none" -/
theorem getFfiWith_none_iff (F : String → Option String) (hN : ∀ p, F p ≠ some "none") (g : Graph) (root : String) :
    getFfiWith F g root = .ffi "none" ↔ ∀ p, ReachW F g root p → F p = none := by
  refine ⟨?_, getFfiWith_none_of F g root⟩
  obtain ⟨l, hl, _, hmem⟩ := getFfiWith_list F g root
  rw [hl, classify_none_iff]
  intro h p hp
  cases hF : F p with
  | none => rfl
  | some f =>
    have hf : f ∈ l := (hmem f).mpr ⟨p, hp, hF⟩
    rcases h with h | h
    · rw [h] at hf; cases hf
    · rw [h, List.mem_singleton] at hf
      subst hf
      exact absurd hF (hN p)

/-- a single FFI `f` iff the set of reachable FFIs is exactly `{f}` -/
theorem getFfiWith_ffi_iff (F : String → Option String) (g : Graph) (root f : String) (hf : f ≠ "none") :
    getFfiWith F g root = .ffi f ↔
      (∃ p, ReachW F g root p ∧ F p = some f) ∧
      (∀ p f', ReachW F g root p → F p = some f' → f' = f) := by
  obtain ⟨l, hl, hnd, hmem⟩ := getFfiWith_list F g root
  rw [hl, classify_ffi_iff l f hf]
  constructor
  · intro h
    subst h
    refine ⟨(hmem f).mp List.mem_cons_self, ?_⟩
    intro p f' hp hF
    exact List.mem_singleton.mp ((hmem f').mpr ⟨p, hp, hF⟩)
  · rintro ⟨h1, h2⟩
    apply eq_singleton_of_nodup hnd ((hmem f).mpr h1)
    intro x hx
    obtain ⟨p, hp, hF⟩ := (hmem x).mp hx
    exact h2 p x hp hF

/-- refused iff two different FFIs are reachable -/
theorem getFfiWith_refused_iff (F : String → Option String) (g : Graph) (root : String) :
    getFfiWith F g root = .refused ↔
      ∃ p q f f', ReachW F g root p ∧ ReachW F g root q ∧ F p = some f ∧ F q = some f' ∧ f ≠ f' := by
  obtain ⟨l, hl, hnd, hmem⟩ := getFfiWith_list F g root
  rw [hl, classify_refused_iff l hnd]
  constructor
  · rintro ⟨a, b, ha, hb, hab⟩
    obtain ⟨p, hp, hFp⟩ := (hmem a).mp ha
    obtain ⟨q, hq, hFq⟩ := (hmem b).mp hb
    exact ⟨p, q, a, b, hp, hq, hFp, hFq, hab⟩
  · rintro ⟨p, q, a, b, hp, hq, hFp, hFq, hab⟩
    exact ⟨a, b, (hmem a).mpr ⟨p, hp, hFp⟩, (hmem b).mpr ⟨q, hq, hFq⟩, hab⟩

/-! ### `getFfi` depends only on the reachable part of the graph and of the table -/

theorem reachW_congr {F F' : String → Option String} {g g' : Graph} {root : String}
    (hF : ∀ q, ReachW F g root q → F' q = F q)
    (hI : ∀ q, ReachW F g root q → F q = none → ∀ x, x ∈ g'.imports q ↔ x ∈ g.imports q) (p : String) :
    ReachW F' g' root p ↔ ReachW F g root p := by
  constructor
  · intro h
    induction h with
    | refl => exact .refl
    | step _ hn hq ih =>
      have hn' := hF _ ih ▸ hn
      exact .step ih hn' ((hI _ ih hn' _).mp hq)
  · intro h
    induction h with
    | refl => exact .refl
    | step hp hn hq ih =>
      exact .step ih ((hF _ hp).trans hn) ((hI _ hp hn _).mpr hq)

/-- Two (table, graph) pairs that agree on the FFI of every reachable package and on the members of
the import list of every reachable non-FFI package give the same result. -/
theorem getFfiWith_congr {F F' : String → Option String} {g g' : Graph} {root : String}
    (hF : ∀ q, ReachW F g root q → F' q = F q)
    (hI : ∀ q, ReachW F g root q → F q = none → ∀ x, x ∈ g'.imports q ↔ x ∈ g.imports q) :
    getFfiWith F' g' root = getFfiWith F g root := by
  obtain ⟨l, hl, hnd, hmem⟩ := getFfiWith_list F g root
  obtain ⟨l', hl', hnd', hmem'⟩ := getFfiWith_list F' g' root
  rw [hl, hl']
  apply classify_perm
  apply (List.perm_ext_iff_of_nodup hnd' hnd).mpr
  intro f
  rw [hmem, hmem']
  constructor
  · rintro ⟨p, hp, hFp⟩
    have hp' := (reachW_congr hF hI p).mp hp
    exact ⟨p, hp', (hF p hp').symm.trans hFp⟩
  · rintro ⟨p, hp, hFp⟩
    exact ⟨p, (reachW_congr hF hI p).mpr hp, (hF p hp).trans hFp⟩

/-! ### the regenerated table -/

/-- no FFI of the regenerated table is called "none" (the only place the table is looked at) -/
theorem ffiOf_ne_none (p : String) : ffiOf p ≠ some "none" := by
  intro h
  unfold ffiOf at h
  obtain ⟨e, he, h2⟩ := Option.map_eq_some_iff.mp h
  have hmem := List.mem_of_find?_eq_some he
  have hall : ∀ e ∈ GooseVerif.Gen.Ffi.ffiMapping, e.2 ≠ "none" := by decide
  exact hall e hmem h2

/-- `getFfi g root = .ffi "none"` iff no FFI package is reachable. -/
theorem getFfi_none_iff (g : Graph) (root : String) :
    getFfi g root = .ffi "none" ↔ ∀ p, Reach g root p → ffiOf p = none := by
  rw [getFfi_eq_getFfiWith]
  exact getFfiWith_none_iff ffiOf ffiOf_ne_none g root

/-- `getFfi g root = .ffi f` iff the set of reachable FFIs is exactly `{f}`. -/
theorem getFfi_ffi_iff (g : Graph) (root f : String) (hf : f ≠ "none") :
    getFfi g root = .ffi f ↔
      (∃ p, Reach g root p ∧ ffiOf p = some f) ∧
      (∀ p f', Reach g root p → ffiOf p = some f' → f' = f) := by
  rw [getFfi_eq_getFfiWith]
  exact getFfiWith_ffi_iff ffiOf g root f hf

/-- `getFfi g root = .refused` iff two different FFIs are reachable. -/
theorem getFfi_refused_iff (g : Graph) (root : String) :
    getFfi g root = .refused ↔
      ∃ p q f f', Reach g root p ∧ Reach g root q ∧ ffiOf p = some f ∧ ffiOf q = some f' ∧ f ≠ f' := by
  rw [getFfi_eq_getFfiWith]
  exact getFfiWith_refused_iff ffiOf g root

/-- Graphs that agree on the members of the import list of every reachable non-FFI package give the
same result. -/
theorem getFfi_congr {g g' : Graph} {root : String}
    (hI : ∀ q, Reach g root q → ffiOf q = none → ∀ x, x ∈ g'.imports q ↔ x ∈ g.imports q) :
    getFfi g' root = getFfi g root := by
  rw [getFfi_eq_getFfiWith, getFfi_eq_getFfiWith]
  exact getFfiWith_congr (fun _ _ => rfl) hI

/-! ### hidden dependencies do not count -/

/-- Whatever an FFI package imports is irrelevant: any graph that differs from `g` only in the
import lists of FFI packages gives the same result. -/
theorem hidden_dependencies_do_not_count (g g' : Graph) (root : String)
    (h : ∀ q, ffiOf q = none → g'.imports q = g.imports q) :
    getFfi g' root = getFfi g root :=
  getFfi_congr (fun q _ hq x => by rw [h q hq])

/-- …in particular replacing the import list of one FFI package `p` by any list `l`. -/
theorem hidden_dependencies_do_not_count_entry (g : Graph) (root p f : String) (l : List String)
    (hp : ffiOf p = some f) : getFfi ((p, l) :: g) root = getFfi g root := by
  apply hidden_dependencies_do_not_count
  intro q hq
  rw [imports_cons]
  have : p ≠ q := by intro h; subst h; rw [hp] at hq; cases hq
  simp only [this, if_false]

/-- A package `q` that is not reachable (every path to it passes through an FFI package first) does
not influence the result: neither what it imports… -/
theorem unreachable_imports_do_not_count (g : Graph) (root q : String) (l : List String)
    (hq : ¬ Reach g root q) : getFfi ((q, l) :: g) root = getFfi g root := by
  apply getFfi_congr
  intro p hp _ x
  rw [imports_cons]
  have : q ≠ p := by intro h; subst h; exact hq hp
  simp only [this, if_false]

/-- …nor which FFI it is, if any (stated for tables, since `ffiOf` is one fixed table): changing
the table at `q` only leaves the result unchanged. -/
theorem unreachable_ffi_does_not_count (F F' : String → Option String) (g : Graph) (root q : String)
    (hq : ¬ ReachW F g root q) (hFF' : ∀ p, p ≠ q → F' p = F p) :
    getFfiWith F' g root = getFfiWith F g root :=
  getFfiWith_congr (fun p hp => hFF' p (fun h => hq (h ▸ hp))) (fun _ _ _ _ => Iff.rfl)

/-! ### order independence -/

/-- Permuting (or repeating entries within) each import list does not change the result. -/
theorem order_independent_imports (g g' : Graph) (root : String)
    (h : ∀ p, (g'.imports p).Perm (g.imports p)) : getFfi g' root = getFfi g root :=
  getFfi_congr (fun p _ _ _ => (h p).mem_iff)

theorem mem_imports_of_distinct_keys (g : Graph) (hk : g.Pairwise (fun a b => a.1 ≠ b.1)) (p x : String) :
    x ∈ g.imports p ↔ ∃ l, (p, l) ∈ g ∧ x ∈ l := by
  induction g with
  | nil =>
    rw [imports_nil]
    constructor
    · intro h; cases h
    · rintro ⟨_, h, _⟩; cases h
  | cons e g ih =>
    rw [imports_cons]
    have hk' := List.pairwise_cons.mp hk
    by_cases he : e.1 = p
    · simp only [he, if_true]
      constructor
      · intro hx
        refine ⟨e.2, ?_, hx⟩
        rw [← he]
        exact List.mem_cons_self
      · rintro ⟨l, hl, hx⟩
        rcases List.mem_cons.mp hl with hl | hl
        · subst hl; exact hx
        · exact absurd he (hk'.1 _ hl)
    · simp only [he, if_false]
      rw [ih hk'.2]
      constructor
      · rintro ⟨l, hl, hx⟩; exact ⟨l, List.mem_cons_of_mem _ hl, hx⟩
      · rintro ⟨l, hl, hx⟩
        rcases List.mem_cons.mp hl with hl | hl
        · rw [← hl] at he; exact absurd rfl he
        · exact ⟨l, hl, hx⟩

/-- Permuting the entries of a graph whose keys are distinct does not change the result. -/
theorem order_independent_entries (g g' : Graph) (root : String)
    (hk : g.Pairwise (fun a b => a.1 ≠ b.1)) (h : g'.Perm g) : getFfi g' root = getFfi g root := by
  have hk' : g'.Pairwise (fun a b => a.1 ≠ b.1) :=
    (h.pairwise_iff (fun hab => Ne.symm hab)).mpr hk
  apply getFfi_congr
  intro p _ _ x
  rw [mem_imports_of_distinct_keys g hk, mem_imports_of_distinct_keys g' hk']
  constructor
  · rintro ⟨l, hl, hx⟩; exact ⟨l, h.mem_iff.mp hl, hx⟩
  · rintro ⟨l, hl, hx⟩; exact ⟨l, h.mem_iff.mpr hl, hx⟩

/-- Both at once. -/
theorem order_independent (g g' : Graph) (root : String)
    (h : (∀ p, (g'.imports p).Perm (g.imports p)) ∨ (g.Pairwise (fun a b => a.1 ≠ b.1) ∧ g'.Perm g)) :
    getFfi g' root = getFfi g root := by
  rcases h with h | ⟨hk, h⟩
  · exact order_independent_imports g g' root h
  · exact order_independent_entries g g' root hk h

/-! ### non-vacuity: a small table and small graphs, evaluated by the kernel -/

section Examples

/-- a two-FFI table: packages "d1" and "d2" are the FFI "disk", "gr" is the FFI "grove" -/
def exF : String → Option String := fun p =>
  if p = "d1" then some "disk" else if p = "d2" then some "disk" else if p = "gr" then some "grove" else none

/-- "p" reaches "d1" through "h"; "gr" is only imported by the FFI package "d1": hidden. -/
def exG : Graph := [("p", ["h", "x"]), ("h", ["d1", "p"]), ("d1", ["gr"]), ("x", [])]

example : getFfiWith exF exG "p" = .ffi "disk" := by decide
example : ReachW exF exG "p" "d1" :=
  .step (.step .refl (by decide) (by decide : "h" ∈ Graph.imports exG "p")) (by decide) (by decide)
/-- "gr" is hidden: not reachable, by the characterisation of the marked set -/
example : ¬ ReachW exF exG "p" "gr" := by
  rw [← (visitWith_complete_sound exF exG "p" (fuelFor exG) (Nat.le_refl _)).1]
  decide
/-- the hypothesis of `getFfiWith_refused_iff` is satisfiable: both variants of one FFI plus another -/
example : getFfiWith exF [("p", ["d1", "d2", "gr"])] "p" = .refused := by decide
example : getFfiWith exF [("p", ["d1", "d2"])] "p" = .ffi "disk" := by decide
example : getFfiWith exF [("p", ["q"]), ("q", ["p"])] "p" = .ffi "none" := by decide
/-- keys absent from the graph, repeated imports and duplicate keys: the fuel still suffices -/
example : getFfiWith exF [("p", ["a", "a", "b", "a"]), ("p", ["gr"]), ("b", ["a", "c", "d2"])] "p" = .ffi "disk" := by decide
/-- the fuel bound is needed: with less fuel the walk may stop early -/
example : (visitWith exF 2 [("p", ["a", "d1"])] ["p"] ([], [])).2 = [] ∧
    (visitWith exF (fuelFor [("p", ["a", "d1"])]) [("p", ["a", "d1"])] ["p"] ([], [])).2 = ["disk"] := by decide
/-- the real table -/
example : Reach [("p", ["h"]), ("h", ["github.com/mit-pdos/gokv/grove_ffi"])] "p" "github.com/mit-pdos/gokv/grove_ffi" :=
  .step (.step .refl (by decide) (by decide : "h" ∈ Graph.imports _ "p")) (by decide) (by decide)

end Examples

end GooseVerif.Model.Header
