/-
Helper lemmas for `Model/Conc.lean`, part 3: one step of a Go thread against one effect step of the related
GooseLang thread (`ResRel`), statement by statement; then the three facts the pool-level proofs use:
administrative steps keep the relation (`trel_admin`), a related GooseLang thread reaches its effect point
(`trel_reach`), and at an effect point the two step functions agree (`trel_normal`).
-/
import GooseVerif.Lemmas.ConcRel

namespace GooseVerif.Model.Conc
open GooseVerif.Model.Core (W BinOp CmpOp Exp Cond look)

def SpRel : Option Thread → Option TThread → Prop
  | none, none => True
  | some s, some t => TRel s t
  | _, _ => False

/-- The results of one step on the two sides: the same heap, related threads, related spawned threads. -/
inductive ResRel : Res Thread → Res TThread → Prop where
  | ok {h : Heap} {s : Thread} {t : TThread} {sp : Option Thread} {sp' : Option TThread} :
      TRel s t → SpRel sp sp' → ResRel (.ok h s sp) (.ok h t sp')
  | blocked : ResRel .blocked .blocked
  | stuck : ResRel .stuck .stuck

theorem expectKind_ok {Γ : SEnv} {x : String} {k : Kind} {t0 t : T} (h : expectKind Γ x k t0 = .ok t) :
    look x Γ = some k ∧ t = t0 := by
  unfold expectKind at h
  cases hl : look x Γ with
  | none => simp [hl] at h
  | some k' =>
    simp only [hl] at h
    by_cases hk : k' = k
    · simp [hk] at h; exact ⟨by rw [hk], h.symm⟩
    · simp [hk] at h

/-- The state of the Go thread after a statement that is not an `if`, against the GooseLang thread that has
just computed the statement's value `v`. -/
theorem next_rel {ub : Usage} {k : List Frame} {u : Usage} {K : List TFrame} (hk : KRel ub k u K)
    (ret : Option Exp) (hub : ub = botUsage ret) (b : Bind) (cur rest : Stmts) (env env' : Env) (tl : Option T) (v : Val)
    (htl : TailOK (b.scope (senv env)) rest u tl)
    (henv : senv env' = b.scope (senv env)) (hρ : tenv env' = b.bindV v (tenv env)) :
    TRel ((⟨.run, cur, env, k, ret⟩ : Thread).next rest env') ⟨.ret v, b.frames (tenv env) tl ++ K⟩ :=
  after_bind hk ret hub b rest env env' tl v htl henv hρ

/-- **One statement (not an `if`).**  `E` is the GooseLang thread in front of the statement's own expression. -/
theorem stmt_sim {ub : Usage} {k : List Frame} {u : Usage} {K : List TFrame} (hk : KRel ub k u K)
    (ret : Option Exp) (hub : ub = botUsage ret) (s : Stmt) (rest : Stmts) (env : Env) (b : Bind) (tl : Option T)
    (hb : trBind (senv env) s = .ok b) (htl : TailOK (b.scope (senv env)) rest u tl) :
    astep ⟨.eval b.expr (tenv env), b.frames (tenv env) tl ++ K⟩ = none ∧
    ∀ h i ch, ResRel (gstepStmt h i ch ⟨.run, .cons s rest, env, k, ret⟩ rest s)
      (estep .strict h i ch ⟨.eval b.expr (tenv env), b.frames (tenv env) tl ++ K⟩) := by
  cases s with
  | newMutex m =>
    simp only [trBind] at hb; cases hb
    refine ⟨rfl, fun h i ch => ?_⟩
    exact .ok (next_rel hk ret hub _ _ rest env ((m, .mutex h.length) :: env) tl (.loc h.length) htl rfl rfl) trivial
  | newWg w =>
    simp only [trBind] at hb; cases hb
    refine ⟨rfl, fun h i ch => ?_⟩
    exact .ok (next_rel hk ret hub _ _ rest env ((w, .wg h.length) :: env) tl (.loc h.length) htl rfl rfl) trivial
  | newCond c m =>
    simp only [trBind] at hb
    cases he : expectKind (senv env) m .mutex (.prim .newCond m) with
    | error e => simp [he] at hb
    | ok t =>
      simp only [he] at hb; cases hb
      obtain ⟨hl, ht⟩ := expectKind_ok he; subst ht
      obtain ⟨a, h1, h2⟩ := look_mutex hl
      refine ⟨rfl, fun h i ch => ?_⟩
      simp only [gstepStmt, estep, primStep, h1, h2, Bind.expr]
      exact .ok (next_rel hk ret hub _ _ rest env ((c, .cond h.length) :: env) tl (.loc h.length) htl rfl rfl) trivial
  | declare x e =>
    simp only [trBind] at hb
    cases he : trE (senv env) e with
    | error m => simp [he] at hb
    | ok te =>
      simp only [he] at hb; cases hb
      refine ⟨rfl, fun h i ch => ?_⟩
      simp only [gstepStmt, estep, Bind.expr, trE_sound env h e te he]
      cases evalE env h e with
      | none => exact .stuck
      | some w => exact .ok (next_rel hk ret hub _ _ rest env ((x, .cell h.length) :: env) tl (.loc h.length) htl rfl rfl) trivial
  | define y e =>
    simp only [trBind] at hb
    cases he : trE (senv env) e with
    | error m => simp [he] at hb
    | ok te =>
      simp only [he] at hb; cases hb
      refine ⟨rfl, fun h i ch => ?_⟩
      simp only [gstepStmt, estep, Bind.expr, trE_sound env h e te he]
      cases evalE env h e with
      | none => exact .stuck
      | some w => exact .ok (next_rel hk ret hub _ _ rest env ((y, .val w) :: env) tl (.num w) htl rfl rfl) trivial
  | assign x e =>
    simp only [trBind] at hb
    cases he : trE (senv env) e with
    | error m => simp [he] at hb
    | ok te =>
      simp only [he] at hb
      cases hl : look x (senv env) with
      | none => simp [hl] at hb
      | some kd =>
        cases kd <;> simp [hl] at hb
        subst hb
        obtain ⟨a, h1, h2⟩ := look_cell hl
        refine ⟨rfl, fun h i ch => ?_⟩
        simp only [gstepStmt, estep, Bind.expr, trE_sound env h e te he, h1, h2]
        cases evalE env h e with
        | none => exact .stuck
        | some w =>
          simp only [Option.map]
          cases h[a]? with
          | none => exact .stuck
          | some o =>
            cases o with
            | cell _ => exact .ok (next_rel hk ret hub _ _ rest env env tl .unit htl rfl rfl) trivial
            | mutex _ => exact .stuck
            | wg _ => exact .stuck
            | cond _ _ => exact .stuck
  | lock m =>
    simp only [trBind] at hb
    cases he : expectKind (senv env) m .mutex (.prim .acquire m) with
    | error e => simp [he] at hb
    | ok t =>
      simp only [he] at hb; cases hb
      obtain ⟨hl, ht⟩ := expectKind_ok he; subst ht
      obtain ⟨a, h1, h2⟩ := look_mutex hl
      refine ⟨rfl, fun h i ch => ?_⟩
      simp only [gstepStmt, estep, primStep, h1, h2, Bind.expr]
      cases h[a]? with
      | none => exact .stuck
      | some o =>
        cases o with
        | mutex held =>
          cases held with
          | false => exact .ok (next_rel hk ret hub _ _ rest env env tl .unit htl rfl rfl) trivial
          | true => exact .blocked
        | cell _ => exact .stuck
        | wg _ => exact .stuck
        | cond _ _ => exact .stuck
  | unlock m =>
    simp only [trBind] at hb
    cases he : expectKind (senv env) m .mutex (.prim .release m) with
    | error e => simp [he] at hb
    | ok t =>
      simp only [he] at hb; cases hb
      obtain ⟨hl, ht⟩ := expectKind_ok he; subst ht
      obtain ⟨a, h1, h2⟩ := look_mutex hl
      refine ⟨rfl, fun h i ch => ?_⟩
      simp only [gstepStmt, estep, primStep, h1, h2, Bind.expr]
      cases h[a]? with
      | none => exact .stuck
      | some o =>
        cases o with
        | mutex held =>
          cases held with
          | true => exact .ok (next_rel hk ret hub _ _ rest env env tl .unit htl rfl rfl) trivial
          | false => exact .stuck
        | cell _ => exact .stuck
        | wg _ => exact .stuck
        | cond _ _ => exact .stuck
  | wgAdd w n =>
    simp only [trBind] at hb
    cases he : expectKind (senv env) w .wg (.wgAdd w n) with
    | error e => simp [he] at hb
    | ok t =>
      simp only [he] at hb; cases hb
      obtain ⟨hl, ht⟩ := expectKind_ok he; subst ht
      obtain ⟨a, h1, h2⟩ := look_wg hl
      refine ⟨rfl, fun h i ch => ?_⟩
      simp only [gstepStmt, estep, h1, h2, Bind.expr]
      cases h[a]? with
      | none => exact .stuck
      | some o =>
        cases o with
        | wg c => exact .ok (next_rel hk ret hub _ _ rest env env tl .unit htl rfl rfl) trivial
        | cell _ => exact .stuck
        | mutex _ => exact .stuck
        | cond _ _ => exact .stuck
  | wgDone w =>
    simp only [trBind] at hb
    cases he : expectKind (senv env) w .wg (.prim .wgDone w) with
    | error e => simp [he] at hb
    | ok t =>
      simp only [he] at hb; cases hb
      obtain ⟨hl, ht⟩ := expectKind_ok he; subst ht
      obtain ⟨a, h1, h2⟩ := look_wg hl
      refine ⟨rfl, fun h i ch => ?_⟩
      simp only [gstepStmt, estep, primStep, h1, h2, Bind.expr]
      cases h[a]? with
      | none => exact .stuck
      | some o =>
        cases o with
        | wg c =>
          cases c with
          | zero => exact .stuck
          | succ c => exact .ok (next_rel hk ret hub _ _ rest env env tl .unit htl rfl rfl) trivial
        | cell _ => exact .stuck
        | mutex _ => exact .stuck
        | cond _ _ => exact .stuck
  | wgWait w =>
    simp only [trBind] at hb
    cases he : expectKind (senv env) w .wg (.prim .wgWait w) with
    | error e => simp [he] at hb
    | ok t =>
      simp only [he] at hb; cases hb
      obtain ⟨hl, ht⟩ := expectKind_ok he; subst ht
      obtain ⟨a, h1, h2⟩ := look_wg hl
      refine ⟨rfl, fun h i ch => ?_⟩
      simp only [gstepStmt, estep, primStep, h1, h2, Bind.expr]
      cases h[a]? with
      | none => exact .stuck
      | some o =>
        cases o with
        | wg c =>
          cases c with
          | zero => exact .ok (next_rel hk ret hub _ _ rest env env tl .unit htl rfl rfl) trivial
          | succ c => exact .blocked
        | cell _ => exact .stuck
        | mutex _ => exact .stuck
        | cond _ _ => exact .stuck
  | condWait c =>
    simp only [trBind] at hb
    cases he : expectKind (senv env) c .cond (.prim .condWait c) with
    | error e => simp [he] at hb
    | ok t =>
      simp only [he] at hb; cases hb
      obtain ⟨hl, ht⟩ := expectKind_ok he; subst ht
      obtain ⟨a, h1, h2⟩ := look_cond hl
      refine ⟨rfl, fun h i ch => ?_⟩
      simp only [gstepStmt, estep, primStep, h1, h2, Bind.expr]
      cases h[a]? with
      | none => exact .stuck
      | some o =>
        cases o with
        | cond l ws =>
          simp only []
          cases h[l]? with
          | none => exact .stuck
          | some o2 =>
            cases o2 with
            | mutex held =>
              cases held with
              | false => exact .stuck
              | true =>
                refine .ok ?_ trivial
                exact ⟨_, rfl, after_bind hk ret hub _ rest env env tl .unit htl rfl rfl⟩
            | cell _ => exact .stuck
            | wg _ => exact .stuck
            | cond _ _ => exact .stuck
        | cell _ => exact .stuck
        | mutex _ => exact .stuck
        | wg _ => exact .stuck
  | condSignal c =>
    simp only [trBind] at hb
    cases he : expectKind (senv env) c .cond (.prim .condSignal c) with
    | error e => simp [he] at hb
    | ok t =>
      simp only [he] at hb; cases hb
      obtain ⟨hl, ht⟩ := expectKind_ok he; subst ht
      obtain ⟨a, h1, h2⟩ := look_cond hl
      refine ⟨rfl, fun h i ch => ?_⟩
      simp only [gstepStmt, estep, primStep, h1, h2, Bind.expr]
      cases h[a]? with
      | none => exact .stuck
      | some o =>
        cases o with
        | cond l ws =>
          simp only []
          by_cases hw : ws.isEmpty = true
          · simp only [hw, if_true]
            exact .ok (next_rel hk ret hub _ _ rest env env tl .unit htl rfl rfl) trivial
          · simp only [hw]
            by_cases hc : ch < ws.length
            · simp only [hc, if_true]
              exact .ok (next_rel hk ret hub _ _ rest env env tl .unit htl rfl rfl) trivial
            · simp only [hc]
              exact .blocked
        | cell _ => exact .stuck
        | mutex _ => exact .stuck
        | wg _ => exact .stuck
  | condBroadcast c =>
    simp only [trBind] at hb
    cases he : expectKind (senv env) c .cond (.prim .condBroadcast c) with
    | error e => simp [he] at hb
    | ok t =>
      simp only [he] at hb; cases hb
      obtain ⟨hl, ht⟩ := expectKind_ok he; subst ht
      obtain ⟨a, h1, h2⟩ := look_cond hl
      refine ⟨rfl, fun h i ch => ?_⟩
      simp only [gstepStmt, estep, primStep, h1, h2, Bind.expr]
      cases h[a]? with
      | none => exact .stuck
      | some o =>
        cases o with
        | cond l ws => exact .ok (next_rel hk ret hub _ _ rest env env tl .unit htl rfl rfl) trivial
        | cell _ => exact .stuck
        | mutex _ => exact .stuck
        | wg _ => exact .stuck
  | go body =>
    simp only [trBind] at hb
    cases hbody : trStmts (senv env) body .local with
    | error e => simp [hbody] at hb
    | ok tb =>
      simp only [hbody] at hb; cases hb
      refine ⟨rfl, fun h i ch => ?_⟩
      refine .ok (next_rel hk ret hub _ _ rest env env tl .unit htl rfl rfl) ?_
      exact ⟨_, .inl ⟨.local, [], tb, .nil, hbody, rfl, fun _ => rfl⟩, Join.refl _⟩
  | loop c body =>
    simp only [trBind] at hb
    cases hc : trC (senv env) c with
    | error e => simp [hc] at hb
    | ok tc =>
      simp only [hc] at hb
      cases hbody : trStmts (senv env) body .loop with
      | error e => simp [hbody] at hb
      | ok tb =>
        simp only [hbody] at hb; cases hb
        refine ⟨rfl, fun h i ch => ?_⟩
        simp only [gstepStmt, estep, Bind.expr, trC_sound env h c tc hc]
        cases evalC env h c with
        | none => exact .stuck
        | some bv =>
          cases bv with
          | false => exact .ok (next_rel hk ret hub _ _ rest env env tl .unit htl rfl rfl) trivial
          | true =>
            refine .ok ?_ trivial
            have hk' : KRel ub (.loopF c body rest env :: k) .loop
                (.forBodyK tc .skip tb (tenv env) :: (tailFrames (tenv env) tl ++ K)) :=
              .loop c body rest env tc tb tl hk hc hbody htl
            have := block_rest hk' ret hub body env tb hbody
            cases tl <;> exact this
  | ite c thn els => simp [trBind] at hb
  | goCall f => simp [trBind] at hb
  | deferUnlock m => simp [trBind] at hb
  | retVoid => simp [trBind] at hb

theorem branchUsage_of_tail {rest : Stmts} {u : Usage} (h : (rest.isNil && (u.isLocal || u.isLoop)) = true) :
    branchUsage rest u = u ∧ rest = .nil := by
  cases rest with
  | cons _ _ => simp [Stmts.isNil] at h
  | nil => cases u <;> simp_all [branchUsage, Stmts.isNil, Usage.isLocal, Usage.isLoop]

theorem branchUsage_of_seq {rest : Stmts} {u : Usage} (h : (rest.isNil && (u.isLocal || u.isLoop)) = false) :
    branchUsage rest u = .local := by
  cases rest with
  | cons _ _ => simp [branchUsage, Stmts.isNil]
  | nil => cases u <;> simp_all [branchUsage, Stmts.isNil, Usage.isLocal, Usage.isLoop]

/-- **A running Go thread against its canonical GooseLang state**: the canonical state reaches, by
administrative steps only, an effect point `E`, and there the two step functions agree. -/
theorem canon_sim {cur : Stmts} {env : Env} {k : List Frame} {ret : Option Exp} {t0 : TThread}
    (hc : CanonRun cur env k ret t0) :
    ∃ E, AStar t0 E ∧ astep E = none ∧
      (∀ h i ch, ResRel (gstep h i ch ⟨.run, cur, env, k, ret⟩) (estep .strict h i ch E)) ∧
      (ret.isSome = true → E.doneV = none) := by
  rcases hc with ⟨u, K, term, hk, hterm, rfl, hunw⟩ | ⟨rfl, rfl, rfl, v, rfl⟩
  · cases cur with
    | nil =>
      have hk0 := hunw rfl
      subst hk0
      cases hk
      cases ret with
      | none =>
        simp [botUsage, trStmts, fin] at hterm; subst hterm
        exact ⟨⟨.ret .unit, []⟩, .one rfl, rfl, fun h i ch => .blocked, by simp⟩
      | some e =>
        simp only [botUsage, trStmts, fin] at hterm
        cases he : trE (senv env) e with
        | error m => simp [he] at hterm
        | ok te =>
          simp only [he] at hterm; cases hterm
          refine ⟨_, .refl _, rfl, fun h i ch => ?_, fun _ => rfl⟩
          simp only [gstep, estep, trE_sound env h e te he]
          cases evalE env h e with
          | none => exact .stuck
          | some w => exact .ok rfl trivial
    | cons s rest =>
      by_cases hs : ∀ c thn els, s = Stmt.ite c thn els → False
      · obtain ⟨b, tl, hb, htl, rfl⟩ := trStmts_bind_inv hs hterm
        obtain ⟨h1, h2⟩ := stmt_sim hk ret rfl s rest env b tl hb htl
        exact ⟨_, reach_bind b tl (tenv env) K, h1, fun h i ch => h2 h i ch, fun _ => rfl⟩
      · have : ∃ c thn els, s = Stmt.ite c thn els := by
          cases s <;> first | exact ⟨_, _, _, rfl⟩ | (exfalso; apply hs; intro _ _ _ h; cases h)
        obtain ⟨c, thn, els, rfl⟩ := this
        obtain ⟨tc, a, b, hc, ha, hb, hcase⟩ := trStmts_ite_inv hterm
        rcases hcase with ⟨hl, rfl⟩ | ⟨hl, R, hR, rfl⟩
        · obtain ⟨hbu, hrest⟩ := branchUsage_of_tail hl
          subst hrest
          rw [hbu] at ha hb
          have hu : (u.isLocal || u.isLoop) = true := by simpa [Stmts.isNil] using hl
          have hk' : KRel (botUsage ret) (.seqF .nil env :: k) u K := .seqNil env hk hu
          refine ⟨_, .refl _, rfl, fun h i ch => ?_, fun _ => rfl⟩
          simp only [gstep, gstepStmt, estep, trC_sound env h c tc hc]
          cases evalC env h c with
          | none => exact .stuck
          | some bv =>
            cases bv with
            | true => exact .ok (block_rest hk' ret rfl thn env a ha) trivial
            | false => exact .ok (block_rest hk' ret rfl els env b hb) trivial
        · rw [branchUsage_of_seq hl] at ha hb
          have hk' : KRel (botUsage ret) (.seqF rest env :: k) .local (.seqK R (tenv env) :: K) := .seq rest env R hk hl hR
          refine ⟨⟨.eval (.ite tc a b) (tenv env), .seqK R (tenv env) :: K⟩, .one rfl, rfl, fun h i ch => ?_, fun _ => rfl⟩
          simp only [gstep, gstepStmt, estep, trC_sound env h c tc hc]
          cases evalC env h c with
          | none => exact .stuck
          | some bv =>
            cases bv with
            | true => exact .ok (block_rest hk' ret rfl thn env a ha) trivial
            | false => exact .ok (block_rest hk' ret rfl els env b hb) trivial
  · exact ⟨_, .refl _, rfl, fun h i ch => .blocked, by simp⟩

/-! ### the three facts used at the pool level -/

/-- Administrative steps of the GooseLang thread keep the relation (the Go thread does not move). -/
theorem trel_admin {s : Thread} {t t' : TThread} (h : TRel s t) (hs : astep t = some t') : TRel s t' := by
  unfold TRel at h ⊢
  cases hst : s.st with
  | run =>
    simp only [hst] at h ⊢
    obtain ⟨t0, hc, hj⟩ := h
    exact ⟨t0, hc, hj.after_step hs⟩
  | parked c l => simp only [hst] at h; obtain ⟨K', rfl, _⟩ := h; simp [astep] at hs
  | relock l => simp only [hst] at h; obtain ⟨K', rfl, _⟩ := h; simp [astep] at hs
  | done v => simp only [hst] at h; subst h; simp [astep] at hs

/-- At an effect point the two step functions agree. -/
theorem trel_normal {s : Thread} {t : TThread} (h : TRel s t) (hn : astep t = none) (hp : Heap) (i ch : Nat) :
    ResRel (gstep hp i ch s) (estep .strict hp i ch t) := by
  unfold TRel at h
  obtain ⟨st, cur, env, k, ret⟩ := s
  cases st with
  | run =>
    simp only at h
    obtain ⟨t0, hc, hj⟩ := h
    obtain ⟨E, hE, hEn, hsim, _⟩ := canon_sim hc
    have : E = t := by
      obtain ⟨m, h1, h2⟩ := hj
      have hm : m = t := h1.normal_eq hn
      subst hm
      exact AStar.normal_unique hE h2 hEn hn
    subst this
    exact hsim hp i ch
  | parked c l =>
    simp only at h
    obtain ⟨K', rfl, hr⟩ := h
    simp only [gstep, estep]
    cases hp[c]? with
    | none => exact .stuck
    | some o =>
      cases o with
      | cond l' ws =>
        simp only []
        by_cases hw : ws.contains i = true
        · simp only [hw, if_true]; exact .blocked
        · simp only [hw]
          exact .ok ⟨K', rfl, hr⟩ trivial
      | cell _ => exact .stuck
      | mutex _ => exact .stuck
      | wg _ => exact .stuck
  | relock l =>
    simp only at h
    obtain ⟨K', rfl, hr⟩ := h
    simp only [gstep, estep]
    cases hp[l]? with
    | none => exact .stuck
    | some o =>
      cases o with
      | mutex held =>
        cases held with
        | false => exact .ok hr trivial
        | true => exact .blocked
      | cell _ => exact .stuck
      | cond _ _ => exact .stuck
      | wg _ => exact .stuck
  | done v =>
    simp only at h; subst h
    exact .blocked

/-- A related GooseLang thread reaches an effect point (or its end) by administrative steps. -/
theorem trel_reach {s : Thread} {t : TThread} (h : TRel s t) : ∃ E, AStar t E ∧ astep E = none := by
  unfold TRel at h
  cases hst : s.st with
  | run =>
    simp only [hst] at h
    obtain ⟨t0, hc, hj⟩ := h
    obtain ⟨E, hE, hEn, _, _⟩ := canon_sim hc
    exact ⟨E, hj.to_normal hE hEn, hEn⟩
  | parked c l => simp only [hst] at h; obtain ⟨K', rfl, _⟩ := h; exact ⟨_, .refl _, rfl⟩
  | relock l => simp only [hst] at h; obtain ⟨K', rfl, _⟩ := h; exact ⟨_, .refl _, rfl⟩
  | done v => simp only [hst] at h; subst h; exact ⟨_, .refl _, rfl⟩

theorem TThread.doneV_normal {t : TThread} {v : W} (h : t.doneV = some v) : astep t = none ∧ t = ⟨.ret (.num v), []⟩ := by
  obtain ⟨ctl, k⟩ := t
  cases ctl with
  | eval e ρ => simp [TThread.doneV] at h
  | ret x =>
    cases k with
    | cons f k => simp [TThread.doneV] at h
    | nil =>
      cases x <;> simp [TThread.doneV] at h
      subst h; exact ⟨rfl, rfl⟩

/-- The main thread has returned `v` on one side iff it has on the other. -/
theorem trel_doneV {s : Thread} {t : TThread} (h : TRel s t) (hret : s.ret.isSome = true) : t.doneV = s.doneV := by
  obtain ⟨st, cur, env, k, ret⟩ := s
  unfold TRel at h
  cases st with
  | run =>
    simp only at h
    simp only [Thread.doneV]
    cases hd : t.doneV with
    | none => rfl
    | some v =>
      exfalso
      obtain ⟨hn, _⟩ := TThread.doneV_normal hd
      obtain ⟨t0, hc, hj⟩ := h
      obtain ⟨E, hE, hEn, _, hdone⟩ := canon_sim hc
      have : E = t := by
        obtain ⟨m, h1, h2⟩ := hj
        have hm : m = t := h1.normal_eq hn
        subst hm
        exact AStar.normal_unique hE h2 hEn hn
      subst this
      rw [hdone hret] at hd; cases hd
  | parked c l => simp only at h; obtain ⟨K', rfl, _⟩ := h; rfl
  | relock l => simp only at h; obtain ⟨K', rfl, _⟩ := h; rfl
  | done v => simp only at h; subst h; rfl

end GooseVerif.Model.Conc
