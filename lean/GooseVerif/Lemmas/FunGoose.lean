/-
`trGoose` extends `tr`: whatever the strict model accepts, the model of what goose prints accepts with the same
output (`tr_le_trGoose`).  The two differ only in the shapes listed as findings, which `tr` refuses.
-/
import GooseVerif.Lemmas.FunTr

set_option linter.unusedSimpArgs false

namespace GooseVerif.Model.Fun
open GooseVerif.Model.Heap (look)
open GooseVerif.Model.Coll (bindE bindE_ok)

@[simp] theorem bindE_ok_eq {α β : Type} (a : α) (f : α → Except String β) : bindE (.ok a) f = f a := rfl

def LeE (e : Exp) : Prop := ∀ P self Γ t, trE false P self Γ e = .ok t → trE true P self Γ e = .ok t
def LeEs (es : Exps) : Prop := ∀ P self Γ ts, trEs false P self Γ es = .ok ts → trEs true P self Γ es = .ok ts
def LeS (s : Stmt) : Prop := ∀ P self Γ u bf, trInBlock false P self Γ s u = .ok bf → trInBlock true P self Γ s u = .ok bf
def LeSS (ss : Stmts) : Prop := ∀ P self Γ u t, trStmts false P self Γ ss u = .ok t → trStmts true P self Γ ss u = .ok t

theorem le_bin {mk : T → T → T} {a b : Exp} (ha : LeE a) (hb : LeE b) {P : Pkg} {self : String} {Γ : SVars} {t : T}
    (h : bindE (trE false P self Γ a) (fun ta => bindE (trE false P self Γ b) fun tb => .ok (mk ta tb)) = .ok t) :
    bindE (trE true P self Γ a) (fun ta => bindE (trE true P self Γ b) fun tb => .ok (mk ta tb)) = .ok t := by
  obtain ⟨ta, hta, h⟩ := bindE_ok h
  obtain ⟨tb, htb, h⟩ := bindE_ok h
  rw [ha _ _ _ _ hta, hb _ _ _ _ htb]
  exact h

theorem le_un {mk : T → T} {a : Exp} (ha : LeE a) {P : Pkg} {self : String} {Γ : SVars} {t : T}
    (h : bindE (trE false P self Γ a) (fun ta => .ok (mk ta)) = .ok t) :
    bindE (trE true P self Γ a) (fun ta => .ok (mk ta)) = .ok t := by
  obtain ⟨ta, hta, h⟩ := bindE_ok h
  rw [ha _ _ _ _ hta]
  exact h

theorem le_trIf {c : T} {r1 r2 r3 : Bool} {u : Usage} {thn els rem thn' els' rem' : Usage → Except String T} {t : T}
    (h1 : ∀ u t, thn u = .ok t → thn' u = .ok t) (h2 : ∀ u t, els u = .ok t → els' u = .ok t)
    (h3 : ∀ u t, rem u = .ok t → rem' u = .ok t)
    (h : trIf c r1 r2 r3 u thn els rem = .ok t) : trIf c r1 r2 r3 u thn' els' rem' = .ok t := by
  unfold trIf at h ⊢
  cases r1 with
  | true =>
    simp only [if_true] at h ⊢
    obtain ⟨a, ha, h⟩ := bindE_ok h
    obtain ⟨b, hb, h⟩ := bindE_ok h
    rw [h1 _ _ ha, h2 _ _ hb]
    exact h
  | false =>
    simp only [Bool.false_eq_true, if_false] at h ⊢
    cases r2 with
    | true =>
      simp only [if_true] at h ⊢
      obtain ⟨a, ha, h⟩ := bindE_ok h
      rw [h1 _ _ ha]
      simp only [bindE_ok_eq]
      cases r3 with
      | true =>
        simp only [if_true] at h ⊢
        obtain ⟨r, hr, h⟩ := bindE_ok h
        rw [h3 _ _ hr]
        exact h
      | false => simp at h
    | false =>
      simp only [Bool.false_eq_true, if_false] at h ⊢
      obtain ⟨a, ha, h⟩ := bindE_ok h
      obtain ⟨b, hb, h⟩ := bindE_ok h
      obtain ⟨r, hr, h⟩ := bindE_ok h
      rw [h1 _ _ ha, h2 _ _ hb, h3 _ _ hr]
      exact h

theorem le_cons {s : Stmt} {rest : Stmts} (hs : LeS s) (hrest : LeSS rest)
    (hunf : ∀ g P self Γ u, trStmts g P self Γ (.cons s rest) u =
      if rest.isNil then
        bindE (trInBlock g P self Γ s u) fun bf => .ok (if bf.2 then bf.1.addTo true .unit else bf.1.addTo false .unit)
      else
        bindE (trInBlock g P self Γ s .loc) fun bf =>
        bindE (trStmts g P self (bf.1.scope Γ) rest u) fun r => .ok (bf.1.addTo false r))
    {P : Pkg} {self : String} {Γ : SVars} {u : Usage} {t : T}
    (h : trStmts false P self Γ (.cons s rest) u = .ok t) : trStmts true P self Γ (.cons s rest) u = .ok t := by
  rw [hunf] at h ⊢
  by_cases hn : rest.isNil = true
  · simp only [hn, if_true] at h ⊢
    obtain ⟨bf, hbf, h⟩ := bindE_ok h
    rw [hs _ _ _ _ _ hbf]
    exact h
  · simp only [hn, Bool.false_eq_true, if_false] at h ⊢
    obtain ⟨bf, hbf, h⟩ := bindE_ok h
    obtain ⟨r, hr, h⟩ := bindE_ok h
    rw [hs _ _ _ _ _ hbf]
    simp only [bindE_ok_eq]
    rw [hrest _ _ _ _ _ hr]
    exact h

mutual
theorem le_exp : (e : Exp) → LeE e
  | .lit _ => fun _ _ _ _ h => by simpa only [trE] using h
  | .slit _ => fun _ _ _ _ h => by simpa only [trE] using h
  | .blit _ => fun _ _ _ _ h => by simpa only [trE] using h
  | .var _ => fun _ _ _ _ h => by simpa only [trE] using h
  | .fref _ => fun _ _ _ _ h => by simpa only [trE] using h
  | .add a b => fun _ _ _ _ h => by simp only [trE] at h ⊢; exact le_bin (le_exp a) (le_exp b) h
  | .sub a b => fun _ _ _ _ h => by simp only [trE] at h ⊢; exact le_bin (le_exp a) (le_exp b) h
  | .mul a b => fun _ _ _ _ h => by simp only [trE] at h ⊢; exact le_bin (le_exp a) (le_exp b) h
  | .cmp _ a b => fun _ _ _ _ h => by simp only [trE] at h ⊢; exact le_bin (le_exp a) (le_exp b) h
  | .scmp op a b => fun _ _ _ _ h => by
    simp only [trE] at h ⊢
    split at h
    · next hc => rw [if_pos hc]; exact le_bin (le_exp a) (le_exp b) h
    · cases h
  | .slen a => fun _ _ _ _ h => by simp only [trE] at h ⊢; exact le_un (le_exp a) h
  | .toBytes a => fun _ _ _ _ h => by simp only [trE] at h ⊢; exact le_un (le_exp a) h
  | .ofBytes a => fun _ _ _ _ h => by simp only [trE] at h ⊢; exact le_un (le_exp a) h
  | .blen a => fun _ _ _ _ h => by simp only [trE] at h ⊢; exact le_un (le_exp a) h
  | .mk a b => fun _ _ _ _ h => by simp only [trE] at h ⊢; exact le_bin (le_exp a) (le_exp b) h
  | .new a b => fun _ _ _ _ h => by simp only [trE] at h ⊢; exact le_bin (le_exp a) (le_exp b) h
  | .fld _ _ a => fun _ _ _ _ h => by simp only [trE] at h ⊢; exact le_un (le_exp a) h
  | .call f args => fun P self Γ t h => by
    simp only [trE] at h ⊢
    obtain ⟨ts, hts, h⟩ := bindE_ok h
    rw [le_exps args _ _ _ _ hts]
    exact h
  | .mcall v m recv args => fun P self Γ t h => by
    simp only [trE] at h ⊢
    cases hm : findMeth m P with
    | none => simp [hm] at h
    | some d =>
      simp only [hm] at h ⊢
      cases hrc : d.recv with
      | none => simp [hrc] at h
      | some rc =>
        simp only [hrc] at h ⊢
        obtain ⟨tr, htr, h⟩ := bindE_ok h
        obtain ⟨ts, hts, h⟩ := bindE_ok h
        rw [le_exp recv _ _ _ _ htr, le_exps args _ _ _ _ hts]
        simp only [bindE_ok_eq, if_true]
        simp only [Bool.false_eq_true, if_false] at h
        split at h
        · cases h
        · split at h
          · exact h
          · split at h <;> cases h
  | .fn named ps body => fun P self Γ t h => by
    simp only [trE] at h ⊢
    cases named with
    | true => simp at h
    | false =>
      simp only [Bool.false_eq_true, if_false] at h ⊢
      obtain ⟨tb, htb, h⟩ := bindE_ok h
      rw [le_stmts body _ _ _ _ _ htb]
      exact h
theorem le_exps : (es : Exps) → LeEs es
  | .nil => fun _ _ _ _ h => by simpa only [trEs] using h
  | .cons e rest => fun P self Γ ts h => by
    simp only [trEs] at h ⊢
    split at h
    · cases h
    · next hc =>
      rw [if_neg hc]
      obtain ⟨t, ht, h⟩ := bindE_ok h
      obtain ⟨ts', hts, h⟩ := bindE_ok h
      rw [le_exp e _ _ _ _ ht, le_exps rest _ _ _ _ hts]
      exact h
theorem le_stmt : (s : Stmt) → LeS s
  | .ret es => fun P self Γ u bf h => by
    simp only [trInBlock] at h ⊢
    cases u with
    | returned =>
      simp only at h ⊢
      obtain ⟨ts, hts, h⟩ := bindE_ok h
      rw [le_exps es _ _ _ _ hts]
      exact h
    | loc => simp at h
  | .ite c thn els => fun P self Γ u bf h => by
    simp only [trInBlock] at h ⊢
    obtain ⟨tc, htc, h⟩ := bindE_ok h
    obtain ⟨t, ht, h⟩ := bindE_ok h
    rw [le_exp c _ _ _ _ htc]
    simp only [bindE_ok_eq]
    rw [le_trIf (fun u t => le_stmts thn P self Γ u t) (fun u t => le_stmts els P self Γ u t) (fun _ _ h => h) ht]
    exact h
  | .define x e => fun P self Γ u bf h => by
    simp only [trInBlock] at h ⊢
    obtain ⟨t, ht, h⟩ := bindE_ok h
    rw [le_exp e _ _ _ _ ht]
    exact h
  | .declare x ty e => fun P self Γ u bf h => by
    simp only [trInBlock] at h ⊢
    split at h
    · cases h
    · next hc =>
      rw [if_neg hc]
      obtain ⟨t, ht, h⟩ := bindE_ok h
      rw [le_exp e _ _ _ _ ht]
      exact h
  | .assign x e => fun P self Γ u bf h => by
    simp only [trInBlock] at h ⊢
    obtain ⟨t, ht, h⟩ := bindE_ok h
    rw [le_exp e _ _ _ _ ht]
    exact h
  | .defineN xs e => fun P self Γ u bf h => by
    simp only [trInBlock] at h ⊢
    split at h
    · cases h
    · next hc =>
      rw [if_neg hc]
      obtain ⟨t, ht, h⟩ := bindE_ok h
      rw [le_exp e _ _ _ _ ht]
      exact h
  | .setP f p e => fun P self Γ u bf h => by
    simp only [trInBlock] at h ⊢
    obtain ⟨te, hte, h⟩ := bindE_ok h
    obtain ⟨tp, htp, h⟩ := bindE_ok h
    rw [le_exp e _ _ _ _ hte, le_exp p _ _ _ _ htp]
    exact h
  | .setV f v e => fun P self Γ u bf h => by
    simp only [trInBlock] at h ⊢
    obtain ⟨te, hte, h⟩ := bindE_ok h
    rw [le_exp e _ _ _ _ hte]
    simp only [bindE_ok_eq]
    cases hl : look v Γ with
    | none => simp [hl] at h
    | some w =>
      cases w with
      | none => simp [hl] at h
      | some τ =>
        simp only [hl] at h
        exact h
  | .expr e => fun P self Γ u bf h => by
    simp only [trInBlock] at h ⊢
    obtain ⟨t, ht, h⟩ := bindE_ok h
    rw [le_exp e _ _ _ _ ht]
    exact h
theorem le_stmts : (ss : Stmts) → LeSS ss
  | .nil => fun _ _ _ _ _ h => by simpa only [trStmts] using h
  | .cons (.ite c thn els) rest => fun P self Γ u t h => by
    simp only [trStmts] at h ⊢
    obtain ⟨tc, htc, h⟩ := bindE_ok h
    rw [le_exp c _ _ _ _ htc]
    simp only [bindE_ok_eq]
    exact le_trIf (fun u t => le_stmts thn P self Γ u t) (fun u t => le_stmts els P self Γ u t)
      (fun u t => le_stmts rest P self Γ u t) h
  | .cons (.ret es) rest => fun P self Γ u t h => le_cons (le_stmt (.ret es)) (le_stmts rest) (by intros; simp only [trStmts]) h
  | .cons (.define x e) rest => fun P self Γ u t h => le_cons (le_stmt (.define x e)) (le_stmts rest) (by intros; simp only [trStmts]) h
  | .cons (.declare x ty e) rest => fun P self Γ u t h => le_cons (le_stmt (.declare x ty e)) (le_stmts rest) (by intros; simp only [trStmts]) h
  | .cons (.assign x e) rest => fun P self Γ u t h => le_cons (le_stmt (.assign x e)) (le_stmts rest) (by intros; simp only [trStmts]) h
  | .cons (.defineN xs e) rest => fun P self Γ u t h => le_cons (le_stmt (.defineN xs e)) (le_stmts rest) (by intros; simp only [trStmts]) h
  | .cons (.setP f p e) rest => fun P self Γ u t h => le_cons (le_stmt (.setP f p e)) (le_stmts rest) (by intros; simp only [trStmts]) h
  | .cons (.setV f v e) rest => fun P self Γ u t h => le_cons (le_stmt (.setV f v e)) (le_stmts rest) (by intros; simp only [trStmts]) h
  | .cons (.expr e) rest => fun P self Γ u t h => le_cons (le_stmt (.expr e)) (le_stmts rest) (by intros; simp only [trStmts]) h
end

end GooseVerif.Model.Fun

namespace GooseVerif.Model.Fun
open GooseVerif.Model.Coll (bindE bindE_ok)

/-- **`trGoose` extends `tr`**, declaration by declaration and for whole packages. -/
theorem trDecl_le_trDeclGoose (P : Pkg) (d : FuncDecl) (td : String × List String × T) (h : trDecl P d = .ok td) :
    trDeclGoose P d = .ok td := by
  unfold trDecl trDeclX at h
  unfold trDeclGoose trDeclX
  split at h
  · cases h
  · next hc =>
    rw [if_neg hc]
    obtain ⟨tb, htb, h⟩ := bindE_ok h
    unfold trBody at htb ⊢
    rw [le_stmts d.body _ _ _ _ _ htb]
    exact h

theorem trDecls_le (P : Pkg) : (ds : List FuncDecl) → (tds : TPkg) → trDecls false P ds = .ok tds → trDecls true P ds = .ok tds
  | [], tds, h => by simpa only [trDecls] using h
  | d :: r, tds, h => by
    simp only [trDecls] at h ⊢
    obtain ⟨td, htd, h⟩ := bindE_ok h
    obtain ⟨tr, htr, h⟩ := bindE_ok h
    have h1 : trDeclX true P d = .ok td := trDecl_le_trDeclGoose P d td htd
    rw [h1, trDecls_le P r tr htr]
    exact h

theorem tr_le_trGoose (P : Pkg) (TP : TPkg) (h : tr P = .ok TP) : trGoose P = .ok TP := trDecls_le P P TP h

end GooseVerif.Model.Fun
