/-
Helpers for `Props/C05Paren.lean`: the text `print b e` is read back as `e` by the
precedence-climbing reader of `Model/Paren.lean`, for every table.

All statements have the form "for every fuel from `N` on", so that they compose by adding bounds;
`*_mono` (more fuel never changes a `some`) is proved separately at the end.
-/
import GooseVerif.Model.Paren

namespace GooseVerif.Model.Paren

/-! ### Shape of the printed text -/

theorem closed_not_startsSimple {rest : List Tok} (h : Closed rest) : startsSimple rest = false := by
  cases rest with
  | nil => rfl
  | cons t ts => cases t <;> first | rfl | exact absurd h (by simp [Closed])

/-- With `needs_paren = true` the text is one atom or starts with `(`. -/
theorem print_true_cases (e : E) :
    (∃ a, e = E.atom a) ∨ ∃ inner, print true e = Tok.lp :: inner := by
  cases e <;> simp [print, wrap]

theorem startsSimple_print_true (e : E) (rest : List Tok) :
    startsSimple (print true e ++ rest) = true := by
  rcases print_true_cases e with ⟨a, rfl⟩ | ⟨inner, hp⟩
  · simp [print, startsSimple]
  · simp [hp, startsSimple]

section
variable (prec : Nat → Nat) (rassoc : Nat → Bool) (notPrec : Nat)

/-- `e`'s parenthesised text is read as a `simple`, whatever follows, from fuel `N` on. -/
def SimpleFrom (e : E) (N : Nat) : Prop :=
  ∀ fuel, N ≤ fuel → ∀ rest,
    simple prec rassoc notPrec fuel (print true e ++ rest) = some (e, rest)

/-- The text `bd` followed by a closed rest is read as the expression `e`, from fuel `N` on. -/
def ExprFrom (e : E) (bd : List Tok) (N : Nat) : Prop :=
  ∀ fuel, N ≤ fuel → ∀ rest, Closed rest →
    expr prec rassoc notPrec fuel 0 (bd ++ rest) = some (e, rest)

/-- The argument texts are read as the argument list, from fuel `N` on. -/
def ArgsFrom (l : List E) (N : Nat) : Prop :=
  ∀ fuel, N ≤ fuel → ∀ rest, startsSimple rest = false →
    args prec rassoc notPrec fuel (printArgs l ++ rest) = some (l, rest)

/-! ### The reader stops at a closing token -/

theorem loop_closed (f m : Nat) (l : E) {rest : List Tok} (h : Closed rest) :
    loop prec rassoc notPrec (f + 1) m l rest = some (l, rest) := by
  cases rest with
  | nil => simp [loop]
  | cons t ts =>
    cases t with
    | op o => exact absurd h (by simp [Closed])
    | _ => simp [loop]

theorem args_stop (f : Nat) {rest : List Tok} (h : startsSimple rest = false) :
    args prec rassoc notPrec (f + 1) rest = some ([], rest) := by
  simp [args, h]

/-! ### From `simple` to `operand` and `expr` -/

theorem operand_of_simple {e : E} {N : Nat} (h : SimpleFrom prec rassoc notPrec e N) :
    ∀ fuel, N + 2 ≤ fuel → ∀ rest, startsSimple rest = false →
      operand prec rassoc notPrec fuel (print true e ++ rest) = some (e, rest) := by
  intro fuel hf rest hr
  obtain ⟨f, rfl⟩ : ∃ f, fuel = f + 2 := ⟨fuel - 2, by omega⟩
  rcases print_true_cases e with ⟨a, rfl⟩ | ⟨inner, hp⟩
  · simp [print, operand, args_stop prec rassoc notPrec f hr]
  · have h1 := h (f + 1) (by omega) rest
    rw [hp] at h1 ⊢
    simpa [operand] using h1

/-- The parenthesised text of `e`, as an expression at ANY minimal precedence. -/
theorem expr_of_simple {e : E} {N : Nat} (h : SimpleFrom prec rassoc notPrec e N) :
    ∀ fuel, N + 3 ≤ fuel → ∀ m rest, Closed rest →
      expr prec rassoc notPrec fuel m (print true e ++ rest) = some (e, rest) := by
  intro fuel hf m rest hr
  obtain ⟨f, rfl⟩ : ∃ f, fuel = f + 2 := ⟨fuel - 2, by omega⟩
  have h1 := operand_of_simple prec rassoc notPrec h (f + 1) (by omega) rest
    (closed_not_startsSimple hr)
  simp only [expr, h1]
  exact loop_closed prec rassoc notPrec f m e hr

/-- Once the unparenthesised body reads as `e`, the parenthesised text reads as a `simple`. -/
theorem simple_of_body {e : E} {bd : List Tok} {N : Nat}
    (h : ExprFrom prec rassoc notPrec e bd N) (hp : print true e = Tok.lp :: (bd ++ [Tok.rp])) :
    SimpleFrom prec rassoc notPrec e (N + 1) := by
  intro fuel hf rest
  obtain ⟨f, rfl⟩ : ∃ f, fuel = f + 1 := ⟨fuel - 1, by omega⟩
  have h1 := h f (by omega) (Tok.rp :: rest) trivial
  rw [hp]
  simp only [List.cons_append, List.append_assoc, List.nil_append, simple, h1]

/-! ### One lemma per printer shape -/

theorem simple_atom (a : Nat) : SimpleFrom prec rassoc notPrec (E.atom a) 1 := by
  intro fuel hf rest
  obtain ⟨f, rfl⟩ : ∃ f, fuel = f + 1 := ⟨fuel - 1, by omega⟩
  simp [print, simple]

theorem body_bin {o : Nat} {x y : E} {Nx Ny : Nat}
    (hx : SimpleFrom prec rassoc notPrec x Nx) (hy : SimpleFrom prec rassoc notPrec y Ny) :
    ExprFrom prec rassoc notPrec (E.bin o x y) (print true x ++ Tok.op o :: print true y)
      (Nx + Ny + 6) := by
  intro fuel hf rest hr
  obtain ⟨f, rfl⟩ : ∃ f, fuel = f + 3 := ⟨fuel - 3, by omega⟩
  have h1 := operand_of_simple prec rassoc notPrec hx (f + 2) (by omega)
    (Tok.op o :: (print true y ++ rest)) rfl
  have h2 := expr_of_simple prec rassoc notPrec hy (f + 1) (by omega)
    (if rassoc o then prec o else prec o + 1) rest hr
  have h3 := loop_closed prec rassoc notPrec f 0 (E.bin o x y) hr
  simp only [List.append_assoc, List.cons_append]
  rw [expr, h1]
  simp only []
  rw [loop]
  simp only [Nat.zero_le, if_true, h2, h3]

theorem body_not {x : E} {Nx : Nat} (hx : SimpleFrom prec rassoc notPrec x Nx) :
    ExprFrom prec rassoc notPrec (E.not x) (Tok.tilde :: print true x) (Nx + 6) := by
  intro fuel hf rest hr
  obtain ⟨f, rfl⟩ : ∃ f, fuel = f + 3 := ⟨fuel - 3, by omega⟩
  have h2 := expr_of_simple prec rassoc notPrec hx (f + 1) (by omega) notPrec rest hr
  have h3 := loop_closed prec rassoc notPrec (f + 1) 0 (E.not x) hr
  simp only [List.cons_append]
  rw [expr, operand]
  simp only [h2, h3]

theorem body_deref {x : E} {Nx : Nat} (hx : SimpleFrom prec rassoc notPrec x Nx) :
    ExprFrom prec rassoc notPrec (E.deref x) (Tok.bang :: print true x) (Nx + 6) := by
  intro fuel hf rest hr
  obtain ⟨f, rfl⟩ : ∃ f, fuel = f + 4 := ⟨fuel - 4, by omega⟩
  have h2 := hx (f + 1) (by omega) rest
  have h3 := loop_closed prec rassoc notPrec (f + 2) 0 (E.deref x) hr
  simp only [List.cons_append]
  rw [expr, operand, simple]
  simp only [h2, h3]

theorem body_ite {c t e : E} {Nc Nt Ne : Nat}
    (hc : ExprFrom prec rassoc notPrec c (print false c) Nc)
    (ht : ExprFrom prec rassoc notPrec t (print false t) Nt)
    (he : ExprFrom prec rassoc notPrec e (print false e) Ne) :
    ExprFrom prec rassoc notPrec (E.ite c t e)
      (Tok.kif :: (print false c ++ Tok.kthen :: (print false t ++ Tok.kelse :: print false e)))
      (Nc + Nt + Ne + 3) := by
  intro fuel hf rest hr
  obtain ⟨f, rfl⟩ : ∃ f, fuel = f + 2 := ⟨fuel - 2, by omega⟩
  have h1 := hc f (by omega) (Tok.kthen :: (print false t ++ Tok.kelse :: (print false e ++ rest)))
    trivial
  have h2 := ht f (by omega) (Tok.kelse :: (print false e ++ rest)) trivial
  have h3 := he f (by omega) rest hr
  have h4 := loop_closed prec rassoc notPrec f 0 (E.ite c t e) hr
  simp only [List.cons_append, List.append_assoc]
  rw [expr, operand]
  simp only [h1, h2, h3, h4]

theorem args_nil : ArgsFrom prec rassoc notPrec [] 1 := by
  intro fuel hf rest hr
  obtain ⟨f, rfl⟩ : ∃ f, fuel = f + 1 := ⟨fuel - 1, by omega⟩
  simpa [printArgs] using args_stop prec rassoc notPrec f hr

theorem args_cons {a : E} {as : List E} {Na Nas : Nat}
    (ha : SimpleFrom prec rassoc notPrec a Na) (has : ArgsFrom prec rassoc notPrec as Nas) :
    ArgsFrom prec rassoc notPrec (a :: as) (Na + Nas + 1) := by
  intro fuel hf rest hr
  obtain ⟨f, rfl⟩ : ∃ f, fuel = f + 1 := ⟨fuel - 1, by omega⟩
  have h1 := ha f (by omega) (printArgs as ++ rest)
  have h2 := has f (by omega) rest hr
  have h0 := startsSimple_print_true a (printArgs as ++ rest)
  simp only [printArgs, List.append_assoc]
  rw [args]
  simp only [h0, if_true, h1, h2]

theorem body_app {g : Nat} {a : E} {as : List E} {N : Nat}
    (h : ArgsFrom prec rassoc notPrec (a :: as) N) :
    ExprFrom prec rassoc notPrec (E.app g a as) (Tok.atom g :: (print true a ++ printArgs as))
      (N + 3) := by
  intro fuel hf rest hr
  obtain ⟨f, rfl⟩ : ∃ f, fuel = f + 2 := ⟨fuel - 2, by omega⟩
  have h1 := h f (by omega) rest (closed_not_startsSimple hr)
  have h3 := loop_closed prec rassoc notPrec f 0 (E.app g a as) hr
  simp only [printArgs, List.append_assoc] at h1
  simp only [List.cons_append, List.append_assoc]
  rw [expr, operand]
  simp only [h1, h3]

/-! ### The induction -/

/-- What is proved of every tree: from some fuel on, the parenthesised text is a `simple` and the
unparenthesised text is an expression (at minimal precedence 0, before a closed rest). -/
def Reads (e : E) : Prop :=
  ∃ N, SimpleFrom prec rassoc notPrec e N ∧ ExprFrom prec rassoc notPrec e (print false e) N

theorem SimpleFrom.weaken {e : E} {N M : Nat} (h : SimpleFrom prec rassoc notPrec e N)
    (hm : N ≤ M) : SimpleFrom prec rassoc notPrec e M :=
  fun fuel hf rest => h fuel (by omega) rest

theorem ExprFrom.weaken {e : E} {bd : List Tok} {N M : Nat}
    (h : ExprFrom prec rassoc notPrec e bd N) (hm : N ≤ M) :
    ExprFrom prec rassoc notPrec e bd M :=
  fun fuel hf rest hr => h fuel (by omega) rest hr

/-- Shapes `addParens(needs_paren, body)`: the body is the unparenthesised text. -/
theorem reads_of_body {e : E} {bd : List Tok} {N : Nat}
    (h : ExprFrom prec rassoc notPrec e bd N)
    (hf : print false e = bd) (ht : print true e = Tok.lp :: (bd ++ [Tok.rp])) :
    Reads prec rassoc notPrec e :=
  ⟨N + 1, simple_of_body prec rassoc notPrec h ht,
    hf ▸ ExprFrom.weaken prec rassoc notPrec h (by omega)⟩

/-- Shapes that always print their own parentheses. -/
theorem reads_of_own_parens {e : E} {bd : List Tok} {N : Nat}
    (h : ExprFrom prec rassoc notPrec e bd N)
    (hf : print false e = print true e) (ht : print true e = Tok.lp :: (bd ++ [Tok.rp])) :
    Reads prec rassoc notPrec e := by
  have hs := simple_of_body prec rassoc notPrec h ht
  refine ⟨N + 4, SimpleFrom.weaken prec rassoc notPrec hs (by omega), ?_⟩
  intro fuel hfu rest hr
  rw [hf]
  exact expr_of_simple prec rassoc notPrec hs fuel (by omega) 0 rest hr

mutual
theorem reads : (e : E) → Reads prec rassoc notPrec e
  | .atom a => by
    have hs := simple_atom prec rassoc notPrec a
    refine ⟨4, SimpleFrom.weaken prec rassoc notPrec hs (by omega), ?_⟩
    intro fuel hfu rest hr
    exact expr_of_simple prec rassoc notPrec hs fuel (by omega) 0 rest hr
  | .bin o x y => by
    obtain ⟨Nx, hx, _⟩ := reads x
    obtain ⟨Ny, hy, _⟩ := reads y
    exact reads_of_body prec rassoc notPrec (body_bin prec rassoc notPrec (o := o) hx hy)
      (by simp [print, wrap]) (by simp [print, wrap])
  | .not x => by
    obtain ⟨Nx, hx, _⟩ := reads x
    exact reads_of_own_parens prec rassoc notPrec (body_not prec rassoc notPrec hx)
      (by simp [print]) (by simp [print])
  | .app g a as => by
    obtain ⟨Na, ha, _⟩ := reads a
    obtain ⟨Nas, has⟩ := readsArgs as
    exact reads_of_body prec rassoc notPrec
      (body_app prec rassoc notPrec (g := g) (args_cons prec rassoc notPrec ha has))
      (by simp [print, wrap]) (by simp [print, wrap])
  | .ite c t e => by
    obtain ⟨Nc, _, hc⟩ := reads c
    obtain ⟨Nt, _, ht⟩ := reads t
    obtain ⟨Ne, _, he⟩ := reads e
    exact reads_of_own_parens prec rassoc notPrec (body_ite prec rassoc notPrec hc ht he)
      (by simp [print]) (by simp [print])
  | .deref x => by
    obtain ⟨Nx, hx, _⟩ := reads x
    exact reads_of_body prec rassoc notPrec (body_deref prec rassoc notPrec hx)
      (by simp [print, wrap]) (by simp [print, wrap])
theorem readsArgs : (l : List E) → ∃ N, ArgsFrom prec rassoc notPrec l N
  | [] => ⟨1, args_nil prec rassoc notPrec⟩
  | a :: as => by
    obtain ⟨Na, ha, _⟩ := reads a
    obtain ⟨Nas, has⟩ := readsArgs as
    exact ⟨_, args_cons prec rassoc notPrec ha has⟩
end

/-- Both printed forms, as a top-level expression before a closed rest. -/
theorem print_expr (e : E) (b : Bool) :
    ∃ N, ∀ fuel, N ≤ fuel → ∀ rest, Closed rest →
      expr prec rassoc notPrec fuel 0 (print b e ++ rest) = some (e, rest) := by
  obtain ⟨N, hs, he⟩ := reads prec rassoc notPrec e
  cases b with
  | false => exact ⟨N, he⟩
  | true =>
    exact ⟨N + 3, fun fuel hf rest hr =>
      expr_of_simple prec rassoc notPrec hs fuel hf 0 rest hr⟩

/-! ### Fuel monotonicity -/

/-- One more unit of fuel never changes a result, for the five mutually recursive readers. -/
def MonoAt (f : Nat) : Prop :=
  (∀ m ts r, expr prec rassoc notPrec f m ts = some r → expr prec rassoc notPrec (f + 1) m ts = some r) ∧
  (∀ m l ts r, loop prec rassoc notPrec f m l ts = some r → loop prec rassoc notPrec (f + 1) m l ts = some r) ∧
  (∀ ts r, operand prec rassoc notPrec f ts = some r → operand prec rassoc notPrec (f + 1) ts = some r) ∧
  (∀ ts r, simple prec rassoc notPrec f ts = some r → simple prec rassoc notPrec (f + 1) ts = some r) ∧
  (∀ ts r, args prec rassoc notPrec f ts = some r → args prec rassoc notPrec (f + 1) ts = some r)

theorem monoAt (f : Nat) : MonoAt prec rassoc notPrec f := by
  induction f with
  | zero => simp [MonoAt, expr, loop, operand, simple, args]
  | succ f ih =>
    obtain ⟨ihe, ihl, iho, ihs, iha⟩ := ih
    refine ⟨?_, ?_, ?_, ?_, ?_⟩
    · intro m ts r h
      rw [expr.eq_def] at h ⊢
      grind
    · intro m l ts r h
      rw [loop.eq_def] at h ⊢
      grind
    · intro ts r h
      cases ts with
      | nil => simp [operand] at h
      | cons t ts1 =>
        cases t with
        | kif =>
          simp only [operand] at h ⊢
          split at h
          · rename_i c ts2 h1
            rw [ihe _ _ _ h1]
            simp only []
            split at h
            · rename_i t ts3 h2
              rw [ihe _ _ _ h2]
              simp only []
              split at h
              · rename_i e ts4 h3
                rw [ihe _ _ _ h3]
                exact h
              · simp at h
            · simp at h
          · simp at h
        | _ => simp only [operand] at h ⊢ <;> grind
    · intro ts r h
      rw [simple.eq_def] at h ⊢
      grind
    · intro ts r h
      rw [args.eq_def] at h ⊢
      grind

theorem expr_mono {f f' m : Nat} {ts : List Tok} {r : E × List Tok} (hf : f ≤ f')
    (h : expr prec rassoc notPrec f m ts = some r) : expr prec rassoc notPrec f' m ts = some r := by
  induction hf with
  | refl => exact h
  | step _ ih => exact (monoAt prec rassoc notPrec _).1 m ts r ih

end

end GooseVerif.Model.Paren
