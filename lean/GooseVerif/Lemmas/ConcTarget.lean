/-
Helper lemmas for `Model/Conc.lean`, part 7: deadlock and stuck on the GooseLang side, with decidable checks for
concrete configurations (used by the mutation witnesses), and the mutants themselves.
-/
import GooseVerif.Lemmas.ConcExplore
import GooseVerif.Lemmas.ConcPerennial

namespace GooseVerif.Model.Conc
open GooseVerif.Model.Core (W BinOp CmpOp Exp Cond look)

/-- Deadlock: the main thread has not returned and no label is enabled. -/
def TDeadlock (mode : Mode) (d : TCfg) : Prop := mainDone TThread.doneV d = none ∧ ∀ lab, tcstep mode d lab = .blocked

/-- Some thread has no rule to apply. -/
def TStuck (mode : Mode) (d : TCfg) : Prop := ∃ lab, tcstep mode d lab = .stuck

theorem primStep_ch {mode : Mode} {h : Heap} {m : Nat} (hm : maxW h ≤ m) (i : Nat) {ch ch' : Nat} (h1 : m ≤ ch) (h2 : m ≤ ch')
    (k : List TFrame) (a : Nat) (p : Prim) : primStep mode h i ch k a p = primStep mode h i ch' k a p := by
  cases p <;> try rfl
  simp only [primStep]
  cases hh : h[a]? with
  | none => rfl
  | some o =>
    cases o <;> try rfl
    rename_i l ws
    simp only []
    cases mode with
    | perennial => rfl
    | strict =>
      simp only []
      have hw := maxW_ge hh
      by_cases he : ws.isEmpty = true
      · simp [he]
      · have c1 : ¬ ch < ws.length := by omega
        have c2 : ¬ ch' < ws.length := by omega
        simp [he, c1, c2]

theorem tstep_ch {mode : Mode} {h : Heap} {m : Nat} (hm : maxW h ≤ m) (i : Nat) {ch ch' : Nat} (h1 : m ≤ ch) (h2 : m ≤ ch')
    (t : TThread) : tstep mode h i ch t = tstep mode h i ch' t := by
  unfold tstep
  cases astep t with
  | some _ => rfl
  | none =>
    simp only []
    obtain ⟨ctl, k⟩ := t
    cases ctl with
    | ret v => rfl
    | eval e ρ =>
      cases e <;> try rfl
      rename_i p x
      simp only [estep]
      cases look x ρ with
      | none => rfl
      | some v =>
        cases v <;> try rfl
        exact primStep_ch hm i h1 h2 _ _ _

theorem tcstep_ch {mode : Mode} {d : TCfg} {m : Nat} (hm : maxW d.heap ≤ m) (i : Nat) {ch ch' : Nat} (h1 : m ≤ ch) (h2 : m ≤ ch') :
    tcstep mode d (i, ch) = tcstep mode d (i, ch') := by
  unfold tcstep poolStep
  cases mainDone TThread.doneV d with
  | some _ => rfl
  | none =>
    simp only []
    cases d.threads[i]? with
    | none => rfl
    | some t => simp only [tstep_ch hm i h1 h2 t]

def labelsT (d : TCfg) : List Label := labelsOf (maxW d.heap + 1) d

theorem label_normT (mode : Mode) (d : TCfg) (lab : Label) :
    tcstep mode d lab = .blocked ∨ ∃ lab' ∈ labelsT d, tcstep mode d lab = tcstep mode d lab' := by
  obtain ⟨i, ch⟩ := lab
  by_cases hi : i < d.threads.length
  · by_cases hc : ch < maxW d.heap + 1
    · exact .inr ⟨(i, ch), mem_labelsOf hi hc, rfl⟩
    · refine .inr ⟨(i, maxW d.heap), mem_labelsOf hi (Nat.lt_succ_self _), ?_⟩
      exact tcstep_ch (Nat.le_refl _) i (by omega) (Nat.le_refl _)
  · left
    unfold tcstep poolStep
    cases mainDone TThread.doneV d with
    | some _ => rfl
    | none =>
      simp only []
      rw [List.getElem?_eq_none (by omega)]

def tdeadlockB (mode : Mode) (d : TCfg) : Bool :=
  (mainDone TThread.doneV d).isNone && (labelsT d).all fun lab =>
    match tcstep mode d lab with
    | .blocked => true
    | _ => false

theorem tdeadlockB_sound {mode : Mode} {d : TCfg} (h : tdeadlockB mode d = true) : TDeadlock mode d := by
  simp only [tdeadlockB, Bool.and_eq_true, List.all_eq_true] at h
  obtain ⟨h1, h2⟩ := h
  refine ⟨by simpa using h1, fun lab => ?_⟩
  rcases label_normT mode d lab with hb | ⟨lab', hmem, heq⟩
  · exact hb
  · rw [heq]
    have := h2 lab' hmem
    cases hs : tcstep mode d lab' with
    | blocked => rfl
    | ok _ => simp [hs] at this
    | stuck => simp [hs] at this

/-- Does the schedule lead the emitted term to a deadlock? -/
def deadlocksB (mode : Mode) (t : T) (sched : List Label) : Bool :=
  match trun mode (tinit t) sched with
  | some d => tdeadlockB mode d
  | none => false

theorem deadlocksB_sound {mode : Mode} {t : T} {sched : List Label} (h : deadlocksB mode t sched = true) :
    ∃ d, trun mode (tinit t) sched = some d ∧ TDeadlock mode d := by
  unfold deadlocksB at h
  cases hr : trun mode (tinit t) sched with
  | none => simp [hr] at h
  | some d => simp only [hr] at h; exact ⟨d, rfl, tdeadlockB_sound h⟩

/-- Does the schedule make the emitted term return `v`? -/
def returnsB (mode : Mode) (t : T) (sched : List Label) (v : W) : Bool :=
  match trun mode (tinit t) sched with
  | some d => mainDone TThread.doneV d == some v
  | none => false

theorem returnsB_sound {mode : Mode} {t : T} {sched : List Label} {v : W} (h : returnsB mode t sched v = true) :
    ∃ d, trun mode (tinit t) sched = some d ∧ mainDone TThread.doneV d = some v := by
  unfold returnsB at h
  cases hr : trun mode (tinit t) sched with
  | none => simp [hr] at h
  | some d => simp only [hr] at h; exact ⟨d, rfl, by simpa using h⟩

/-- The same for the Go side. -/
def goReturnsB (p : Prog) (sched : List Label) (v : W) : Bool :=
  match grun (ginit p) sched with
  | some c => mainDone Thread.doneV c == some v
  | none => false

theorem goReturnsB_sound {p : Prog} {sched : List Label} {v : W} (h : goReturnsB p sched v = true) :
    ∃ c, grun (ginit p) sched = some c ∧ mainDone Thread.doneV c = some v := by
  unfold goReturnsB at h
  cases hr : grun (ginit p) sched with
  | none => simp [hr] at h
  | some c => simp only [hr] at h; exact ⟨c, rfl, by simpa using h⟩

def goDeadlocksB (p : Prog) (sched : List Label) : Bool :=
  match grun (ginit p) sched with
  | some c => deadlockB c
  | none => false

/-- Schedules in run-length form: `(i, n)` = `n` steps of thread `i`, all with choice 0. -/
def expand : List (Nat × Nat) → List Label
  | [] => []
  | (i, n) :: r => List.replicate n (i, 0) ++ expand r

/-- The translation of an accepted program. -/
def trOf (p : Prog) : T :=
  match tr p with
  | .ok t => t
  | .error _ => .unit

def accepted (p : Prog) : Bool :=
  match tr p with
  | .ok _ => true
  | .error _ => false

theorem tr_of_accepted {p : Prog} (h : accepted p = true) : tr p = .ok (trOf p) := by
  unfold accepted at h
  unfold trOf
  cases ht : tr p with
  | ok t => rfl
  | error m => simp [ht] at h

/-! ### mutants of the translation -/

/-- MUTANT: `Broadcast` translated as `Signal`. -/
def mutBroadcastAsSignal : T → T
  | .prim .condBroadcast x => .prim .condSignal x
  | .letE x a b => .letE x (mutBroadcastAsSignal a) (mutBroadcastAsSignal b)
  | .seq a b => .seq (mutBroadcastAsSignal a) (mutBroadcastAsSignal b)
  | .ite c a b => .ite c (mutBroadcastAsSignal a) (mutBroadcastAsSignal b)
  | .forLoop c p b => .forLoop c (mutBroadcastAsSignal p) (mutBroadcastAsSignal b)
  | .fork b => .fork (mutBroadcastAsSignal b)
  | t => t

/-- MUTANT: `wg.Add(n)` dropped (translated as `#()`). -/
def mutDropAdd : T → T
  | .wgAdd _ _ => .unit
  | .letE x a b => .letE x (mutDropAdd a) (mutDropAdd b)
  | .seq a b => .seq (mutDropAdd a) (mutDropAdd b)
  | .ite c a b => .ite c (mutDropAdd a) (mutDropAdd b)
  | .forLoop c p b => .forLoop c (mutDropAdd p) (mutDropAdd b)
  | .fork b => .fork (mutDropAdd b)
  | t => t

/-- MUTANT: `go func() { b }()` translated as a synchronous call of the body (no `Fork`). -/
def mutForkAsCall : T → T
  | .fork b => mutForkAsCall b
  | .letE x a b => .letE x (mutForkAsCall a) (mutForkAsCall b)
  | .seq a b => .seq (mutForkAsCall a) (mutForkAsCall b)
  | .ite c a b => .ite c (mutForkAsCall a) (mutForkAsCall b)
  | .forLoop c p b => .forLoop c (mutForkAsCall p) (mutForkAsCall b)
  | t => t

/-- MUTANT: the cell of the captured variable `x` is COPIED at the `Fork` (capture by value):
`Fork b` becomes `let: "x" := ref_to uint64T (![uint64T] "x") in Fork b`. -/
def mutCopyCaptured (x : String) : T → T
  | .fork b => .letE x (.refTo (.load x)) (.fork (mutCopyCaptured x b))
  | .letE y a b => .letE y (mutCopyCaptured x a) (mutCopyCaptured x b)
  | .seq a b => .seq (mutCopyCaptured x a) (mutCopyCaptured x b)
  | .ite c a b => .ite c (mutCopyCaptured x a) (mutCopyCaptured x b)
  | .forLoop c p b => .forLoop c (mutCopyCaptured x p) (mutCopyCaptured x b)
  | t => t

end GooseVerif.Model.Conc
