import GooseVerif.Model.Disk

namespace GooseVerif.Model.Disk

/-! ### list facts about blocks laid out in a file -/

theorem goCopy_same_length (dst src : Bytes) (h : src.length = dst.length) : goCopy dst src = src := by
  unfold goCopy
  rw [← h, List.take_length, List.drop_eq_nil_of_le (by omega)]
  simp

theorem goCopy_length (dst src : Bytes) : (goCopy dst src).length = dst.length := by
  unfold goCopy
  simp only [List.length_append, List.length_take, List.length_drop]
  omega

def AllLen (bs : Nat) (r : List Bytes) : Prop := ∀ x ∈ r, x.length = bs

theorem allLen_set {bs : Nat} {r : List Bytes} (h : AllLen bs r) (a : Nat) (v : Bytes) (hv : v.length = bs) :
    AllLen bs (r.set a v) := by
  intro x hx
  rcases List.mem_or_eq_of_mem_set hx with h1 | h1
  · exact h x h1
  · rw [h1]; exact hv

theorem allLen_replicate (bs n : Nat) : AllLen bs (List.replicate n (List.replicate bs (0 : UInt8))) := by
  intro x hx
  rw [List.mem_replicate] at hx
  rw [hx.2]; simp

theorem flatten_length {bs : Nat} (r : List Bytes) (h : AllLen bs r) : r.flatten.length = r.length * bs := by
  induction r with
  | nil => simp
  | cons x xs ih =>
    have hx : x.length = bs := h x (by simp)
    have := ih (fun y hy => h y (by simp [hy]))
    simp only [List.flatten_cons, List.length_append, List.length_cons, this, hx]
    rw [Nat.add_mul]; omega

theorem pread_flatten {bs : Nat} (r : List Bytes) (h : AllLen bs r) (a : Nat) (ha : a < r.length) :
    pread r.flatten (a * bs) bs = r[a] := by
  induction r generalizing a with
  | nil => simp at ha
  | cons x xs ih =>
    have hx : x.length = bs := h x (by simp)
    have hxs : AllLen bs xs := fun y hy => h y (by simp [hy])
    cases a with
    | zero =>
      simp only [pread, Nat.zero_mul, List.drop_zero, List.flatten_cons, List.getElem_cons_zero]
      rw [List.take_append_of_le_length (by omega), ← hx, List.take_length]
    | succ k =>
      have hk : k < xs.length := by simpa using ha
      have := ih hxs k hk
      simp only [pread, List.flatten_cons, List.getElem_cons_succ] at this ⊢
      rw [show (k + 1) * bs = x.length + k * bs by rw [Nat.add_mul, hx]; omega]
      rw [List.drop_length_add_append]
      exact this

theorem pwrite_flatten {bs : Nat} (r : List Bytes) (h : AllLen bs r) (a : Nat) (ha : a < r.length)
    (v : Bytes) (hv : v.length = bs) :
    pwrite r.flatten (a * bs) v = (r.set a v).flatten := by
  induction r generalizing a with
  | nil => simp at ha
  | cons x xs ih =>
    have hx : x.length = bs := h x (by simp)
    have hxs : AllLen bs xs := fun y hy => h y (by simp [hy])
    cases a with
    | zero =>
      simp only [pwrite, Nat.zero_mul, List.take_zero, List.flatten_cons, List.set_cons_zero,
        List.nil_append, Nat.zero_sub, List.replicate_zero, Nat.zero_add]
      rw [hv, ← hx, List.drop_append_of_le_length (by omega), List.drop_length]
      simp
    | succ k =>
      have hk : k < xs.length := by simpa using ha
      have ih' := ih hxs k hk
      have hfl := flatten_length xs hxs
      have hkb : k * bs + bs ≤ xs.flatten.length := by
        rw [hfl]
        calc k * bs + bs = (k + 1) * bs := by rw [Nat.add_mul]; omega
          _ ≤ xs.length * bs := Nat.mul_le_mul_right bs (by omega)
      simp only [pwrite, List.flatten_cons, List.set_cons_succ] at ih' ⊢
      rw [show (k + 1) * bs = x.length + k * bs by rw [Nat.add_mul, hx]; omega]
      rw [← ih']
      have e1 : List.take (x.length + k * bs) (x ++ xs.flatten) = x ++ List.take (k * bs) xs.flatten :=
        List.take_length_add_append _
      have e2 : List.drop (x.length + k * bs + v.length) (x ++ xs.flatten) = List.drop (k * bs + v.length) xs.flatten := by
        rw [Nat.add_assoc]; exact List.drop_length_add_append _
      have e3 : x.length + k * bs - (x ++ xs.flatten).length = 0 := by
        simp only [List.length_append]; omega
      have e4 : k * bs - xs.flatten.length = 0 := by omega
      rw [e1, e2, e3, e4]
      simp

/-! ### generic refinement: an implementation simulating the register array -/

/-- `Sim` relates an implementation state with the registers it represents. -/
structure Refines {σ : Type} (bs : Nat) (I : Impl σ) (Sim : σ → Regs → Prop) : Prop where
  readTo : ∀ s r a buf, Sim s r → buf.length = bs → I.readTo s a buf = (specImpl bs).readTo r a buf
  write : ∀ s r a v, Sim s r →
    (I.write s a v = none ∧ (specImpl bs).write r a v = none) ∨
    (∃ s' r', I.write s a v = some s' ∧ (specImpl bs).write r a v = some r' ∧ Sim s' r')
  size : ∀ s r, Sim s r → I.size s = (specImpl bs).size r

/-- The op respects the documented precondition "a Block is `bs` bytes" for `ReadTo` buffers.
(Wrong-sized *write* buffers are inside the property: they must be refused.) -/
def validOp (bs : Nat) (h : Heap) : Op → Bool
  | .readTo _ b => match h.get b with
    | some buf => buf.length == bs
    | none => true
  | _ => true

/-- Validity of a whole history, evaluated along the specification's run. -/
def validRun (bs : Nat) (r : Regs × Heap) : List Op → Bool
  | [] => true
  | op :: ops => validOp bs r.2 op && validRun bs (step bs (specImpl bs) r op).1 ops

theorem step_refines {σ : Type} {bs : Nat} {I : Impl σ} {Sim : σ → Regs → Prop} (R : Refines bs I Sim)
    (s : σ) (r : Regs) (h : Heap) (op : Op) (hs : Sim s r) (hv : validOp bs h op = true) :
    (step bs I (s, h) op).2 = (step bs (specImpl bs) (r, h) op).2 ∧
    (step bs I (s, h) op).1.2 = (step bs (specImpl bs) (r, h) op).1.2 ∧
    Sim (step bs I (s, h) op).1.1 (step bs (specImpl bs) (r, h) op).1.1 := by
  cases op with
  | newbuf len fill => simp [step, hs]
  | poke b i v =>
    simp only [step]
    split
    · split <;> simp [hs]
    · simp [hs]
  | peek b => simp only [step]; split <;> simp [hs]
  | read a =>
    simp only [step]
    rw [R.readTo s r a _ hs (by simp)]
    split <;> simp [hs]
  | readTo a b =>
    simp only [step]
    cases hb : Heap.get h b with
    | none => simp [hs]
    | some buf =>
      simp only [validOp, hb] at hv
      have hl : buf.length = bs := by simpa using hv
      simp only []
      rw [R.readTo s r a buf hs hl]
      split <;> simp [hs]
  | write a b =>
    simp only [step]
    cases hb : Heap.get h b with
    | none => simp [hs]
    | some buf =>
      simp only []
      rcases R.write s r a buf hs with ⟨h1, h2⟩ | ⟨s', r', h1, h2, h3⟩
      · rw [h1, h2]; simp [hs]
      · rw [h1, h2]; simp [h3]
  | size => simp [step, hs, R.size s r hs]
  | barrier => simp [step, hs]

theorem run_refines {σ : Type} {bs : Nat} {I : Impl σ} {Sim : σ → Regs → Prop} (R : Refines bs I Sim)
    (ops : List Op) (s : σ) (r : Regs) (h : Heap) (hs : Sim s r) (hv : validRun bs (r, h) ops = true) :
    (run bs I (s, h) ops).2 = (run bs (specImpl bs) (r, h) ops).2 ∧
    (run bs I (s, h) ops).1.2 = (run bs (specImpl bs) (r, h) ops).1.2 ∧
    Sim (run bs I (s, h) ops).1.1 (run bs (specImpl bs) (r, h) ops).1.1 := by
  induction ops generalizing s r h with
  | nil => simp [run, hs]
  | cons op ops ih =>
    simp only [validRun, Bool.and_eq_true] at hv
    obtain ⟨h1, h2, h3⟩ := step_refines R s r h op hs hv.1
    simp only [run]
    generalize hA : step bs I (s, h) op = A at h1 h2 h3 ⊢
    generalize hB : step bs (specImpl bs) (r, h) op = B at h1 h2 h3 hv ⊢
    obtain ⟨⟨s1, hp1⟩, o1⟩ := A
    obtain ⟨⟨r1, hp2⟩, o2⟩ := B
    simp only at h1 h2 h3 hv ⊢
    subst h1 h2
    have := ih s1 r1 hp1 h3 hv.2
    exact ⟨by rw [this.1], this.2.1, this.2.2⟩

/-! ### MemDisk refines the register array -/

def MemSim (bs : Nat) (s : List Bytes) (r : Regs) : Prop := s = r ∧ AllLen bs r

theorem mem_refines' (bs : Nat) : Refines bs (memImpl bs) (MemSim bs) where
  readTo := by
    rintro s r a buf ⟨rfl, hall⟩ hb
    simp only [memImpl, specImpl]
    cases hget : s[a]? with
    | none => rfl
    | some blk =>
      have : blk.length = bs := hall blk (List.mem_of_getElem? hget)
      simp [hb, goCopy_same_length buf blk (by omega)]
  write := by
    rintro s r a v ⟨rfl, hall⟩
    simp only [memImpl, specImpl]
    by_cases hv : v.length = bs
    · cases hget : s[a]? with
      | none =>
        left
        have : ¬ a < s.length := by
          intro hlt; rw [List.getElem?_eq_getElem hlt] at hget; cases hget
        simp [hv, this]
      | some blk =>
        right
        have hlt : a < s.length := by
          rcases Nat.lt_or_ge a s.length with h | h
          · exact h
          · rw [List.getElem?_eq_none h] at hget; cases hget
        have hblk : blk.length = bs := hall blk (List.mem_of_getElem? hget)
        refine ⟨s.set a (goCopy blk v), s.set a v, by simp [hv], by simp [hv, hlt], ?_, allLen_set hall a v hv⟩
        rw [goCopy_same_length blk v (by omega)]
    · left; simp [hv]
  size := by rintro s r ⟨rfl, _⟩; rfl

/-! ### FileDisk refines the register array -/

def FileSim (bs : Nat) (d : FileSt) (r : Regs) : Prop :=
  d.file = r.flatten ∧ AllLen bs r ∧ d.numBlocks = r.length

theorem file_refines' (bs : Nat) : Refines bs (fileImpl bs) (FileSim bs) where
  readTo := by
    rintro d r a buf ⟨hf, hall, hn⟩ hb
    simp only [fileImpl, specImpl]
    by_cases ha : a < r.length
    · rw [List.getElem?_eq_getElem ha]
      have h1 : ¬ a ≥ d.numBlocks := by omega
      simp only [hb, ne_eq, not_true_eq_false, ↓reduceIte, h1, hf]
      rw [pread_flatten r hall a ha]
      have hlen : r[a].length = bs := hall _ (List.getElem_mem ha)
      rw [goCopy_same_length buf r[a] (by rw [hlen, hb])]
      simp [hlen]
    · rw [List.getElem?_eq_none (by omega)]
      have h1 : a ≥ d.numBlocks := by omega
      simp [hb, h1]
  write := by
    rintro d r a v ⟨hf, hall, hn⟩
    simp only [fileImpl, specImpl]
    by_cases hv : v.length = bs
    · by_cases ha : a < r.length
      · right
        have h1 : ¬ a ≥ d.numBlocks := by omega
        refine ⟨{ d with file := pwrite d.file (a * bs) v }, r.set a v, by simp [hv, h1], by simp [hv, ha], ?_, allLen_set hall a v hv, by simp [hn]⟩
        simp only [hf]
        exact pwrite_flatten r hall a ha v hv
      · left
        have h1 : a ≥ d.numBlocks := by omega
        simp [hv, h1, ha]
    · left; simp [hv]
  size := by rintro d r ⟨_, _, hn⟩; exact hn

/-! ### opening an image of any previous length (C11) -/

theorem ftruncate_length (file : Bytes) (n : Nat) : (ftruncate file n).length = n := by
  simp only [ftruncate, List.length_append, List.length_take, List.length_replicate]; omega

theorem fileOpen_length (bs : Nat) (img : Bytes) (n : Nat) : (fileOpen bs img n).file.length = n * bs := by
  unfold fileOpen
  split
  · exact ftruncate_length _ _
  · rename_i h; simpa using h

theorem fileOpen_numBlocks (bs : Nat) (img : Bytes) (n : Nat) : (fileOpen bs img n).numBlocks = n := by
  unfold fileOpen; split <;> rfl

/-- Byte `i` of the opened file: the old byte if it existed and is retained, zero otherwise. -/
theorem fileOpen_getElem (bs : Nat) (img : Bytes) (n i : Nat) (hi : i < n * bs) :
    (fileOpen bs img n).file[i]? = some (img.getD i 0) := by
  unfold fileOpen
  split
  · simp only [ftruncate]
    by_cases h : i < img.length
    · rw [List.getElem?_append_left (by simp; omega)]
      simp [hi, h, List.getD_eq_getElem?_getD]
    · rw [List.getElem?_append_right (by simp; omega)]
      simp only [List.length_take]
      rw [List.getElem?_replicate, if_pos (by omega)]
      simp [List.getD_eq_getElem?_getD, List.getElem?_eq_none (Nat.le_of_not_lt h)]
  · rename_i hl
    have hl' : img.length = n * bs := by simpa using hl
    simp [List.getD_eq_getElem?_getD, List.getElem?_eq_getElem (show i < img.length by omega)]

/-- Chunking: every file whose length is `n * bs` is the flattening of its `n` blocks. -/
theorem flatten_fileBlocks (bs : Nat) (d : FileSt) (h : d.file.length = d.numBlocks * bs) :
    (fileBlocks bs d).flatten = d.file ∧ AllLen bs (fileBlocks bs d) ∧ (fileBlocks bs d).length = d.numBlocks := by
  obtain ⟨file, n⟩ := d
  simp only at h
  refine ⟨?_, ?_, by simp [fileBlocks]⟩
  · simp only [fileBlocks]
    induction n generalizing file with
    | zero =>
      have : file = [] := List.eq_nil_of_length_eq_zero (by simpa using h)
      simp [this]
    | succ k ih =>
      rw [List.range_succ_eq_map, List.map_cons, List.map_map, List.flatten_cons]
      have hk : (file.drop bs).length = k * bs := by
        simp only [List.length_drop, h, Nat.add_mul]; omega
      have := ih (file.drop bs) hk
      have e : (List.map ((fun a => pread file (a * bs) bs) ∘ Nat.succ) (List.range k)) =
               (List.map (fun a => pread (file.drop bs) (a * bs) bs) (List.range k)) := by
        apply List.map_congr_left
        intro a _
        simp only [Function.comp, pread, Nat.succ_eq_add_one, List.drop_drop]
        rw [show bs + a * bs = (a + 1) * bs by rw [Nat.add_mul]; omega]
      rw [e, this]
      simp [pread]
  · intro x hx
    simp only [fileBlocks, List.mem_map, List.mem_range] at hx
    obtain ⟨a, ha, rfl⟩ := hx
    simp only [pread, List.length_take, List.length_drop, h]
    have : (a + 1) * bs ≤ n * bs := Nat.mul_le_mul_right bs (by omega)
    rw [Nat.add_mul] at this
    omega

theorem fileSim_of_length (bs : Nat) (d : FileSt) (h : d.file.length = d.numBlocks * bs) :
    FileSim bs d (fileBlocks bs d) := by
  obtain ⟨h1, h2, h3⟩ := flatten_fileBlocks bs d h
  exact ⟨h1.symm, h2, h3.symm⟩

end GooseVerif.Model.Disk

namespace GooseVerif.Model.Disk

theorem sparse_refines' (bs : Nat) : Refines bs (sparseImpl bs)
    (fun sp r => r.length = sp.size ∧ AllLen bs r ∧ ∀ a, a < sp.size → r[a]? = some (sp.lookup bs a)) where
  readTo := by
    rintro sp r a buf ⟨hlen, hall, hget⟩ hb
    simp only [sparseImpl, specImpl]
    by_cases ha : a < sp.size
    · rw [hget a ha]; simp [ha, hb]
    · rw [List.getElem?_eq_none (by omega)]; simp [ha]
  write := by
    rintro sp r a v ⟨hlen, hall, hget⟩
    simp only [sparseImpl, specImpl]
    by_cases hc : v.length = bs ∧ a < sp.size
    · right
      refine ⟨{ sp with writes := (a, v) :: sp.writes }, r.set a v, by simp [hc], by simp [hc, hlen], by simp [hlen], allLen_set hall a v hc.1, ?_⟩
      intro a' ha'
      simp only at ha'
      by_cases h : a = a'
      · subst h
        simp [Sparse.lookup, hlen, ha']
      · have := hget a' ha'
        simp only [Sparse.lookup, List.find?_cons] at this ⊢
        have hne : ((a, v).1 == a') = false := by simpa using h
        rw [hne, List.getElem?_set_ne h]
        exact this
    · left
      have : ¬ (v.length = bs ∧ a < r.length) := by rw [hlen]; exact hc
      simp [hc, this]
  size := by rintro sp r ⟨hlen, _, _⟩; exact hlen.symm

theorem fileBlocks_new (bs n : Nat) : fileBlocks bs (fileOpen bs [] n) = specInit bs n := by
  have hn := fileOpen_numBlocks bs [] n
  apply List.ext_getElem?
  intro a
  simp only [fileBlocks, specInit, hn, List.getElem?_map, List.getElem?_replicate]
  by_cases ha : a < n
  · rw [List.getElem?_range ha]
    simp only [ha, ↓reduceIte, Option.map_some, Option.some.injEq]
    apply List.ext_getElem?
    intro j
    simp only [pread, List.getElem?_take, List.getElem?_drop, List.getElem?_replicate]
    by_cases hj : j < bs
    · have : a * bs + j < n * bs := by
        have : (a + 1) * bs ≤ n * bs := Nat.mul_le_mul_right bs (by omega)
        rw [Nat.add_mul] at this; omega
      simp only [hj, ↓reduceIte]
      rw [fileOpen_getElem bs [] n _ this]; simp
    · simp [hj]
  · rw [List.getElem?_eq_none (by simp; omega)]
    simp [ha]

theorem fileBlocks_open (bs : Nat) (img : Bytes) (n : Nat) :
    fileBlocks bs (fileOpen bs img n) = regsOfImage bs img n := by
  have hn := fileOpen_numBlocks bs img n
  apply List.ext_getElem?
  intro a
  simp only [fileBlocks, regsOfImage, hn, List.getElem?_map]
  by_cases ha : a < n
  · rw [List.getElem?_range ha]
    simp only [Option.map_some, Option.some.injEq]
    apply List.ext_getElem?
    intro j
    simp only [pread, List.getElem?_take, List.getElem?_drop, List.getElem?_map]
    by_cases hj : j < bs
    · have : a * bs + j < n * bs := by
        have : (a + 1) * bs ≤ n * bs := Nat.mul_le_mul_right bs (by omega)
        rw [Nat.add_mul] at this; omega
      rw [List.getElem?_range hj]
      simp only [hj, ↓reduceIte, Option.map_some]
      rw [fileOpen_getElem bs img n _ this]
    · have e : (List.range bs)[j]? = none := List.getElem?_eq_none (by simp; omega)
      simp [hj, e]
  · have e : (List.range n)[a]? = none := List.getElem?_eq_none (by simp; omega)
    simp [e]

theorem fileOpen_same (bs : Nat) (d : FileSt) (h : d.file.length = d.numBlocks * bs) :
    fileOpen bs (fileClose d) d.numBlocks = d := by
  simp [fileOpen, fileClose, h]

/-- Blocks of an image given as the flattening of registers: retained ones are kept, new ones zero. -/
theorem regsOfImage_flatten (bs : Nat) (r : Regs) (hall : AllLen bs r) (m : Nat) :
    regsOfImage bs r.flatten m = r.take m ++ List.replicate (m - r.length) (List.replicate bs 0) := by
  apply List.ext_getElem?
  intro a
  simp only [regsOfImage, List.getElem?_map]
  by_cases ha : a < m
  · rw [List.getElem?_range ha]
    simp only [Option.map_some]
    by_cases har : a < r.length
    · rw [List.getElem?_append_left (by simp; omega), List.getElem?_take_of_lt ha, List.getElem?_eq_getElem har]
      congr 1
      have := pread_flatten r hall a har
      rw [← this]
      apply List.ext_getElem?
      intro j
      simp only [pread, List.getElem?_map, List.getElem?_take, List.getElem?_drop]
      by_cases hj : j < bs
      · rw [List.getElem?_range hj]
        have hlt : a * bs + j < r.flatten.length := by
          rw [flatten_length r hall]
          have : (a + 1) * bs ≤ r.length * bs := Nat.mul_le_mul_right bs (by omega)
          rw [Nat.add_mul] at this; omega
        simp [hj, List.getD_eq_getElem?_getD, List.getElem?_eq_getElem hlt]
      · have e : (List.range bs)[j]? = none := List.getElem?_eq_none (by simp; omega)
        simp [hj, e]
    · rw [List.getElem?_append_right (by simp; omega)]
      simp only [List.length_take, List.getElem?_replicate]
      rw [if_pos (by omega)]
      congr 1
      apply List.ext_getElem?
      intro j
      simp only [List.getElem?_map, List.getElem?_replicate]
      by_cases hj : j < bs
      · rw [List.getElem?_range hj]
        have hge : r.flatten.length ≤ a * bs + j := by
          rw [flatten_length r hall]
          have : r.length * bs ≤ a * bs := Nat.mul_le_mul_right bs (by omega)
          omega
        simp [hj, List.getD_eq_getElem?_getD, List.getElem?_eq_none hge]
      · have e : (List.range bs)[j]? = none := List.getElem?_eq_none (by simp; omega)
        simp [hj, e]
  · have e : (List.range m)[a]? = none := List.getElem?_eq_none (by simp; omega)
    have e2 : (r.take m ++ List.replicate (m - r.length) (List.replicate bs (0 : UInt8)))[a]? = none :=
      List.getElem?_eq_none (by simp; omega)
    simp [e, e2]

/-! ### the transfer loop of `ReadTo` (repair 256b1fc) against an OS that returns short counts -/

theorem pread_length (file : Bytes) (off len : Nat) : (pread file off len).length = min len (file.length - off) := by
  simp [pread]

theorem pread_append (file : Bytes) (off a b : Nat) :
    pread file off a ++ pread file (off + a) b = pread file off (a + b) := by
  simp only [pread]
  rw [← List.drop_drop]
  exact (List.take_add (l := file.drop off) (i := a) (j := b)).symm

/-- With enough calls and enough bytes in the file the loop returns exactly the block, however few bytes each call hands over. -/
theorem readLoop_complete (file : Bytes) (off len : Nat) (ks : List Nat) (n : Nat)
    (hfile : off + len ≤ file.length) (hn : n ≤ len) (hk : len - n ≤ ks.length) :
    readLoop file off len ks (pread file off n) = some (pread file off len) := by
  induction ks generalizing n with
  | nil =>
    have : n = len := by simp at hk; omega
    subst this
    simp [readLoop, pread_length]; omega
  | cons k ks ih =>
    have hl : (pread file off n).length = n := by rw [pread_length]; omega
    unfold readLoop
    by_cases hdone : n = len
    · subst hdone; simp [hl]
    · simp only [hl, hdone, ↓reduceIte]
      have hpos : 0 < min (k + 1) (len - n) := by omega
      have hgot : (pread file (off + n) (min (k + 1) (len - n))).length = min (k + 1) (len - n) := by
        rw [pread_length]; omega
      simp only [hgot]
      rw [if_neg (by omega), pread_append]
      apply ih
      · omega
      · simp at hk; omega

/-- A block that lies (partly) beyond the end of the file: the loop never reports success, whatever the OS hands over per call. -/
theorem readLoop_short_file (file : Bytes) (off len : Nat) (ks : List Nat) (acc : Bytes)
    (hfile : file.length < off + len) (hacc : off + acc.length ≤ file.length) :
    readLoop file off len ks acc = none := by
  induction ks generalizing acc with
  | nil => simp [readLoop]; omega
  | cons k ks ih =>
    unfold readLoop
    rw [if_neg (by omega)]
    simp only
    split
    · rfl
    · apply ih
      rw [List.length_append, pread_length]
      omega

end GooseVerif.Model.Disk
