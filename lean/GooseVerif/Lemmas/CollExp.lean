/-
Helper lemmas for the collections theorem, part 2: EXPRESSIONS and right-hand sides.  If the translator
accepts `e`, the static environment knows which names are cells, and Go evaluates `e` to `v` with heap `G'`,
then the translation evaluates — in the flattened environment, on the translated heap — to `toT v` with
heap `heapT G'`.
-/
import GooseVerif.Lemmas.Coll

set_option linter.unusedSimpArgs false

namespace GooseVerif.Model.Coll
open GooseVerif.Model.Heap (look lookStk bindStk Res ofOpt Res.bind_ok ofOpt_ok)

def SoundE (e : Exp) : Prop :=
  ∀ (grow : Nat → Nat → Nat) (ord : List (Nat × Nat) → List (Nat × Nat)) (Γ : SEnv) (st : Stack) (G : GHeap)
    (t : T) (τ : Ty) (v : Val) (G' : GHeap),
    trE Γ e = .ok (t, τ) → FlagsOK st Γ → evalE st G e = .ok (v, G') →
    evalT grow ord (envOf st) (heapT G) t = some (toT v, heapT G')

theorem sound_lit (n : Nat) : SoundE (.lit n) := by
  intro grow ord Γ st G t τ v G' htr _ hgo
  simp [trE] at htr
  simp [evalE] at hgo
  obtain ⟨rfl, _⟩ := htr
  obtain ⟨rfl, rfl⟩ := hgo
  simp [evalT, toT, asNumT, asBoolT, asRef, asSlT, asPair]

theorem sound_blit (b : Bool) : SoundE (.blit b) := by
  intro grow ord Γ st G t τ v G' htr _ hgo
  simp [trE] at htr
  simp [evalE] at hgo
  obtain ⟨rfl, _⟩ := htr
  obtain ⟨rfl, rfl⟩ := hgo
  simp [evalT, toT, asNumT, asBoolT, asRef, asSlT, asPair]

theorem sound_var (x : String) : SoundE (.var x) := by
  intro grow ord Γ st G t τ v G' htr hfl hgo
  simp only [evalE] at hgo
  obtain ⟨b, hb, hgo⟩ := go_opt hgo
  try dsimp only at hgo
  have hlk := hfl.lookup x
  have henv := look_envOf x st
  rw [hb] at hlk henv
  simp only [trE] at htr
  match hw : lookStk x Γ with
  | none => simp [hw] at htr
  | some (true, σ) =>
    simp [hw] at htr
    obtain ⟨rfl, _⟩ := htr
    rw [hw] at hlk
    cases b with
    | val w => simp [Bnd.isCell] at hlk
    | cell o =>
      simp only [] at hgo
      obtain ⟨w, hw', hgo⟩ := go_opt hgo
      try dsimp only at hgo
      simp at hgo
      obtain ⟨rfl, rfl⟩ := hgo
      simp [evalT, henv, Bnd.toT, asRef, hw']
  | some (false, σ) =>
    simp [hw] at htr
    obtain ⟨rfl, _⟩ := htr
    rw [hw] at hlk
    cases b with
    | cell o => simp [Bnd.isCell] at hlk
    | val w =>
      simp at hgo
      obtain ⟨rfl, rfl⟩ := hgo
      simp [evalT, henv, Bnd.toT, asNumT, asBoolT, asRef, asSlT, asPair]

/-- the three arithmetic/comparison forms have the same shape -/
theorem sound_arith (a b : Exp) (iha : SoundE a) (ihb : SoundE b) :
    SoundE (.add a b) ∧ SoundE (.mul a b) ∧ ∀ op, SoundE (.cmp op a b) := by
  refine ⟨?_, ?_, ?_⟩
  · intro grow ord Γ st G t τ v G' htr hfl hgo
    simp only [trE] at htr
    obtain ⟨ta, hta, htr⟩ := tr_expect htr
    obtain ⟨tb, htb, htr⟩ := tr_expect htr
    simp at htr
    obtain ⟨rfl, _⟩ := htr
    simp only [evalE] at hgo
    obtain ⟨n, G1, h1, hgo⟩ := go_num hgo
    try dsimp only at hgo
    obtain ⟨m, G2, h2, hgo⟩ := go_num hgo
    try dsimp only at hgo
    simp at hgo
    obtain ⟨rfl, rfl⟩ := hgo
    simp [evalT, ihb grow ord Γ st G tb .u64 _ G1 htb hfl h1, iha grow ord Γ st G1 ta .u64 _ G2 hta hfl h2, toT, asNumT, asBoolT, asRef, asSlT, asPair]
  · intro grow ord Γ st G t τ v G' htr hfl hgo
    simp only [trE] at htr
    obtain ⟨ta, hta, htr⟩ := tr_expect htr
    obtain ⟨tb, htb, htr⟩ := tr_expect htr
    simp at htr
    obtain ⟨rfl, _⟩ := htr
    simp only [evalE] at hgo
    obtain ⟨n, G1, h1, hgo⟩ := go_num hgo
    try dsimp only at hgo
    obtain ⟨m, G2, h2, hgo⟩ := go_num hgo
    try dsimp only at hgo
    simp at hgo
    obtain ⟨rfl, rfl⟩ := hgo
    simp [evalT, ihb grow ord Γ st G tb .u64 _ G1 htb hfl h1, iha grow ord Γ st G1 ta .u64 _ G2 hta hfl h2, toT, asNumT, asBoolT, asRef, asSlT, asPair]
  · intro op grow ord Γ st G t τ v G' htr hfl hgo
    simp only [trE] at htr
    obtain ⟨ta, hta, htr⟩ := tr_expect htr
    obtain ⟨tb, htb, htr⟩ := tr_expect htr
    simp at htr
    obtain ⟨rfl, _⟩ := htr
    simp only [evalE] at hgo
    obtain ⟨n, G1, h1, hgo⟩ := go_num hgo
    try dsimp only at hgo
    obtain ⟨m, G2, h2, hgo⟩ := go_num hgo
    try dsimp only at hgo
    simp at hgo
    obtain ⟨rfl, rfl⟩ := hgo
    simp [evalT, ihb grow ord Γ st G tb .u64 _ G1 htb hfl h1, iha grow ord Γ st G1 ta .u64 _ G2 hta hfl h2, toT, asNumT, asBoolT, asRef, asSlT, asPair]

theorem sound_mkMap (d : Bool) : SoundE (.mkMap d) := by
  intro grow ord Γ st G t τ v G' htr _ hgo
  simp [trE] at htr
  simp [evalE] at hgo
  obtain ⟨rfl, _⟩ := htr
  obtain ⟨rfl, rfl⟩ := hgo
  simp [evalT, toT, Obj.mapCell]

theorem sound_asM (m : Exp) (ih : SoundE m) : SoundE (.asM m) := by
  intro grow ord Γ st G t τ v G' htr hfl hgo
  simp only [trE] at htr
  obtain ⟨tm, τm, htm, htr⟩ := tr_expectMap htr
  simp at htr
  obtain ⟨rfl, _⟩ := htr
  simp only [evalE] at hgo
  exact ih grow ord Γ st G tm τm v G' htm hfl hgo

theorem sound_mapGet (m k : Exp) (ihm : SoundE m) (ihk : SoundE k) : SoundE (.mapGet m k) := by
  intro grow ord Γ st G t τ v G' htr hfl hgo
  simp only [trE] at htr
  obtain ⟨tm, τm, htm, htr⟩ := tr_expectMap htr
  obtain ⟨tk, htk, htr⟩ := tr_expect htr
  simp at htr
  obtain ⟨rfl, _⟩ := htr
  simp only [evalE] at hgo
  obtain ⟨key, G1, h1, hgo⟩ := go_num hgo
  try dsimp only at hgo
  obtain ⟨o, G2, h2, hgo⟩ := go_map hgo
  try dsimp only at hgo
  obtain ⟨es, hes, hgo⟩ := go_opt hgo
  try dsimp only at hgo
  simp at hgo
  obtain ⟨rfl, rfl⟩ := hgo
  have e1 := ihk grow ord Γ st G tk .u64 _ G1 htk hfl h1
  have e2 := ihm grow ord Γ st G1 tm τm _ G2 htm hfl h2
  simp only [evalT, e1, e2, Option.bind_some, asNumT_toT_num, asRef_toT_map, getMap_heapT, hes]
  cases mapFind es key <;> simp [asPair, toT, asNumT, asBoolT, asRef, asSlT, asPair]

theorem sound_mapLen (m : Exp) (ihm : SoundE m) : SoundE (.mapLen m) := by
  intro grow ord Γ st G t τ v G' htr hfl hgo
  simp only [trE] at htr
  obtain ⟨tm, τm, htm, htr⟩ := tr_expectMap htr
  simp at htr
  obtain ⟨rfl, _⟩ := htr
  simp only [evalE] at hgo
  obtain ⟨o, G2, h2, hgo⟩ := go_map hgo
  try dsimp only at hgo
  obtain ⟨es, hes, hgo⟩ := go_opt hgo
  try dsimp only at hgo
  simp at hgo
  obtain ⟨rfl, rfl⟩ := hgo
  have e2 := ihm grow ord Γ st G tm τm _ G2 htm hfl h2
  simp [evalT, e2, hes, toT, asNumT, asBoolT, asRef, asSlT, asPair]

theorem sound_mkSlice (n : Exp) (ih : SoundE n) : SoundE (.mkSlice n) := by
  intro grow ord Γ st G t τ v G' htr hfl hgo
  simp only [trE] at htr
  obtain ⟨tn, htn, htr⟩ := tr_expect htr
  simp at htr
  obtain ⟨rfl, _⟩ := htr
  simp only [evalE] at hgo
  obtain ⟨k, G1, h1, hgo⟩ := go_num hgo
  try dsimp only at hgo
  have e1 := ih grow ord Γ st G tn .u64 _ G1 htn hfl h1
  by_cases hk : k = 0
  · simp [hk] at hgo
    obtain ⟨rfl, rfl⟩ := hgo
    simp [evalT, e1, hk, toT, Ptr.toB, asNumT, asSlT]
  · simp [hk] at hgo
    obtain ⟨rfl, rfl⟩ := hgo
    simp [evalT, e1, hk, toT, Ptr.toB, Obj.mapCell, asNumT, asSlT]

theorem sound_mkSliceCap (n c : Exp) (ihn : SoundE n) (ihc : SoundE c) : SoundE (.mkSliceCap n c) := by
  intro grow ord Γ st G t τ v G' htr hfl hgo
  simp only [trE] at htr
  obtain ⟨tn, htn, htr⟩ := tr_expect htr
  obtain ⟨tc, htc, htr⟩ := tr_expect htr
  simp at htr
  obtain ⟨rfl, _⟩ := htr
  simp only [evalE] at hgo
  obtain ⟨cp, G1, h1, hgo⟩ := go_num hgo
  try dsimp only at hgo
  obtain ⟨k, G2, h2, hgo⟩ := go_num hgo
  try dsimp only at hgo
  have e1 := ihc grow ord Γ st G tc .u64 _ G1 htc hfl h1
  have e2 := ihn grow ord Γ st G1 tn .u64 _ G2 htn hfl h2
  by_cases hlt : cp < k
  · simp [hlt] at hgo
  · by_cases hz : cp = 0
    · subst hz
      have hk0 : k = 0 := by omega
      subst hk0
      simp at hgo
      obtain ⟨rfl, rfl⟩ := hgo
      simp [evalT, e1, e2, toT, Ptr.toB, asNumT, asSlT]
    · simp [hlt, hz] at hgo
      obtain ⟨rfl, rfl⟩ := hgo
      simp [evalT, e1, e2, hlt, hz, toT, Ptr.toB, Obj.mapCell, asNumT, asSlT]

theorem sound_idx (s i : Exp) (ihs : SoundE s) (ihi : SoundE i) : SoundE (.idx s i) := by
  intro grow ord Γ st G t τ v G' htr hfl hgo
  simp only [trE] at htr
  obtain ⟨ts, hts, htr⟩ := tr_expect htr
  obtain ⟨ti, hti, htr⟩ := tr_expect htr
  simp at htr
  obtain ⟨rfl, _⟩ := htr
  simp only [evalE] at hgo
  obtain ⟨k, G1, h1, hgo⟩ := go_num hgo
  try dsimp only at hgo
  obtain ⟨p, l, c, G2, h2, hgo⟩ := go_sl hgo
  try dsimp only at hgo
  have e1 := ihi grow ord Γ st G ti .u64 _ G1 hti hfl h1
  have e2 := ihs grow ord Γ st G1 ts .sl _ G2 hts hfl h2
  by_cases hk : k < l
  · simp only [hk, if_true] at hgo
    obtain ⟨x, hx, hgo⟩ := go_opt hgo
    try dsimp only at hgo
    simp at hgo
    obtain ⟨rfl, rfl⟩ := hgo
    simp [evalT, e1, e2, hk, hx, toT, asNumT, asBoolT, asRef, asSlT, asPair]
  · simp [hk] at hgo

theorem sound_len_cap (s : Exp) (ihs : SoundE s) : SoundE (.len s) ∧ SoundE (.cap s) := by
  refine ⟨?_, ?_⟩
  · intro grow ord Γ st G t τ v G' htr hfl hgo
    simp only [trE] at htr
    obtain ⟨ts, hts, htr⟩ := tr_expect htr
    simp at htr
    obtain ⟨rfl, _⟩ := htr
    simp only [evalE] at hgo
    obtain ⟨p, l, c, G2, h2, hgo⟩ := go_sl hgo
    try dsimp only at hgo
    simp at hgo
    obtain ⟨rfl, rfl⟩ := hgo
    simp [evalT, ihs grow ord Γ st G ts .sl _ G2 hts hfl h2]
    rfl
  · intro grow ord Γ st G t τ v G' htr hfl hgo
    simp only [trE] at htr
    obtain ⟨ts, hts, htr⟩ := tr_expect htr
    simp at htr
    obtain ⟨rfl, _⟩ := htr
    simp only [evalE] at hgo
    obtain ⟨p, l, c, G2, h2, hgo⟩ := go_sl hgo
    try dsimp only at hgo
    simp at hgo
    obtain ⟨rfl, rfl⟩ := hgo
    simp [evalT, ihs grow ord Γ st G ts .sl _ G2 hts hfl h2]
    rfl

theorem sound_sub (s a b : Exp) (ihs : SoundE s) (iha : SoundE a) (ihb : SoundE b) : SoundE (.sub s a b) := by
  intro grow ord Γ st G t τ v G' htr hfl hgo
  simp only [trE] at htr
  obtain ⟨ts, hts, htr⟩ := tr_expect htr
  obtain ⟨ta, hta, htr⟩ := tr_expect htr
  obtain ⟨tb, htb, htr⟩ := tr_expect htr
  simp at htr
  obtain ⟨rfl, _⟩ := htr
  simp only [evalE] at hgo
  obtain ⟨hi, G1, h1, hgo⟩ := go_num hgo
  try dsimp only at hgo
  obtain ⟨lo, G2, h2, hgo⟩ := go_num hgo
  try dsimp only at hgo
  obtain ⟨p, l, c, G3, h3, hgo⟩ := go_sl hgo
  try dsimp only at hgo
  have e1 := ihb grow ord Γ st G tb .u64 _ G1 htb hfl h1
  have e2 := iha grow ord Γ st G1 ta .u64 _ G2 hta hfl h2
  have e3 := ihs grow ord Γ st G2 ts .sl _ G3 hts hfl h3
  by_cases hc : lo ≤ hi ∧ hi ≤ c
  · simp only [hc, and_self, if_true] at hgo
    simp at hgo
    obtain ⟨rfl, rfl⟩ := hgo
    simp [evalT, e1, e2, e3, hc, toT, asNumT, asBoolT, asRef, asSlT, asPair]
  · simp only [hc, if_false] at hgo
    simp at hgo

theorem sound_take (s b : Exp) (ihs : SoundE s) (ihb : SoundE b) : SoundE (.take s b) := by
  intro grow ord Γ st G t τ v G' htr hfl hgo
  simp only [trE] at htr
  obtain ⟨ts, hts, htr⟩ := tr_expect htr
  obtain ⟨tb, htb, htr⟩ := tr_expect htr
  simp at htr
  obtain ⟨rfl, _⟩ := htr
  simp only [evalE] at hgo
  obtain ⟨hi, G1, h1, hgo⟩ := go_num hgo
  try dsimp only at hgo
  obtain ⟨p, l, c, G3, h3, hgo⟩ := go_sl hgo
  try dsimp only at hgo
  have e1 := ihb grow ord Γ st G tb .u64 _ G1 htb hfl h1
  have e3 := ihs grow ord Γ st G1 ts .sl _ G3 hts hfl h3
  by_cases hc : hi ≤ c
  · simp [hc] at hgo
    obtain ⟨rfl, rfl⟩ := hgo
    simp [evalT, e1, e3, hc, toT, asNumT, asBoolT, asRef, asSlT, asPair]
  · simp [hc] at hgo

theorem sound_skip (s a : Exp) (ihs : SoundE s) (iha : SoundE a) : SoundE (.skip s a) := by
  intro grow ord Γ st G t τ v G' htr hfl hgo
  simp only [trE] at htr
  obtain ⟨ts, hts, htr⟩ := tr_expect htr
  obtain ⟨ta, hta, htr⟩ := tr_expect htr
  simp at htr
  obtain ⟨rfl, _⟩ := htr
  simp only [evalE] at hgo
  obtain ⟨lo, G1, h1, hgo⟩ := go_num hgo
  try dsimp only at hgo
  obtain ⟨p, l, c, G3, h3, hgo⟩ := go_sl hgo
  try dsimp only at hgo
  have e1 := iha grow ord Γ st G ta .u64 _ G1 hta hfl h1
  have e3 := ihs grow ord Γ st G1 ts .sl _ G3 hts hfl h3
  by_cases hc : lo ≤ l
  · simp [hc] at hgo
    obtain ⟨rfl, rfl⟩ := hgo
    simp [evalT, e1, e3, hc, toT, asNumT, asBoolT, asRef, asSlT, asPair]
  · simp [hc] at hgo

/-- Expressions, by structural induction. -/
theorem sound_exp : (e : Exp) → SoundE e
  | .lit n => sound_lit n
  | .blit b => sound_blit b
  | .var x => sound_var x
  | .add a b => (sound_arith a b (sound_exp a) (sound_exp b)).1
  | .mul a b => (sound_arith a b (sound_exp a) (sound_exp b)).2.1
  | .cmp op a b => (sound_arith a b (sound_exp a) (sound_exp b)).2.2 op
  | .mkMap d => sound_mkMap d
  | .asM m => sound_asM m (sound_exp m)
  | .mkMapK32 => by
    intro grow ord Γ st G t τ v G' htr
    simp [trE] at htr
  | .mapGet m k => sound_mapGet m k (sound_exp m) (sound_exp k)
  | .mapLen m => sound_mapLen m (sound_exp m)
  | .mkSlice n => sound_mkSlice n (sound_exp n)
  | .mkSliceCap n c => sound_mkSliceCap n c (sound_exp n) (sound_exp c)
  | .idx s i => sound_idx s i (sound_exp s) (sound_exp i)
  | .len s => (sound_len_cap s (sound_exp s)).1
  | .cap s => (sound_len_cap s (sound_exp s)).2
  | .sub s a b => sound_sub s a b (sound_exp s) (sound_exp a) (sound_exp b)
  | .take s b => sound_take s b (sound_exp s) (sound_exp b)
  | .skip s a => sound_skip s a (sound_exp s) (sound_exp a)

/-! ### right-hand sides: `append`, `append(s, t...)`, `copy` -/

def SoundR (r : RExp) : Prop :=
  ∀ (grow : Nat → Nat → Nat) (ord : List (Nat × Nat) → List (Nat × Nat)) (Γ : SEnv) (st : Stack) (G : GHeap)
    (t : T) (τ : Ty) (v : Val) (G' : GHeap),
    trR Γ r = .ok (t, τ) → FlagsOK st Γ → evalR grow st G r = .ok (v, G') →
    evalT grow ord (envOf st) (heapT G) t = some (toT v, heapT G')

theorem sound_rexp : (r : RExp) → SoundR r
  | .e e => by
    intro grow ord Γ st G t τ v G' htr hfl hgo
    exact sound_exp e grow ord Γ st G t τ v G' htr hfl hgo
  | .append s e => by
    intro grow ord Γ st G t τ v G' htr hfl hgo
    simp only [trR] at htr
    obtain ⟨ts, hts, htr⟩ := tr_expect htr
    obtain ⟨te, hte, htr⟩ := tr_expect htr
    simp at htr
    obtain ⟨rfl, _⟩ := htr
    simp only [evalR] at hgo
    obtain ⟨x, G1, h1, hgo⟩ := go_num hgo
    try dsimp only at hgo
    obtain ⟨p, l, c, G2, h2, hgo⟩ := go_sl hgo
    try dsimp only at hgo
    obtain ⟨q, hq, hgo⟩ := go_opt hgo
    try dsimp only at hgo
    simp at hgo
    obtain ⟨rfl, rfl⟩ := hgo
    have e1 := sound_exp e grow ord Γ st G te .u64 _ G1 hte hfl h1
    have e2 := sound_exp s grow ord Γ st G1 ts .sl _ G2 hts hfl h2
    simp only [evalT, e1, e2, Option.bind_some, asNumT_toT_num, asSlT_toT_sl, appendOp_heapT, hq, Option.map_some]
    simp [toT, asNumT, asBoolT, asRef, asSlT, asPair]
  | .appendS s t' => by
    intro grow ord Γ st G t τ v G' htr hfl hgo
    simp only [trR] at htr
    obtain ⟨ts, hts, htr⟩ := tr_expect htr
    obtain ⟨tt, htt, htr⟩ := tr_expect htr
    simp at htr
    obtain ⟨rfl, _⟩ := htr
    simp only [evalR] at hgo
    obtain ⟨pt, lt, ct, G1, h1, hgo⟩ := go_sl hgo
    try dsimp only at hgo
    obtain ⟨p, l, c, G2, h2, hgo⟩ := go_sl hgo
    try dsimp only at hgo
    obtain ⟨xs, hxs, hgo⟩ := go_opt hgo
    try dsimp only at hgo
    obtain ⟨q, hq, hgo⟩ := go_opt hgo
    try dsimp only at hgo
    simp at hgo
    obtain ⟨rfl, rfl⟩ := hgo
    have e1 := sound_exp t' grow ord Γ st G tt .sl _ G1 htt hfl h1
    have e2 := sound_exp s grow ord Γ st G1 ts .sl _ G2 hts hfl h2
    simp only [evalT, e1, e2, Option.bind_some, asSlT_toT_sl, readSl_heapT, hxs, appendOp_heapT, hq, Option.map_some]
    simp [toT, asNumT, asBoolT, asRef, asSlT, asPair]
  | .copy d s => by
    intro grow ord Γ st G t τ v G' htr hfl hgo
    simp only [trR] at htr
    obtain ⟨td, htd, htr⟩ := tr_expect htr
    obtain ⟨ts, hts, htr⟩ := tr_expect htr
    simp at htr
    obtain ⟨rfl, _⟩ := htr
    simp only [evalR] at hgo
    obtain ⟨ps, ls, cs, G1, h1, hgo⟩ := go_sl hgo
    try dsimp only at hgo
    obtain ⟨pd, ld, cd, G2, h2, hgo⟩ := go_sl hgo
    try dsimp only at hgo
    obtain ⟨q, hq, hgo⟩ := go_opt hgo
    try dsimp only at hgo
    simp at hgo
    obtain ⟨rfl, rfl⟩ := hgo
    have e1 := sound_exp s grow ord Γ st G ts .sl _ G1 hts hfl h1
    have e2 := sound_exp d grow ord Γ st G1 td .sl _ G2 htd hfl h2
    simp only [evalT, e1, e2, Option.bind_some, asSlT_toT_sl, copyOp_heapT, hq, Option.map_some]
    simp [toT, asNumT, asBoolT, asRef, asSlT, asPair]

end GooseVerif.Model.Coll
