import GooseVerif.Model.TestGen

namespace GooseVerif.Model.TestGen

theorem stripPrefix_eq_some (p l r : List Char) : stripPrefix p l = some r ↔ l = p ++ r := by
  unfold stripPrefix
  constructor
  · intro h
    split at h
    · rename_i hp
      cases h
      obtain ⟨t, rfl⟩ := List.isPrefixOf_iff_prefix.mp hp
      simp
    · cases h
  · rintro rfl
    have : p.isPrefixOf (p ++ r) = true := List.isPrefixOf_iff_prefix.mpr (List.prefix_append p r)
    simp [this]

theorem stripPrefix_eq_none (p l : List Char) : stripPrefix p l = none ↔ ¬ p <+: l := by
  unfold stripPrefix
  constructor
  · intro h hp
    rw [List.isPrefixOf_iff_prefix.mpr hp] at h
    simp at h
  · intro h
    have : p.isPrefixOf l = false := by
      cases hb : p.isPrefixOf l
      · rfl
      · exact absurd (List.isPrefixOf_iff_prefix.mp hb) h
    simp [this]

theorem takeWhile_alnum (s rest : List Char) (hs : s.all isAlnum = true) :
    (s ++ '(' :: rest).takeWhile isAlnum = s ∧ (s ++ '(' :: rest).dropWhile isAlnum = '(' :: rest := by
  induction s with
  | nil => simp [List.takeWhile, List.dropWhile, isAlnum]
  | cons c s ih =>
    simp only [List.all_cons, Bool.and_eq_true] at hs
    simp [List.takeWhile, List.dropWhile, hs.1, ih hs.2]

/-- What `matchTest` accepts. -/
theorem matchTest_iff (f : Bool) (l : List Char) (h : Header) :
    matchTest f l = some h ↔
      h.failing = f ∧ h.suffix ≠ [] ∧ h.suffix.all isAlnum = true ∧ ∃ rest, l = "test".toList ++ h.suffix ++ '(' :: rest := by
  unfold matchTest
  constructor
  · intro hm
    split at hm
    · cases hm
    · rename_i r hr
      rw [stripPrefix_eq_some] at hr
      simp only at hm
      split at hm
      · cases hm
      · rename_i hne
        split at hm
        · rename_i rest' hrest
          cases hm
          refine ⟨rfl, ?_, List.all_takeWhile, rest', ?_⟩
          · intro he; simp only at he; apply hne; rw [he]; rfl
          · rw [hr, List.append_assoc, ← hrest, List.takeWhile_append_dropWhile]
        · cases hm
  · rintro ⟨rfl, hne, hall, rest, rfl⟩
    have hs : stripPrefix "test".toList ("test".toList ++ h.suffix ++ '(' :: rest) = some (h.suffix ++ '(' :: rest) := by
      rw [stripPrefix_eq_some]; simp
    rw [hs]
    obtain ⟨h1, h2⟩ := takeWhile_alnum h.suffix rest hall
    simp only [h1, h2]
    have : h.suffix.isEmpty = false := by
      cases hsuf : h.suffix with
      | nil => exact absurd hsuf hne
      | cons _ _ => rfl
    simp [this]

end GooseVerif.Model.TestGen

namespace GooseVerif.Model.TestGen

theorem not_failing_prefix_test (s rest : List Char) :
    stripPrefix "failing_".toList ("test".toList ++ s ++ '(' :: rest) = none := by
  rw [stripPrefix_eq_none]
  intro h
  obtain ⟨t, ht⟩ := h
  simp at ht

theorem matchTest_false_failing (r : List Char) (hp : stripPrefix "failing_".toList r = some r') :
    matchTest false r = none := by
  rw [stripPrefix_eq_some] at hp
  subst hp
  unfold matchTest
  have : stripPrefix "test".toList ("failing_".toList ++ r') = none := by
    rw [stripPrefix_eq_none]
    intro h
    obtain ⟨t, ht⟩ := h
    simp at ht
  rw [this]

/-- The language of header lines: exactly what both regular expressions accept. -/
theorem matchHeader_iff (line : List Char) (h : Header) :
    matchHeader line = some h ↔
      ∃ w rest, line = "func".toList ++ [w] ++ (if h.failing then "failing_".toList else []) ++
                       "test".toList ++ h.suffix ++ '(' :: rest ∧
        isWs w = true ∧ h.suffix ≠ [] ∧ h.suffix.all isAlnum = true := by
  unfold matchHeader
  constructor
  · intro hm
    split at hm
    · cases hm
    · cases hm
    · rename_i w r hfun
      rw [stripPrefix_eq_some] at hfun
      split at hm
      · cases hm
      · rename_i hws
        have hw : isWs w = true := by simpa using hws
        split at hm
        · rename_i r' hfail
          have hf2 := matchTest_false_failing r hfail
          rw [stripPrefix_eq_some] at hfail
          split at hm
          · rename_i h' hmt
            cases hm
            obtain ⟨hfl, hne, hall, rest, hl⟩ := (matchTest_iff true r' h).mp hmt
            refine ⟨w, rest, ?_, hw, hne, hall⟩
            rw [hfun, hfail, hl, hfl]
            simp
          · rw [hf2] at hm; cases hm
        · rename_i hfail
          obtain ⟨hfl, hne, hall, rest, hl⟩ := (matchTest_iff false r h).mp hm
          refine ⟨w, rest, ?_, hw, hne, hall⟩
          rw [hfun, hl, hfl]
          simp
  · rintro ⟨w, rest, rfl, hw, hne, hall⟩
    cases hf : h.failing with
    | true =>
      have e1 : stripPrefix "func".toList ("func".toList ++ [w] ++ "failing_".toList ++ "test".toList ++ h.suffix ++ '(' :: rest)
          = some (w :: ("failing_".toList ++ ("test".toList ++ h.suffix ++ '(' :: rest))) := by
        rw [stripPrefix_eq_some]; simp
      have e2 : stripPrefix "failing_".toList ("failing_".toList ++ ("test".toList ++ h.suffix ++ '(' :: rest))
          = some ("test".toList ++ h.suffix ++ '(' :: rest) := by
        rw [stripPrefix_eq_some]
      have e3 : matchTest true ("test".toList ++ h.suffix ++ '(' :: rest) = some h :=
        (matchTest_iff true _ h).mpr ⟨hf, hne, hall, rest, rfl⟩
      simp only [hf, ↓reduceIte, e1, hw, Bool.not_true, Bool.false_eq_true, e2, e3]
    | false =>
      have e1 : stripPrefix "func".toList ("func".toList ++ [w] ++ [] ++ "test".toList ++ h.suffix ++ '(' :: rest)
          = some (w :: ("test".toList ++ h.suffix ++ '(' :: rest)) := by
        rw [stripPrefix_eq_some]; simp
      have e2 := not_failing_prefix_test h.suffix rest
      have e3 : matchTest false ("test".toList ++ h.suffix ++ '(' :: rest) = some h :=
        (matchTest_iff false _ h).mpr ⟨hf, hne, hall, rest, rfl⟩
      simp only [hf, Bool.false_eq_true, ↓reduceIte, e1, hw, Bool.not_true, e2, e3]

end GooseVerif.Model.TestGen

namespace GooseVerif.Model.TestGen

theorem join_append (a b : List String) : String.join (a ++ b) = String.join a ++ String.join b := by
  induction a with
  | nil => simp [String.join]
  | cons x a ih => simp [String.join_cons, ih, String.append_assoc]

theorem join_flatMap {α : Type} (l : List α) (f : α → List String) :
    String.join (l.map (fun x => String.join (f x))) = String.join (l.flatMap f) := by
  induction l with
  | nil => rfl
  | cons x l ih => simp [String.join_cons, List.flatMap_cons, join_append, ih]

theorem genGo_eq (files : List File) :
    genGo files = goHeader ++ String.join ((testsOf files).map goEntry) ++ goFooter := by
  simp only [genGo, testsOf]
  congr 2
  rw [List.map_flatMap]
  exact join_flatMap _ (fun f => (headersOf f).map goEntry)

end GooseVerif.Model.TestGen
