/-
Helper lemmas for the collections theorem, part 1 (model: `Model/Coll.lean`): the simulation relation and
the operations on arrays and maps.

Both heaps hold the same kinds of objects and grow in lockstep (a `var` variable is a cell on both sides),
so the relation is a FUNCTION:

  `toT`        a Go value as a GooseLang value: a map reference `o` is the location (o, 0), a slice
               (p, len, cap) is the triple with the pointer `null` / (block, offset)
  `heapT`      object by object, `Obj.mapCell toT`: arrays and maps are the same lists, a cell holds the
               translated value
  `envOf`      the scope stack flattened, innermost first: a `:=` variable is bound to its translated value,
               a `var` variable to the location of its cell
  `FlagsOK`    the static environment knows, name by name and level by level, which variables are cells

`VRel`/`HRel`/`Rel` (end of the file) are these functions read as relations, for the statement of the theorem.
-/
import GooseVerif.Model.Coll
import GooseVerif.Lemmas.Heap

namespace GooseVerif.Model.Coll
open GooseVerif.Model.Heap (look lookStk bindStk Res ofOpt Res.bind_ok ofOpt_ok look_append)

/-! ### the monads -/

@[simp] theorem res_ok_bind {α β : Type} (a : α) (f : α → Res β) : (Res.ok a).bind f = f a := rfl
@[simp] theorem res_panic_bind {α β : Type} (f : α → Res β) : (Res.panic : Res α).bind f = .panic := rfl
@[simp] theorem res_bad_bind {α β : Type} (f : α → Res β) : (Res.bad : Res α).bind f = .bad := rfl

theorem bindE_ok {α β : Type} {r : Except String α} {f : α → Except String β} {y : β}
    (h : bindE r f = .ok y) : ∃ x, r = .ok x ∧ f x = .ok y := by
  cases r with
  | ok a => exact ⟨a, rfl, h⟩
  | error m => simp [bindE] at h

theorem expectTy_ok {w : String} {a b : Ty} {u : Unit} (h : expectTy w a b = .ok u) : a = b := by
  unfold expectTy at h
  split at h
  · assumption
  · simp at h

theorem asNum_ok {v : Val} {n : Nat} (h : asNum v = .ok n) : v = .num n := by
  cases v <;> simp [asNum] at h
  rw [h]

theorem asBool_ok {v : Val} {b : Bool} (h : asBool v = .ok b) : v = .bool b := by
  cases v <;> simp [asBool] at h
  rw [h]

theorem asMap_ok {v : Val} {o : Nat} (h : asMap v = .ok o) : v = .map o := by
  cases v <;> simp [asMap] at h
  rw [h]

theorem asSl_ok {v : Val} {s : Ptr × Nat × Nat} (h : asSl v = .ok s) : v = .sl s.1 s.2.1 s.2.2 := by
  cases v <;> simp [asSl] at h
  rw [← h]

/-- `trE` of an operand followed by a type check (the check is not used by the simulation) -/
theorem tr_expect {Γ : SEnv} {e : Exp} {w : String} {want : Ty} {α : Type} {f : T × Ty → Except String α} {y : α}
    (h : bindE (trE Γ e) (fun r => bindE (expectTy w want r.2) fun _ => f r) = .ok y) :
    ∃ t, trE Γ e = .ok (t, want) ∧ f (t, want) = .ok y := by
  obtain ⟨⟨t, τ⟩, h1, h2⟩ := bindE_ok h
  obtain ⟨_, h3, h4⟩ := bindE_ok h2
  have := expectTy_ok h3
  simp at this
  subst this
  exact ⟨t, h1, h4⟩

theorem tr_expectMap {Γ : SEnv} {e : Exp} {w : String} {α : Type} {f : T × Ty → Except String α} {y : α}
    (h : bindE (trE Γ e) (fun r => bindE (expectMap w r.2) fun _ => f r) = .ok y) :
    ∃ t τ, trE Γ e = .ok (t, τ) ∧ f (t, τ) = .ok y := by
  obtain ⟨⟨t, τ⟩, h1, h2⟩ := bindE_ok h
  obtain ⟨_, _, h4⟩ := bindE_ok h2
  exact ⟨t, τ, h1, h4⟩

/-- Go: an operand that must be a number -/
theorem go_num {α : Type} {r : Res (Val × GHeap)} {f : Val × GHeap → Nat → Res α} {y : α}
    (h : (r.bind fun q => (asNum q.1).bind fun n => f q n) = .ok y) :
    ∃ n G1, r = .ok (.num n, G1) ∧ f (.num n, G1) n = .ok y := by
  obtain ⟨⟨v, G1⟩, h1, h2⟩ := Res.bind_ok h
  obtain ⟨n, h3, h4⟩ := Res.bind_ok h2
  have := asNum_ok h3
  simp at this
  subst this
  exact ⟨n, G1, h1, h4⟩

theorem go_map {α : Type} {r : Res (Val × GHeap)} {f : Val × GHeap → Nat → Res α} {y : α}
    (h : (r.bind fun q => (asMap q.1).bind fun n => f q n) = .ok y) :
    ∃ o G1, r = .ok (.map o, G1) ∧ f (.map o, G1) o = .ok y := by
  obtain ⟨⟨v, G1⟩, h1, h2⟩ := Res.bind_ok h
  obtain ⟨n, h3, h4⟩ := Res.bind_ok h2
  have := asMap_ok h3
  simp at this
  subst this
  exact ⟨n, G1, h1, h4⟩

theorem go_bool {α : Type} {r : Res (Val × GHeap)} {f : Val × GHeap → Bool → Res α} {y : α}
    (h : (r.bind fun q => (asBool q.1).bind fun n => f q n) = .ok y) :
    ∃ b G1, r = .ok (.bool b, G1) ∧ f (.bool b, G1) b = .ok y := by
  obtain ⟨⟨v, G1⟩, h1, h2⟩ := Res.bind_ok h
  obtain ⟨n, h3, h4⟩ := Res.bind_ok h2
  have := asBool_ok h3
  simp at this
  subst this
  exact ⟨n, G1, h1, h4⟩

theorem go_sl {α : Type} {r : Res (Val × GHeap)} {f : Val × GHeap → Ptr × Nat × Nat → Res α} {y : α}
    (h : (r.bind fun q => (asSl q.1).bind fun s => f q s) = .ok y) :
    ∃ p l c G1, r = .ok (.sl p l c, G1) ∧ f (.sl p l c, G1) (p, l, c) = .ok y := by
  obtain ⟨⟨v, G1⟩, h1, h2⟩ := Res.bind_ok h
  obtain ⟨⟨p, l, c⟩, h3, h4⟩ := Res.bind_ok h2
  have := asSl_ok h3
  simp at this
  subst this
  exact ⟨p, l, c, G1, h1, h4⟩

/-- Go: a heap lookup that must succeed -/
theorem go_opt {α β : Type} {o : Option α} {f : α → Res β} {y : β} (h : ((ofOpt o).bind f) = .ok y) :
    ∃ x, o = some x ∧ f x = .ok y := by
  obtain ⟨x, h1, h2⟩ := Res.bind_ok h
  exact ⟨x, ofOpt_ok h1, h2⟩

/-! ### the relation as functions -/

def toT : Val → TVal
  | .num n => .base (.num n)
  | .bool b => .base (.bool b)
  | .map o => .base (.loc o 0)
  | .sl p l c => .sl p.toB l c

def Bnd.toT : Bnd → TVal
  | .val v => Coll.toT v
  | .cell o => .base (.loc o 0)

def Bnd.isCell : Bnd → Bool
  | .val _ => false
  | .cell _ => true

def heapT (G : GHeap) : THeap := G.map (Obj.mapCell toT)

def scopeT (sc : Scope) : Env := sc.map fun p => (p.1, p.2.toT)

/-- the target environment of a Go stack -/
def envOf (st : Stack) : Env := (st.map scopeT).flatten

def flagsS (sc : Scope) : List (String × Bool) := sc.map fun p => (p.1, p.2.isCell)

def sflagsS (ssc : SScope) : List (String × Bool) := ssc.map fun p => (p.1, p.2.1)

/-- the static environment and the stack agree on the names, level by level, and on which are cells -/
def FlagsOK (st : Stack) (Γ : SEnv) : Prop := st.map flagsS = Γ.map sflagsS

@[simp] theorem toPtr_toB (p : Ptr) : p.toB.toPtr = some p := by
  cases p with
  | none => rfl
  | some q => obtain ⟨o, off⟩ := q; rfl

@[simp] theorem asSlT_toT_sl (p : Ptr) (l c : Nat) : asSlT (toT (.sl p l c)) = some (p, l, c) := by
  simp [toT, asSlT]

@[simp] theorem asNumT_toT_num (n : Nat) : asNumT (toT (.num n)) = some n := rfl
@[simp] theorem asBoolT_toT_bool (b : Bool) : asBoolT (toT (.bool b)) = some b := rfl
@[simp] theorem asRef_toT_map (o : Nat) : asRef (toT (.map o)) = some o := rfl

@[simp] theorem heapT_length (G : GHeap) : (heapT G).length = G.length := by simp [heapT]

@[simp] theorem heapT_append (G : GHeap) (x : Obj Val) : heapT (G ++ [x]) = heapT G ++ [x.mapCell toT] := by
  simp [heapT]

@[simp] theorem heapT_set (G : GHeap) (o : Nat) (x : Obj Val) : heapT (G.set o x) = (heapT G).set o (x.mapCell toT) := by
  simp [heapT, List.map_set]

/-! ### association lists and stacks under a map of the values -/

theorem look_map {α β : Type} (f : α → β) (x : String) (l : List (String × α)) :
    look x (l.map fun p => (p.1, f p.2)) = (look x l).map f := by
  induction l with
  | nil => rfl
  | cons p l ih =>
    obtain ⟨y, v⟩ := p
    by_cases hy : y = x
    · simp [look, hy]
    · simp [look, hy, ih]

theorem lookStk_map {α β : Type} (f : α → β) (x : String) (st : List (List (String × α))) :
    lookStk x (st.map fun sc => sc.map fun p => (p.1, f p.2)) = (lookStk x st).map f := by
  induction st with
  | nil => rfl
  | cons sc st ih =>
    simp only [List.map_cons, lookStk, look_map]
    cases look x sc with
    | none => simpa using ih
    | some v => simp

/-- looking a name up in the flattened stack -/
theorem look_flatten {α : Type} (x : String) (st : List (List (String × α))) :
    look x st.flatten = lookStk x st := by
  induction st with
  | nil => rfl
  | cons sc st ih =>
    rw [List.flatten_cons, look_append, lookStk, ih]
    cases look x sc <;> rfl

theorem look_envOf (x : String) (st : Stack) : look x (envOf st) = (lookStk x st).map Bnd.toT := by
  unfold envOf
  rw [look_flatten]
  exact lookStk_map Bnd.toT x st

theorem FlagsOK.lookup {st : Stack} {Γ : SEnv} (h : FlagsOK st Γ) (x : String) :
    (lookStk x st).map Bnd.isCell = (lookStk x Γ).map (·.1) := by
  have h1 := lookStk_map Bnd.isCell x st
  have h2 := lookStk_map (fun (p : Bool × Ty) => p.1) x Γ
  unfold FlagsOK flagsS sflagsS at h
  rw [← h1, ← h2]
  exact congrArg (lookStk x) h

theorem FlagsOK.push {st : Stack} {Γ : SEnv} (h : FlagsOK st Γ) {sc : Scope} {ssc : SScope}
    (hs : flagsS sc = sflagsS ssc) : FlagsOK (sc :: st) (ssc :: Γ) := by
  unfold FlagsOK at *
  simp [hs, h]

theorem FlagsOK.tail {sc : Scope} {st : Stack} {ssc : SScope} {Γ : SEnv} (h : FlagsOK (sc :: st) (ssc :: Γ)) :
    FlagsOK st Γ := by
  unfold FlagsOK at *
  simp at h
  exact h.2

theorem FlagsOK.head {sc : Scope} {st : Stack} {ssc : SScope} {Γ : SEnv} (h : FlagsOK (sc :: st) (ssc :: Γ)) :
    flagsS sc = sflagsS ssc := by
  unfold FlagsOK at *
  simp at h
  exact h.1

/-- a new binding in the innermost scope -/
theorem FlagsOK.bind {sc : Scope} {st : Stack} {ssc : SScope} {Γ : SEnv} (h : FlagsOK (sc :: st) (ssc :: Γ))
    (x : String) (b : Bnd) (τ : Ty) : FlagsOK (bindStk x b (sc :: st)) (bindStk x (b.isCell, τ) (ssc :: Γ)) := by
  simp only [bindStk]
  refine h.tail.push ?_
  simp [flagsS, sflagsS]
  exact h.head

theorem envOf_cons (sc : Scope) (st : Stack) : envOf (sc :: st) = scopeT sc ++ envOf st := by
  simp [envOf]

theorem envOf_bind (x : String) (b : Bnd) (sc : Scope) (st : Stack) :
    envOf (bindStk x b (sc :: st)) = (x, b.toT) :: envOf (sc :: st) := by
  simp [bindStk, envOf, scopeT]

theorem envOf_nil_cons (st : Stack) : envOf ([] :: st) = envOf st := by
  simp [envOf, scopeT]

/-! ### the operations on arrays and maps commute with a map of the cells -/

section ops
variable {α β : Type} (f : α → β)

@[simp] theorem getCell_map (H : List (Obj α)) (o : Nat) :
    getCell (H.map (Obj.mapCell f)) o = (getCell H o).map f := by
  unfold getCell
  rw [List.getElem?_map]
  cases H[o]? with
  | none => rfl
  | some x => cases x <;> rfl

@[simp] theorem getArr_map (H : List (Obj α)) (o : Nat) : getArr (H.map (Obj.mapCell f)) o = getArr H o := by
  unfold getArr
  rw [List.getElem?_map]
  cases H[o]? with
  | none => rfl
  | some x => cases x <;> rfl

@[simp] theorem getMap_map (H : List (Obj α)) (o : Nat) : getMap (H.map (Obj.mapCell f)) o = getMap H o := by
  unfold getMap
  rw [List.getElem?_map]
  cases H[o]? with
  | none => rfl
  | some x => cases x <;> rfl

@[simp] theorem elemAt_map (H : List (Obj α)) (p : Ptr) (j : Nat) :
    elemAt (H.map (Obj.mapCell f)) p j = elemAt H p j := by
  cases p with
  | none => rfl
  | some q => obtain ⟨o, off⟩ := q; simp [elemAt]

@[simp] theorem readSl_map (H : List (Obj α)) (p : Ptr) (n : Nat) :
    readSl (H.map (Obj.mapCell f)) p n = readSl H p n := by
  cases p with
  | none => rfl
  | some q => obtain ⟨o, off⟩ := q; simp [readSl]

theorem setElemAt_map (H : List (Obj α)) (p : Ptr) (j x : Nat) :
    setElemAt (H.map (Obj.mapCell f)) p j x = (setElemAt H p j x).map (List.map (Obj.mapCell f)) := by
  cases p with
  | none => rfl
  | some q =>
    obtain ⟨o, off⟩ := q
    simp only [setElemAt, getArr_map]
    cases getArr H o with
    | none => rfl
    | some vs =>
      simp only [Option.bind_some]
      split
      · simp [List.map_set, Obj.mapCell]
      · rfl

theorem writeSl_map (H : List (Obj α)) (p : Ptr) (xs : List Nat) :
    writeSl (H.map (Obj.mapCell f)) p xs = (writeSl H p xs).map (List.map (Obj.mapCell f)) := by
  cases p with
  | none =>
    simp only [writeSl]
    split <;> rfl
  | some q =>
    obtain ⟨o, off⟩ := q
    simp only [writeSl, getArr_map]
    cases getArr H o with
    | none => rfl
    | some vs =>
      simp only [Option.bind_some]
      split
      · simp [List.map_set, Obj.mapCell]
      · rfl

theorem appendOp_map (grow : Nat → Nat → Nat) (H : List (Obj α)) (p : Ptr) (l c : Nat) (xs : List Nat) :
    appendOp grow (H.map (Obj.mapCell f)) p l c xs =
      (appendOp grow H p l c xs).map fun q => (q.1, q.2.map (Obj.mapCell f)) := by
  unfold appendOp
  split
  · rw [writeSl_map]
    cases writeSl H (p.shift l) xs <;> rfl
  · rw [readSl_map]
    cases readSl H p l with
    | none => rfl
    | some old => simp [Obj.mapCell]

theorem copyOp_map (H : List (Obj α)) (pd : Ptr) (ld : Nat) (ps : Ptr) (ls : Nat) :
    copyOp (H.map (Obj.mapCell f)) pd ld ps ls =
      (copyOp H pd ld ps ls).map fun q => (q.1, q.2.map (Obj.mapCell f)) := by
  unfold copyOp
  rw [readSl_map]
  cases readSl H ps (min ld ls) with
  | none => rfl
  | some src =>
    simp only [Option.bind_some]
    rw [writeSl_map]
    cases writeSl H pd src <;> rfl

end ops

/-! ### … for `heapT` -/

@[simp] theorem getCell_heapT (G : GHeap) (o : Nat) : getCell (heapT G) o = (getCell G o).map toT := getCell_map toT G o
@[simp] theorem getArr_heapT (G : GHeap) (o : Nat) : getArr (heapT G) o = getArr G o := getArr_map toT G o
@[simp] theorem getMap_heapT (G : GHeap) (o : Nat) : getMap (heapT G) o = getMap G o := getMap_map toT G o
@[simp] theorem elemAt_heapT (G : GHeap) (p : Ptr) (j : Nat) : elemAt (heapT G) p j = elemAt G p j := elemAt_map toT G p j
@[simp] theorem readSl_heapT (G : GHeap) (p : Ptr) (n : Nat) : readSl (heapT G) p n = readSl G p n := readSl_map toT G p n
@[simp] theorem setElemAt_heapT (G : GHeap) (p : Ptr) (j x : Nat) :
    setElemAt (heapT G) p j x = (setElemAt G p j x).map heapT := setElemAt_map toT G p j x
@[simp] theorem writeSl_heapT (G : GHeap) (p : Ptr) (xs : List Nat) :
    writeSl (heapT G) p xs = (writeSl G p xs).map heapT := writeSl_map toT G p xs
@[simp] theorem appendOp_heapT (grow : Nat → Nat → Nat) (G : GHeap) (p : Ptr) (l c : Nat) (xs : List Nat) :
    appendOp grow (heapT G) p l c xs = (appendOp grow G p l c xs).map fun q => (q.1, heapT q.2) :=
  appendOp_map toT grow G p l c xs
@[simp] theorem copyOp_heapT (G : GHeap) (pd : Ptr) (ld : Nat) (ps : Ptr) (ls : Nat) :
    copyOp (heapT G) pd ld ps ls = (copyOp G pd ld ps ls).map fun q => (q.1, heapT q.2) :=
  copyOp_map toT G pd ld ps ls

/-! ### the loops -/

/-- If every iteration is simulated, so is the loop. -/
theorem loop_sim {β : Type} (f : β → GHeap → Res GHeap) (g : β → THeap → Option THeap)
    (L : List β) (hfg : ∀ a, a ∈ L → ∀ G G', f a G = .ok G' → g a (heapT G) = some (heapT G')) :
    ∀ G G', loopGo f L G = .ok G' → loopT g L (heapT G) = some (heapT G') := by
  induction L with
  | nil =>
    intro G G' h
    simp [loopGo] at h
    subst h
    rfl
  | cons a L ih =>
    intro G G' h
    simp only [loopGo] at h
    obtain ⟨G1, h1, h2⟩ := Res.bind_ok h
    have hfirst := hfg a List.mem_cons_self G G1 h1
    have hrest := ih (fun b hb => hfg b (List.mem_cons_of_mem _ hb)) G1 G' h2
    simp [loopT, hfirst, hrest]

/-! ### the relation, read as relations (for the statement of the theorem) -/

/-- a Go value and a GooseLang value -/
def VRel (v : Val) (tv : TVal) : Prop := tv = toT v

/-- the heaps: the same length, object `o` is block `o`: an array and its cells, a map and its entries, the
cell of a `var` variable and a cell holding the related value -/
def HRel (G : GHeap) (H : THeap) : Prop := H = heapT G

/-- the scopes: the static environment knows which names are cells, and the target environment binds every
name, innermost first, to the related value or to its cell's location -/
def Rel (st : Stack) (Γ : SEnv) (env : Env) : Prop := FlagsOK st Γ ∧ env = envOf st

theorem HRel.obj {G : GHeap} {H : THeap} (h : HRel G H) (o : Nat) : H[o]? = (G[o]?).map (Obj.mapCell toT) := by
  rw [h]
  simp [heapT]

theorem HRel.length {G : GHeap} {H : THeap} (h : HRel G H) : H.length = G.length := by
  rw [h]
  simp

end GooseVerif.Model.Coll
