/-
Helper lemmas for the collections theorem, part 5: the iteration ORDER of `range` over a map is not observable
when every such loop has an accumulating body (`Stmts.rangesOK`): Go's semantics gives the same outcome for any
two oracles that return permutations of the entries.
-/
import GooseVerif.Lemmas.CollMap

set_option linter.unusedSimpArgs false
set_option linter.unusedSectionVars false

namespace GooseVerif.Model.Coll
open GooseVerif.Model.Heap (look lookStk bindStk Res ofOpt Res.bind_ok ofOpt_ok)

/-! ### a loop over a permutation -/

def stepR {β : Type} (f : β → GHeap → Res GHeap) (z : Res GHeap) (a : β) : Res GHeap := z.bind (f a)

theorem loopGo_foldl {β : Type} (f : β → GHeap → Res GHeap) (L : List β) :
    ∀ z : Res GHeap, z.bind (fun G => loopGo f L G) = L.foldl (stepR f) z := by
  induction L with
  | nil =>
    intro z
    cases z <;> rfl
  | cons a L ih =>
    intro z
    simp only [List.foldl_cons, ← ih]
    cases z <;> rfl

/-- If the iterations commute, the loop over a permutation gives the same result. -/
theorem loopGo_perm {β : Type} (f : β → GHeap → Res GHeap)
    (hcomm : ∀ a b G, (f a G).bind (f b) = (f b G).bind (f a)) {L1 L2 : List β} (p : L1.Perm L2) (G : GHeap) :
    loopGo f L1 G = loopGo f L2 G := by
  have h1 := loopGo_foldl f L1 (.ok G)
  have h2 := loopGo_foldl f L2 (.ok G)
  simp only [Res.bind] at h1 h2
  rw [h1, h2]
  apply List.Perm.foldl_eq' p
  intro a _ b _ z
  cases z with
  | ok G' => exact hcomm a b G'
  | panic => rfl
  | bad => rfl

/-! ### the iteration of an accumulating body, in closed form -/

/-- One iteration for the entry `kv`: if the accumulators are `var` variables holding numbers and the ranged map
`o` still has the entries `es`, the increments are added; otherwise the program is outside the model. -/
def accF (cs : Option (List (Nat × Exp))) (k v : Option String) (o : Nat) (es : List (Nat × Nat))
    (kv : Nat × Nat) (G : GHeap) : Res GHeap :=
  match cs with
  | none => .bad
  | some cs =>
    if (cs.all fun oe => isNumCell G oe.1) = true ∧ getMap G o = some es then
      .ok (addAll (amounts k v kv.1 kv.2 cs) G)
    else .bad

theorem iteration_eq (grow : Nat → Nat → Nat) (ord : List (Nat × Nat) → List (Nat × Nat)) (k v : Option String)
    (st : Stack) (body : Stmts) (hb : accumBody k v body = true) (o : Nat) (es : List (Nat × Nat)) (kv : Nat × Nat)
    (G : GHeap) :
    ((bodyOut (execStmts grow ord (loopScope k v kv.1 kv.2 :: st) G body)).bind fun G2 =>
        if getMap G2 o = some es then Res.ok G2 else Res.bad) = accF (addrsOf st body) k v o es kv G := by
  rw [exec_accumBody grow ord k v kv.1 kv.2 st body hb G]
  unfold accF
  cases addrsOf st body with
  | none => rfl
  | some cs =>
    simp only []
    rw [loopGo_addCell, all_amounts]
    by_cases hall : (cs.all fun oe => isNumCell G oe.1) = true
    · simp only [hall, if_true, res_ok_bind, getMap_addAll, true_and]
    · simp [hall]

theorem accF_comm (cs : Option (List (Nat × Exp))) (k v : Option String) (o : Nat) (es : List (Nat × Nat))
    (a b : Nat × Nat) (G : GHeap) :
    (accF cs k v o es a G).bind (accF cs k v o es b) = (accF cs k v o es b G).bind (accF cs k v o es a) := by
  cases cs with
  | none => rfl
  | some cs =>
    by_cases hc : (cs.all fun oe => isNumCell G oe.1) = true ∧ getMap G o = some es
    · have keep : ∀ (xs : List (Nat × Nat)),
          ((cs.all fun oe => isNumCell (addAll xs G) oe.1) = true ∧ getMap (addAll xs G) o = some es) := by
        intro xs
        rw [getMap_addAll]
        refine ⟨?_, hc.2⟩
        have : (cs.all fun oe => isNumCell (addAll xs G) oe.1) = cs.all fun oe => isNumCell G oe.1 := by
          congr 1
          funext oe
          exact isNumCell_addAll xs G oe.1
        rw [this]
        exact hc.1
      have e0 : ∀ (c : Nat × Nat) (G' : GHeap),
          ((cs.all fun oe => isNumCell G' oe.1) = true ∧ getMap G' o = some es) →
          accF (some cs) k v o es c G' = .ok (addAll (amounts k v c.1 c.2 cs) G') := by
        intro c G' h
        simp only [accF, h, and_self, if_true]
      rw [e0 a G hc, e0 b G hc, res_ok_bind, res_ok_bind, e0 b _ (keep _), e0 a _ (keep _), addAll_comm]
    · have e0 : ∀ (c : Nat × Nat), accF (some cs) k v o es c G = .bad := by
        intro c
        simp only [accF, hc, if_false]
      rw [e0 a, e0 b]
      rfl

/-! ### the whole program -/

theorem accumBody_rangesOK (k v : Option String) : (body : Stmts) → accumBody k v body = true → body.rangesOK = true
  | .nil, _ => rfl
  | .ret _, h => by simp [accumBody] at h
  | .cons s rest, h => by
    simp only [accumBody, Bool.and_eq_true] at h
    have ih := accumBody_rangesOK k v rest h.2
    simp only [Stmts.rangesOK, Bool.and_eq_true, ih, and_true]
    match s, h.1 with
    | .assign _ _, _ => rfl

section
variable (grow : Nat → Nat → Nat) (ord1 ord2 : List (Nat × Nat) → List (Nat × Nat))
variable (h1 : ∀ es, (ord1 es).Perm es) (h2 : ∀ es, (ord2 es).Perm es)
include h1 h2

mutual
/-- Go's outcome of a statement list does not depend on the oracle. -/
theorem exec_ord_stmts : (ss : Stmts) → ss.rangesOK = true → ∀ (st : Stack) (G : GHeap),
    execStmts grow ord1 st G ss = execStmts grow ord2 st G ss
  | .nil, _, _, _ => by simp [execStmts]
  | .ret e, _, _, _ => by simp [execStmts]
  | .cons s rest, h, st, G => by
    simp only [Stmts.rangesOK, Bool.and_eq_true] at h
    simp only [execStmts, exec_ord_stmt s h.1 st G]
    cases execStmt grow ord2 st G s with
    | panic => rfl
    | bad => rfl
    | ok o =>
      cases o with
      | normal st' G' => exact exec_ord_stmts rest h.2 st' G'
      | returned v G' => rfl
theorem exec_ord_stmt : (s : Stmt) → s.rangesOK = true → ∀ (st : Stack) (G : GHeap),
    execStmt grow ord1 st G s = execStmt grow ord2 st G s
  | .define x r, _, _, _ => by simp [execStmt]
  | .declare x r, _, _, _ => by simp [execStmt]
  | .assign x r, _, _, _ => by simp [execStmt]
  | .mapSet m k e, _, _, _ => by simp [execStmt]
  | .delete m k, _, _, _ => by simp [execStmt]
  | .lookup2 v ok m k, _, _, _ => by simp [execStmt]
  | .setIdx s i e, _, _, _ => by simp [execStmt]
  | .copy d s, _, _, _ => by simp [execStmt]
  | .block b, h, st, G => by
    simp only [Stmt.rangesOK] at h
    simp only [execStmt, exec_ord_stmts b h ([] :: st) G]
  | .ite c t e, h, st, G => by
    simp only [Stmt.rangesOK, Bool.and_eq_true] at h
    simp only [execStmt]
    cases evalE st G c with
    | panic => rfl
    | bad => rfl
    | ok r =>
      simp only [res_ok_bind]
      cases asBool r.1 with
      | panic => rfl
      | bad => rfl
      | ok b =>
        simp only [res_ok_bind]
        rw [exec_ord_stmts t h.1 ([] :: st) r.2, exec_ord_stmts e h.2 ([] :: st) r.2]
  | .rangeSlice i x s body, h, st, G => by
    simp only [Stmt.rangesOK] at h
    simp only [execStmt]
    have hF : ∀ p : Ptr, (fun (j : Nat) (G1 : GHeap) => (ofOpt (elemAt G1 p j)).bind fun xv =>
        bodyOut (execStmts grow ord1 (loopScope i x j xv :: st) G1 body)) =
        (fun (j : Nat) (G1 : GHeap) => (ofOpt (elemAt G1 p j)).bind fun xv =>
        bodyOut (execStmts grow ord2 (loopScope i x j xv :: st) G1 body)) := by
      intro p
      funext j G1
      congr 1
      funext xv
      rw [exec_ord_stmts body h (loopScope i x j xv :: st) G1]
    simp only [hF]
  | .rangeMap k v m body, h, st, G => by
    simp only [Stmt.rangesOK] at h
    simp only [execStmt]
    cases evalE st G m with
    | panic => rfl
    | bad => rfl
    | ok r =>
      simp only [res_ok_bind]
      cases asMap r.1 with
      | panic => rfl
      | bad => rfl
      | ok o =>
        simp only [res_ok_bind]
        cases hes : getMap r.2 o with
        | none => rfl
        | some es =>
          simp only [ofOpt, res_ok_bind]
          have f1 : (fun (kv : Nat × Nat) (G1 : GHeap) =>
              (bodyOut (execStmts grow ord1 (loopScope k v kv.1 kv.2 :: st) G1 body)).bind fun G2 =>
                if getMap G2 o = some es then Res.ok G2 else Res.bad) = accF (addrsOf st body) k v o es := by
            funext kv G1
            exact iteration_eq grow ord1 k v st body h o es kv G1
          have f2 : (fun (kv : Nat × Nat) (G1 : GHeap) =>
              (bodyOut (execStmts grow ord2 (loopScope k v kv.1 kv.2 :: st) G1 body)).bind fun G2 =>
                if getMap G2 o = some es then Res.ok G2 else Res.bad) = accF (addrsOf st body) k v o es := by
            funext kv G1
            exact iteration_eq grow ord2 k v st body h o es kv G1
          rw [f1, f2]
          have hp : (ord1 es).Perm (ord2 es) := (h1 es).trans (h2 es).symm
          rw [loopGo_perm _ (accF_comm (addrsOf st body) k v o es) hp r.2]
end
end

end GooseVerif.Model.Coll
