import GooseVerif.Model.Lock

namespace GooseVerif.Model.Lock

variable {σ Op Ret L : Type}

/-! ### replay and lookup -/

theorem replay_snoc (P : Protocol σ Op Ret L) (s0 : σ) (l : List (Nat × Op)) (x : Nat × Op) :
    replay P s0 (l ++ [x]) = replayStep P (replay P s0 l) x := by
  simp [replay, List.foldl_append]

theorem foldl_ids (P : Protocol σ Op Ret L) (l : List (Nat × Op)) (acc : σ × List (Nat × Ret)) :
    (l.foldl (replayStep P) acc).2.map (·.1) = acc.2.map (·.1) ++ l.map (·.1) := by
  induction l generalizing acc with
  | nil => simp
  | cons x l ih => simp [List.foldl_cons, ih, replayStep]

theorem replay_ids (P : Protocol σ Op Ret L) (s0 : σ) (l : List (Nat × Op)) :
    (replay P s0 l).2.map (·.1) = l.map (·.1) := by
  have := foldl_ids P l (s0, [])
  simpa [replay] using this

theorem lookupId_append_left {α : Type} (p q : List (Nat × α)) (id : Nat) (h : id ∈ p.map (·.1)) :
    lookupId (p ++ q) id = lookupId p id := by
  simp only [lookupId, List.find?_append]
  cases hf : p.find? (fun e => e.1 == id) with
  | some e => simp
  | none =>
    exfalso
    simp only [List.mem_map] at h
    obtain ⟨e, he, rfl⟩ := h
    have := List.find?_eq_none.mp hf e he
    simp at this

theorem lookupId_append_right {α : Type} (p : List (Nat × α)) (id : Nat) (v : α) (h : id ∉ p.map (·.1)) :
    lookupId (p ++ [(id, v)]) id = some v := by
  simp only [lookupId, List.find?_append]
  have hf : p.find? (fun e => e.1 == id) = none := by
    apply List.find?_eq_none.mpr
    intro e he heq
    apply h
    simp only [List.mem_map]
    exact ⟨e, he, by simpa using heq⟩
  simp [hf]

theorem lookupId_mem {α : Type} (p : List (Nat × α)) (id : Nat) (v : α) (h : lookupId p id = some v) :
    id ∈ p.map (·.1) := by
  simp only [lookupId, Option.map_eq_some_iff] at h
  obtain ⟨e, he, _⟩ := h
  have hm := List.mem_of_find?_eq_some he
  have hk := List.find?_some he
  simp only [List.mem_map]
  exact ⟨e, hm, by simpa using hk⟩

theorem iter_reader (P : Protocol σ Op Ret L) (hR : ∀ op, P.mode op = .R → ∀ k x, (P.micro op k x).1 = x.1)
    (op : Op) (hm : P.mode op = .R) (k : Nat) (x : σ × L) : (iter P op k x).1 = x.1 := by
  induction k with
  | zero => rfl
  | succ k ih => simp only [iter]; rw [hR op hm, ih]

theorem upd_same {α : Type} (f : Nat → α) (t : Nat) (v : α) : upd f t v t = v := by simp [upd]
theorem upd_other {α : Type} (f : Nat → α) (t u : Nat) (v : α) (h : u ≠ t) : upd f t v u = f u := by simp [upd, h]

end GooseVerif.Model.Lock

namespace GooseVerif.Model.Lock

variable {σ Op Ret L : Type}

structure Inv (P : Protocol σ Op Ret L) (s0 : σ) (s : Sys σ Op Ret L) : Prop where
  linIds : ∀ e ∈ s.lin, e.1 < s.nextId
  linNodup : (s.lin.map (·.1)).Nodup
  waitIds : ∀ t id op, s.status t = .waiting id op → id < s.nextId ∧ id ∉ s.lin.map (·.1)
  waitUniq : ∀ t u id op op', s.status t = .waiting id op → s.status u = .waiting id op' → t = u
  res : ∀ e ∈ s.results, lookupId (replay P s0 s.lin.reverse).2 e.1 = some e.2
  free : s.writer = none → s.shared = (replay P s0 s.lin.reverse).1
  held : ∀ t, s.writer = some t → ∃ id op pc loc lin', s.status t = .inside id op pc loc ∧ P.mode op = .W ∧
           pc ≤ P.nsteps op ∧ s.lin = (id, op) :: lin' ∧
           iter P op pc ((replay P s0 lin'.reverse).1, P.init op) = (s.shared, loc) ∧
           (∀ u, ¬ isReaderInside P (s.status u))
  readers : ∀ t id op pc loc, s.status t = .inside id op pc loc → P.mode op = .R →
           s.writer = none ∧ pc ≤ P.nsteps op ∧ iter P op pc (s.shared, P.init op) = (s.shared, loc) ∧
           lookupId (replay P s0 s.lin.reverse).2 id = some (runAlone P op s.shared).2
  writersIn : ∀ t id op pc loc, s.status t = .inside id op pc loc → P.mode op = .W → s.writer = some t
  respLin : ∀ id r, Event.resp id r ∈ s.trace → id ∈ s.lin.map (·.1)
  insideLin : ∀ t id op pc loc, s.status t = .inside id op pc loc → id ∈ s.lin.map (·.1)
  invIds : ∀ id op, Event.inv id op ∈ s.trace → id < s.nextId
  rt : ∀ a b, RespBeforeInv s.trace a b → a ∈ s.lin.map (·.1) ∧ (b ∈ s.lin.map (·.1) → LinBefore s.lin a b)

theorem inv_init (P : Protocol σ Op Ret L) (s0 : σ) (progs : Nat → List Op) : Inv P s0 (initSys s0 progs) := by
  constructor <;> simp [initSys, replay, RespBeforeInv]

/-- replay of the linearisation after one more acquisition -/
theorem replay_cons (P : Protocol σ Op Ret L) (s0 : σ) (lin : List (Nat × Op)) (x : Nat × Op) :
    replay P s0 (x :: lin).reverse = replayStep P (replay P s0 lin.reverse) x := by
  rw [List.reverse_cons, replay_snoc]

theorem lookup_after_cons (P : Protocol σ Op Ret L) (s0 : σ) (lin : List (Nat × Op)) (x : Nat × Op) (id : Nat) (r : Ret)
    (h : lookupId (replay P s0 lin.reverse).2 id = some r) :
    lookupId (replay P s0 (x :: lin).reverse).2 id = some r := by
  rw [replay_cons]
  simp only [replayStep]
  rw [lookupId_append_left _ _ _ (lookupId_mem _ _ _ h)]
  exact h

theorem lookup_new (P : Protocol σ Op Ret L) (s0 : σ) (lin : List (Nat × Op)) (id : Nat) (op : Op)
    (h : id ∉ lin.map (·.1)) :
    lookupId (replay P s0 ((id, op) :: lin).reverse).2 id = some (runAlone P op (replay P s0 lin.reverse).1).2 := by
  rw [replay_cons]
  simp only [replayStep]
  apply lookupId_append_right
  rw [replay_ids]
  simpa using h

theorem respBeforeInv_cons_resp (tr : List (Event Op Ret)) (id : Nat) (r : Ret) (a b : Nat)
    (h : RespBeforeInv (Event.resp id r :: tr) a b) : RespBeforeInv tr a b := by
  obtain ⟨post, mid, pre, opb, ra, heq⟩ := h
  cases post with
  | nil => simp at heq
  | cons e post =>
    simp only [List.cons_append, List.cons.injEq] at heq
    exact ⟨post, mid, pre, opb, ra, by simpa using heq.2⟩

theorem respBeforeInv_cons_inv (tr : List (Event Op Ret)) (id : Nat) (op : Op) (a b : Nat)
    (h : RespBeforeInv (Event.inv id op :: tr) a b) :
    RespBeforeInv tr a b ∨ (b = id ∧ ∃ ra, Event.resp a ra ∈ tr) := by
  obtain ⟨post, mid, pre, opb, ra, heq⟩ := h
  cases post with
  | nil =>
    right
    simp only [List.nil_append, List.cons_append, List.cons.injEq, Event.inv.injEq] at heq
    refine ⟨heq.1.1.symm, ra, ?_⟩
    rw [heq.2]; simp
  | cons e post =>
    left
    simp only [List.cons_append, List.cons.injEq] at heq
    exact ⟨post, mid, pre, opb, ra, by simpa using heq.2⟩

theorem linBefore_cons (lin : List (Nat × Op)) (x : Nat × Op) (a b : Nat) (h : LinBefore lin a b) :
    LinBefore (x :: lin) a b := by
  obtain ⟨l1, l2, heq, hb, ha⟩ := h
  exact ⟨x :: l1, l2, by simp [heq], by simp [hb], ha⟩

theorem linBefore_new (lin : List (Nat × Op)) (b : Nat) (op : Op) (a : Nat) (ha : a ∈ lin.map (·.1)) :
    LinBefore ((b, op) :: lin) a b :=
  ⟨[(b, op)], lin, rfl, by simp, ha⟩

end GooseVerif.Model.Lock

namespace GooseVerif.Model.Lock

variable {σ Op Ret L : Type}

theorem inv_invoke (P : Protocol σ Op Ret L) (s0 : σ) (s : Sys σ Op Ret L) (hi : Inv P s0 s)
    (t : Nat) (op : Op) (rest : List Op) (h1 : s.status t = .idle) :
    Inv P s0 { s with status := upd s.status t (.waiting s.nextId op), todo := upd s.todo t rest,
                      nextId := s.nextId + 1, trace := .inv s.nextId op :: s.trace } := by
  have hst : ∀ u, u ≠ t → upd s.status t (Status.waiting s.nextId op) u = s.status u := fun u hu => upd_other _ _ _ _ hu
  have hstt : upd s.status t (Status.waiting s.nextId op) t = Status.waiting s.nextId op := upd_same _ _ _
  have hfresh : s.nextId ∉ s.lin.map (·.1) := by
    intro hm
    simp only [List.mem_map] at hm
    obtain ⟨e, he, heq⟩ := hm
    have := hi.linIds e he
    omega
  constructor
  · intro e he; have := hi.linIds e he; simp only; omega
  · exact hi.linNodup
  · intro u id op' hs
    by_cases hu : u = t
    · subst hu; simp only [hstt] at hs; cases hs
      exact ⟨by simp, hfresh⟩
    · simp only [hst u hu] at hs
      have := hi.waitIds u id op' hs
      exact ⟨by simp only; omega, this.2⟩
  · intro u v id op1 op2 hs1 hs2
    by_cases hu : u = t <;> by_cases hv : v = t
    · rw [hu, hv]
    · subst hu; simp only [hstt, hst v hv] at hs1 hs2; cases hs1
      have := (hi.waitIds v _ _ hs2).1; omega
    · subst hv; simp only [hstt, hst u hu] at hs1 hs2; cases hs2
      have := (hi.waitIds u _ _ hs1).1; omega
    · simp only [hst u hu, hst v hv] at hs1 hs2
      exact hi.waitUniq u v id op1 op2 hs1 hs2
  · exact hi.res
  · exact hi.free
  · intro w hw
    obtain ⟨id, op', pc, loc, lin', hs, hm, hpc, hl, hit, hnr⟩ := hi.held w hw
    have hwt : w ≠ t := by intro h; subst h; rw [h1] at hs; cases hs
    refine ⟨id, op', pc, loc, lin', by simp only [hst w hwt]; exact hs, hm, hpc, hl, hit, ?_⟩
    intro u
    by_cases hu : u = t
    · subst hu; simp only [hstt, isReaderInside]; exact fun h => h
    · simp only [hst u hu]; exact hnr u
  · intro u id op' pc loc hs hm
    by_cases hu : u = t
    · subst hu; simp only [hstt] at hs; cases hs
    · simp only [hst u hu] at hs; exact hi.readers u id op' pc loc hs hm
  · intro u id op' pc loc hs hm
    by_cases hu : u = t
    · subst hu; simp only [hstt] at hs; cases hs
    · simp only [hst u hu] at hs; exact hi.writersIn u id op' pc loc hs hm
  · intro id r hm
    simp only [List.mem_cons] at hm
    rcases hm with hm | hm
    · cases hm
    · exact hi.respLin id r hm
  · intro u id op' pc loc hs
    by_cases hu : u = t
    · subst hu; simp only [hstt] at hs; cases hs
    · simp only [hst u hu] at hs; exact hi.insideLin u id op' pc loc hs
  · intro id op' hm
    simp only [List.mem_cons] at hm
    rcases hm with hm | hm
    · cases hm; simp
    · have := hi.invIds id op' hm; simp only; omega
  · intro a b hrb
    rcases respBeforeInv_cons_inv _ _ _ _ _ hrb with h | ⟨hb, ra, hra⟩
    · exact hi.rt a b h
    · refine ⟨hi.respLin a ra hra, ?_⟩
      intro hbl
      exfalso
      rw [hb] at hbl
      exact hfresh hbl

end GooseVerif.Model.Lock

namespace GooseVerif.Model.Lock

variable {σ Op Ret L : Type}

theorem mem_ids_cons (lin : List (Nat × Op)) (x : Nat × Op) (a : Nat) (h : a ∈ lin.map (·.1)) :
    a ∈ (x :: lin).map (·.1) := by simp only [List.map_cons, List.mem_cons]; exact Or.inr h

/-- the parts of the invariant that do not depend on the lock mode, for an acquisition -/
theorem inv_acquire_common (P : Protocol σ Op Ret L) (s0 : σ) (s : Sys σ Op Ret L) (hi : Inv P s0 s)
    (t : Nat) (id : Nat) (op : Op) (h1 : s.status t = .waiting id op) (st' : Nat → Status Op L)
    (hst : ∀ u, u ≠ t → st' u = s.status u) (hstt : st' t = .inside id op 0 (P.init op)) :
    (∀ e ∈ (id, op) :: s.lin, e.1 < s.nextId) ∧ (((id, op) :: s.lin).map (·.1)).Nodup ∧
    (∀ u id' op', st' u = .waiting id' op' → id' < s.nextId ∧ id' ∉ ((id, op) :: s.lin).map (·.1)) ∧
    (∀ u v id' op1 op2, st' u = .waiting id' op1 → st' v = .waiting id' op2 → u = v) ∧
    (∀ e ∈ s.results, lookupId (replay P s0 ((id, op) :: s.lin).reverse).2 e.1 = some e.2) ∧
    (∀ id' r, Event.resp id' r ∈ s.trace → id' ∈ ((id, op) :: s.lin).map (·.1)) ∧
    (∀ u id' op' pc loc, st' u = .inside id' op' pc loc → id' ∈ ((id, op) :: s.lin).map (·.1)) ∧
    (∀ a b, RespBeforeInv s.trace a b → a ∈ ((id, op) :: s.lin).map (·.1) ∧
        (b ∈ ((id, op) :: s.lin).map (·.1) → LinBefore ((id, op) :: s.lin) a b)) := by
  have hw := hi.waitIds t id op h1
  refine ⟨?_, ?_, ?_, ?_, ?_, ?_, ?_, ?_⟩
  · intro e he
    simp only [List.mem_cons] at he
    rcases he with rfl | he
    · exact hw.1
    · exact hi.linIds e he
  · simp only [List.map_cons, List.nodup_cons]
    exact ⟨hw.2, hi.linNodup⟩
  · intro u id' op' hs
    have hu : u ≠ t := by intro h; subst h; rw [hstt] at hs; cases hs
    rw [hst u hu] at hs
    have := hi.waitIds u id' op' hs
    refine ⟨this.1, ?_⟩
    simp only [List.map_cons, List.mem_cons, not_or]
    refine ⟨?_, this.2⟩
    intro heq; subst heq
    exact hu (hi.waitUniq u t id' op' op hs h1)
  · intro u v id' op1 op2 hs1 hs2
    have hu : u ≠ t := by intro h; subst h; rw [hstt] at hs1; cases hs1
    have hv : v ≠ t := by intro h; subst h; rw [hstt] at hs2; cases hs2
    rw [hst u hu] at hs1; rw [hst v hv] at hs2
    exact hi.waitUniq u v id' op1 op2 hs1 hs2
  · intro e he
    exact lookup_after_cons P s0 s.lin (id, op) e.1 e.2 (hi.res e he)
  · intro id' r hm
    exact mem_ids_cons _ _ _ (hi.respLin id' r hm)
  · intro u id' op' pc loc hs
    by_cases hu : u = t
    · subst hu; rw [hstt] at hs; cases hs; simp
    · rw [hst u hu] at hs; exact mem_ids_cons _ _ _ (hi.insideLin u id' op' pc loc hs)
  · intro a b hrb
    have := hi.rt a b hrb
    refine ⟨mem_ids_cons _ _ _ this.1, ?_⟩
    intro hb
    simp only [List.map_cons, List.mem_cons] at hb
    by_cases hbl : b ∈ s.lin.map (·.1)
    · exact linBefore_cons _ _ _ _ (this.2 hbl)
    · rcases hb with hb | hb
      · subst hb; exact linBefore_new _ _ _ _ this.1
      · exact absurd hb hbl

theorem inv_acquireW (P : Protocol σ Op Ret L) (s0 : σ) (s : Sys σ Op Ret L) (hi : Inv P s0 s)
    (t : Nat) (id : Nat) (op : Op) (h1 : s.status t = .waiting id op) (hm : P.mode op = .W)
    (hfree : s.writer = none) (hnor : ∀ u, ¬ isReaderInside P (s.status u)) :
    Inv P s0 { s with status := upd s.status t (.inside id op 0 (P.init op)), writer := some t,
                      lin := (id, op) :: s.lin } := by
  have hst : ∀ u, u ≠ t → upd s.status t (Status.inside id op 0 (P.init op)) u = s.status u := fun u hu => upd_other _ _ _ _ hu
  have hstt : upd s.status t (Status.inside id op 0 (P.init op)) t = Status.inside id op 0 (P.init op) := upd_same _ _ _
  obtain ⟨c1, c2, c3, c4, c5, c6, c7, c8⟩ := inv_acquire_common P s0 s hi t id op h1 _ hst hstt
  refine ⟨c1, c2, c3, c4, c5, ?_, ?_, ?_, ?_, c6, c7, hi.invIds, c8⟩
  · intro h; cases h
  · intro w hw
    have hwt : w = t := by simpa using hw.symm
    subst hwt
    refine ⟨id, op, 0, P.init op, s.lin, hstt, hm, Nat.zero_le _, rfl, ?_, ?_⟩
    · simp only [iter]; rw [hi.free hfree]
    · intro u
      by_cases hu : u = w
      · subst hu; simp only [hstt, isReaderInside, hm]; exact fun h => by cases h
      · simp only [hst u hu]; exact hnor u
  · intro u id' op' pc loc hs hmr
    exfalso
    by_cases hu : u = t
    · subst hu; simp only [hstt] at hs; cases hs; rw [hm] at hmr; cases hmr
    · simp only [hst u hu] at hs
      exact hnor u (by rw [hs]; exact hmr)
  · intro u id' op' pc loc hs hmw
    by_cases hu : u = t
    · subst hu; rfl
    · simp only [hst u hu] at hs
      have := hi.writersIn u id' op' pc loc hs hmw
      rw [hfree] at this; cases this

theorem inv_acquireR (P : Protocol σ Op Ret L) (hR : ∀ op, P.mode op = .R → ∀ k x, (P.micro op k x).1 = x.1)
    (s0 : σ) (s : Sys σ Op Ret L) (hi : Inv P s0 s)
    (t : Nat) (id : Nat) (op : Op) (h1 : s.status t = .waiting id op) (hm : P.mode op = .R)
    (hfree : s.writer = none) :
    Inv P s0 { s with status := upd s.status t (.inside id op 0 (P.init op)), lin := (id, op) :: s.lin } := by
  have hst : ∀ u, u ≠ t → upd s.status t (Status.inside id op 0 (P.init op)) u = s.status u := fun u hu => upd_other _ _ _ _ hu
  have hstt : upd s.status t (Status.inside id op 0 (P.init op)) t = Status.inside id op 0 (P.init op) := upd_same _ _ _
  obtain ⟨c1, c2, c3, c4, c5, c6, c7, c8⟩ := inv_acquire_common P s0 s hi t id op h1 _ hst hstt
  have hw := hi.waitIds t id op h1
  have hsh := hi.free hfree
  refine ⟨c1, c2, c3, c4, c5, ?_, ?_, ?_, ?_, c6, c7, hi.invIds, c8⟩
  · intro _
    rw [replay_cons]
    simp only [replayStep, runAlone]
    rw [iter_reader P hR op hm]
    exact hsh
  · intro w hw'
    simp only at hw'
    rw [hfree] at hw'; cases hw'
  · intro u id' op' pc loc hs hmr
    by_cases hu : u = t
    · subst hu
      simp only [hstt] at hs
      cases hs
      refine ⟨hfree, Nat.zero_le _, rfl, ?_⟩
      rw [lookup_new P s0 s.lin id op hw.2, ← hsh]
    · simp only [hst u hu] at hs
      obtain ⟨r1, r2, r3, r4⟩ := hi.readers u id' op' pc loc hs hmr
      exact ⟨r1, r2, r3, lookup_after_cons P s0 s.lin (id, op) id' _ r4⟩
  · intro u id' op' pc loc hs hmw
    by_cases hu : u = t
    · subst hu; simp only [hstt] at hs; cases hs; rw [hm] at hmw; cases hmw
    · simp only [hst u hu] at hs
      exact hi.writersIn u id' op' pc loc hs hmw

end GooseVerif.Model.Lock

namespace GooseVerif.Model.Lock

variable {σ Op Ret L : Type}

theorem inv_micro (P : Protocol σ Op Ret L) (hR : ∀ op, P.mode op = .R → ∀ k x, (P.micro op k x).1 = x.1)
    (s0 : σ) (s : Sys σ Op Ret L) (hi : Inv P s0 s)
    (t : Nat) (id : Nat) (op : Op) (pc : Nat) (loc : L)
    (h1 : s.status t = .inside id op pc loc) (hpc : pc < P.nsteps op) :
    Inv P s0 { s with shared := (P.micro op pc (s.shared, loc)).1,
                      status := upd s.status t (.inside id op (pc + 1) (P.micro op pc (s.shared, loc)).2) } := by
  have hst : ∀ u, u ≠ t → upd s.status t (Status.inside id op (pc + 1) (P.micro op pc (s.shared, loc)).2) u = s.status u :=
    fun u hu => upd_other _ _ _ _ hu
  have hstt : upd s.status t (Status.inside id op (pc + 1) (P.micro op pc (s.shared, loc)).2) t
      = Status.inside id op (pc + 1) (P.micro op pc (s.shared, loc)).2 := upd_same _ _ _
  -- facts that do not depend on the mode
  have cWait : ∀ u id' op', upd s.status t (Status.inside id op (pc + 1) (P.micro op pc (s.shared, loc)).2) u = .waiting id' op' →
      s.status u = .waiting id' op' := by
    intro u id' op' hs
    by_cases hu : u = t
    · subst hu; rw [hstt] at hs; cases hs
    · rw [hst u hu] at hs; exact hs
  have cInside : ∀ u id' op' pc' loc', upd s.status t (Status.inside id op (pc + 1) (P.micro op pc (s.shared, loc)).2) u = .inside id' op' pc' loc' →
      id' ∈ s.lin.map (·.1) := by
    intro u id' op' pc' loc' hs
    by_cases hu : u = t
    · subst hu; rw [hstt] at hs; cases hs; exact hi.insideLin u id op pc loc h1
    · rw [hst u hu] at hs; exact hi.insideLin u id' op' pc' loc' hs
  cases hmode : P.mode op with
  | W =>
    have hw := hi.writersIn t id op pc loc h1 hmode
    obtain ⟨id2, op2, pc2, loc2, lin', hs2, hm2, hpc2, hl2, hit2, hnr2⟩ := hi.held t hw
    rw [h1] at hs2; cases hs2
    refine ⟨hi.linIds, hi.linNodup, fun u id' op' hs => hi.waitIds u id' op' (cWait u id' op' hs),
      fun u v id' o1 o2 h1' h2' => hi.waitUniq u v id' o1 o2 (cWait u id' o1 h1') (cWait v id' o2 h2'),
      hi.res, ?_, ?_, ?_, ?_, hi.respLin, cInside, hi.invIds, hi.rt⟩
    · intro h; simp only at h; rw [hw] at h; cases h
    · intro w hw'
      simp only at hw'
      have hwt : w = t := by rw [hw] at hw'; simpa using hw'.symm
      subst hwt
      refine ⟨id, op, pc + 1, _, lin', hstt, hmode, hpc, hl2, ?_, ?_⟩
      · simp only [iter]; rw [hit2]
      · intro u
        by_cases hu : u = w
        · subst hu; simp only [hstt, isReaderInside, hmode]; exact fun h => by cases h
        · simp only [hst u hu]; exact hnr2 u
    · intro u id' op' pc' loc' hs hmr
      exfalso
      by_cases hu : u = t
      · subst hu; simp only [hstt] at hs; cases hs; rw [hmode] at hmr; cases hmr
      · simp only [hst u hu] at hs
        exact hnr2 u (by rw [hs]; exact hmr)
    · intro u id' op' pc' loc' hs hmw
      by_cases hu : u = t
      · subst hu; exact hw
      · simp only [hst u hu] at hs; exact hi.writersIn u id' op' pc' loc' hs hmw
  | R =>
    obtain ⟨r1, r2, r3, r4⟩ := hi.readers t id op pc loc h1 hmode
    have hsame : (P.micro op pc (s.shared, loc)).1 = s.shared := hR op hmode pc (s.shared, loc)
    refine ⟨hi.linIds, hi.linNodup, fun u id' op' hs => hi.waitIds u id' op' (cWait u id' op' hs),
      fun u v id' o1 o2 h1' h2' => hi.waitUniq u v id' o1 o2 (cWait u id' o1 h1') (cWait v id' o2 h2'),
      hi.res, ?_, ?_, ?_, ?_, hi.respLin, cInside, hi.invIds, hi.rt⟩
    · intro h; simp only [hsame]; exact hi.free h
    · intro w hw'; simp only at hw'; rw [r1] at hw'; cases hw'
    · intro u id' op' pc' loc' hs hmr
      simp only [hsame]
      by_cases hu : u = t
      · subst hu
        simp only [hstt] at hs
        cases hs
        refine ⟨r1, hpc, ?_, r4⟩
        simp only [iter]; rw [r3]
        exact Prod.ext hsame rfl
      · simp only [hst u hu] at hs
        exact hi.readers u id' op' pc' loc' hs hmr
    · intro u id' op' pc' loc' hs hmw
      by_cases hu : u = t
      · subst hu; simp only [hstt] at hs; cases hs; rw [hmode] at hmw; cases hmw
      · simp only [hst u hu] at hs; exact hi.writersIn u id' op' pc' loc' hs hmw

theorem inv_release (P : Protocol σ Op Ret L)
    (s0 : σ) (s : Sys σ Op Ret L) (hi : Inv P s0 s)
    (t : Nat) (id : Nat) (op : Op) (pc : Nat) (loc : L)
    (h1 : s.status t = .inside id op pc loc) (hpc : pc = P.nsteps op) :
    Inv P s0 { s with status := upd s.status t .idle,
                      writer := if P.mode op = .W then none else s.writer,
                      results := (id, P.ret op loc) :: s.results,
                      trace := .resp id (P.ret op loc) :: s.trace } := by
  have hst : ∀ u, u ≠ t → upd s.status t (Status.idle : Status Op L) u = s.status u := fun u hu => upd_other _ _ _ _ hu
  have hstt : upd s.status t (Status.idle : Status Op L) t = Status.idle := upd_same _ _ _
  have cWait : ∀ u id' op', upd s.status t (Status.idle : Status Op L) u = .waiting id' op' → s.status u = .waiting id' op' := by
    intro u id' op' hs
    by_cases hu : u = t
    · subst hu; rw [hstt] at hs; cases hs
    · rw [hst u hu] at hs; exact hs
  have cIn : ∀ u id' op' pc' loc', upd s.status t (Status.idle : Status Op L) u = .inside id' op' pc' loc' →
      u ≠ t ∧ s.status u = .inside id' op' pc' loc' := by
    intro u id' op' pc' loc' hs
    by_cases hu : u = t
    · subst hu; rw [hstt] at hs; cases hs
    · rw [hst u hu] at hs; exact ⟨hu, hs⟩
  have cResp : ∀ id' r, Event.resp id' r ∈ (Event.resp id (P.ret op loc) :: s.trace) → id' ∈ s.lin.map (·.1) := by
    intro id' r hm
    simp only [List.mem_cons] at hm
    rcases hm with hm | hm
    · cases hm; exact hi.insideLin t id op pc loc h1
    · exact hi.respLin id' r hm
  have cInv : ∀ id' op', Event.inv id' op' ∈ (Event.resp id (P.ret op loc) :: s.trace) → id' < s.nextId := by
    intro id' op' hm
    simp only [List.mem_cons] at hm
    rcases hm with hm | hm
    · cases hm
    · exact hi.invIds id' op' hm
  have cRt : ∀ a b, RespBeforeInv (Event.resp id (P.ret op loc) :: s.trace) a b →
      a ∈ s.lin.map (·.1) ∧ (b ∈ s.lin.map (·.1) → LinBefore s.lin a b) :=
    fun a b h => hi.rt a b (respBeforeInv_cons_resp _ _ _ _ _ h)
  cases hmode : P.mode op with
  | W =>
    have hw := hi.writersIn t id op pc loc h1 hmode
    obtain ⟨id2, op2, pc2, loc2, lin', hs2, hm2, hpc2, hl2, hit2, hnr2⟩ := hi.held t hw
    rw [h1] at hs2; cases hs2
    have hnd := hi.linNodup
    rw [hl2] at hnd
    simp only [List.map_cons, List.nodup_cons] at hnd
    have hpred : lookupId (replay P s0 s.lin.reverse).2 id = some (P.ret op loc) := by
      rw [hl2, lookup_new P s0 lin' id op hnd.1]
      simp only [runAlone, ← hpc, hit2]
    refine ⟨hi.linIds, hi.linNodup, fun u id' op' hs => hi.waitIds u id' op' (cWait u id' op' hs),
      fun u v id' o1 o2 h1' h2' => hi.waitUniq u v id' o1 o2 (cWait u id' o1 h1') (cWait v id' o2 h2'),
      ?_, ?_, ?_, ?_, ?_, cResp, ?_, cInv, cRt⟩
    · intro e he
      simp only [List.mem_cons] at he
      rcases he with rfl | he
      · exact hpred
      · exact hi.res e he
    · intro _
      simp only
      rw [hl2, replay_cons]
      simp only [replayStep, runAlone, ← hpc, hit2]
    · intro w hw'; simp at hw'
    · intro u id' op' pc' loc' hs hmr
      exfalso
      obtain ⟨hu, hs'⟩ := cIn u id' op' pc' loc' hs
      exact hnr2 u (by rw [hs']; exact hmr)
    · intro u id' op' pc' loc' hs hmw
      exfalso
      obtain ⟨hu, hs'⟩ := cIn u id' op' pc' loc' hs
      have := hi.writersIn u id' op' pc' loc' hs' hmw
      rw [hw] at this
      exact hu (by simpa using this.symm)
    · intro u id' op' pc' loc' hs
      obtain ⟨hu, hs'⟩ := cIn u id' op' pc' loc' hs
      exact hi.insideLin u id' op' pc' loc' hs'
  | R =>
    obtain ⟨r1, r2, r3, r4⟩ := hi.readers t id op pc loc h1 hmode
    have hpred : lookupId (replay P s0 s.lin.reverse).2 id = some (P.ret op loc) := by
      rw [r4]; simp only [runAlone, ← hpc, r3]
    refine ⟨hi.linIds, hi.linNodup, fun u id' op' hs => hi.waitIds u id' op' (cWait u id' op' hs),
      fun u v id' o1 o2 h1' h2' => hi.waitUniq u v id' o1 o2 (cWait u id' o1 h1') (cWait v id' o2 h2'),
      ?_, ?_, ?_, ?_, ?_, cResp, ?_, cInv, cRt⟩
    · intro e he
      simp only [List.mem_cons] at he
      rcases he with rfl | he
      · exact hpred
      · exact hi.res e he
    · intro h; exact hi.free r1
    · intro w hw'
      simp only [reduceCtorEq, ↓reduceIte] at hw'
      rw [r1] at hw'; cases hw'
    · intro u id' op' pc' loc' hs hmr
      obtain ⟨hu, hs'⟩ := cIn u id' op' pc' loc' hs
      simp only [reduceCtorEq, ↓reduceIte]
      exact hi.readers u id' op' pc' loc' hs' hmr
    · intro u id' op' pc' loc' hs hmw
      obtain ⟨hu, hs'⟩ := cIn u id' op' pc' loc' hs
      simp only [reduceCtorEq, ↓reduceIte]
      exact hi.writersIn u id' op' pc' loc' hs' hmw
    · intro u id' op' pc' loc' hs
      obtain ⟨hu, hs'⟩ := cIn u id' op' pc' loc' hs
      exact hi.insideLin u id' op' pc' loc' hs'

/-- The invariant holds in every reachable state. -/
theorem inv_reachable (P : Protocol σ Op Ret L) (hR : ∀ op, P.mode op = .R → ∀ k x, (P.micro op k x).1 = x.1)
    (s0 : σ) (progs : Nat → List Op) (s : Sys σ Op Ret L) (h : Reachable P s0 progs s) : Inv P s0 s := by
  induction h with
  | init => exact inv_init P s0 progs
  | step s s' _ hstep ih =>
    cases hstep with
    | invoke t op rest h1 h2 => exact inv_invoke P s0 s ih t op rest h1
    | acquireW t id op h1 hm hfree hnor => exact inv_acquireW P s0 s ih t id op h1 hm hfree hnor
    | acquireR t id op h1 hm hfree => exact inv_acquireR P hR s0 s ih t id op h1 hm hfree
    | micro t id op pc loc h1 hpc => exact inv_micro P hR s0 s ih t id op pc loc h1 hpc
    | release t id op pc loc h1 hpc => exact inv_release P s0 s ih t id op pc loc h1 hpc

end GooseVerif.Model.Lock

namespace GooseVerif.Model.Lock

variable {σ Op Ret L : Type}

/-- Responses in the trace are exactly the recorded results. -/
theorem resp_iff_results (P : Protocol σ Op Ret L) (s0 : σ) (progs : Nat → List Op) (s : Sys σ Op Ret L)
    (h : Reachable P s0 progs s) : ∀ id r, Event.resp id r ∈ s.trace ↔ (id, r) ∈ s.results := by
  induction h with
  | init => intro id r; simp [initSys]
  | step s s' _ hstep ih =>
    cases hstep with
    | invoke t op rest h1 h2 =>
      intro id r
      simp only [List.mem_cons, reduceCtorEq, false_or]
      exact ih id r
    | acquireW t id op h1 hm hfree hnor => exact ih
    | acquireR t id op h1 hm hfree => exact ih
    | micro t id op pc loc h1 hpc => exact ih
    | release t id op pc loc h1 hpc =>
      intro id' r
      simp only [List.mem_cons, Event.resp.injEq, Prod.mk.injEq]
      rw [ih id' r]

/-- **Critical sections give atomicity.** For every protocol whose readers do not modify the shared
state, every reachable state (any number of threads, any programs, any schedule) has a
linearisation — the order of lock acquisitions — such that
(1) no invocation occurs twice in it,
(2) every completed invocation returned exactly what it returns in the sequential replay of the
    linearisation from the initial state, and
(3) an invocation that completed before another was invoked precedes it (real-time order). -/
theorem locked_linearizable (P : Protocol σ Op Ret L)
    (hR : ∀ op, P.mode op = .R → ∀ k x, (P.micro op k x).1 = x.1)
    (s0 : σ) (progs : Nat → List Op) (s : Sys σ Op Ret L) (h : Reachable P s0 progs s) :
    (s.lin.map (·.1)).Nodup ∧
    (∀ id r, Event.resp id r ∈ s.trace → lookupId (replay P s0 s.lin.reverse).2 id = some r) ∧
    (∀ a b, RespBeforeInv s.trace a b → a ∈ s.lin.map (·.1) ∧ (b ∈ s.lin.map (·.1) → LinBefore s.lin a b)) := by
  have hi := inv_reachable P hR s0 progs s h
  refine ⟨hi.linNodup, ?_, hi.rt⟩
  intro id r hm
  exact hi.res (id, r) ((resp_iff_results P s0 progs s h id r).mp hm)

end GooseVerif.Model.Lock
