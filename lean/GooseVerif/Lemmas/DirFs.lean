/-
Helper lemmas for C12 (`Props/C12.lean`): the directory-backed implementation `DirFs` over the OS
model `Os` (`Model/DirFs.lean`) refines the reference model `Ref` (`Model/Fs.lean`).

Shape of the argument (same as `Lemmas/MemFs.lean`): a simulation relation `DirSim r o`, one lemma
per operation (`dir_step_sim_*`), `dir_step_sim` by cases, `dir_run_sim` by induction.

Both sides allocate inode numbers in lock-step (one per successful `Create`, one per
`AtomicCreate`; an undisturbed `AtomicCreate` leaves no temporary file behind, so its temporary
file is always a brand new inode), so inode numbers and inode contents are *equal* on both sides:
no renaming of inodes is needed. The flat table `r.dirents` of the reference model, restricted to
a directory `d` (`proj d`), is the entry list of `d` in the OS model, in the same order.

One hypothesis beyond validity is needed and is explicit everywhere: the history hands out at most
`internalFd` (= 2^32) descriptors. `AtomicCreate` uses the descriptor slot `internalFd` for its
temporary file; a client descriptor with that very number would be overwritten and closed by it.

Core Lean only.
-/
import GooseVerif.Lemmas.AtomicCreate
import GooseVerif.Lemmas.MemFs

namespace GooseVerif.Lemmas.DirFs
open GooseVerif.Model.Fs
open GooseVerif.Lemmas.AtomicCreate (aget_cons aget_nil aget_aset_ne aget_adel_ne aget_adel_same
  aget_adel_some getD_set_same getD_set_ne getD_snoc_nil writeAt_end openat_tmp_none write_eq fsync_eq
  renameat_eq acFinish acRun_eq acWriteLoop_succ chunkLen)

/-! ### association lists -/

theorem mem_of_aget {κ ν : Type} [BEq κ] [LawfulBEq κ] (m : List (κ × ν)) (k : κ) (v : ν)
    (h : aget m k = some v) : (k, v) ∈ m := by
  simp only [aget, Option.map_eq_some_iff] at h
  obtain ⟨e, he, rfl⟩ := h
  have hm := List.mem_of_find?_eq_some he
  have hk := List.find?_some he
  have : e.1 = k := eq_of_beq hk
  subst this
  exact hm

/-! ### the entries of one directory inside the flat table of the reference model -/

/-- The entries of directory `d`: `(d, n) ↦ ino` becomes `n ↦ ino`, in the same order. -/
def proj (d : String) (m : List ((String × String) × Nat)) : List (String × Nat) :=
  (m.filter (fun e => e.1.1 == d)).map (fun e => (e.1.2, e.2))

theorem proj_nil (d : String) : proj d [] = [] := rfl

theorem proj_cons (d : String) (e : (String × String) × Nat) (m : List ((String × String) × Nat)) :
    proj d (e :: m) = if e.1.1 == d then (e.1.2, e.2) :: proj d m else proj d m := by
  simp only [proj, List.filter_cons]
  split <;> simp

theorem beq_pair (d' n' d n : String) : (((d', n') : String × String) == (d, n)) = (d' == d && n' == n) := rfl

theorem aget_proj (d n : String) (m : List ((String × String) × Nat)) :
    aget (proj d m) n = aget m (d, n) := by
  induction m with
  | nil => rfl
  | cons e m ih =>
    obtain ⟨⟨d', n'⟩, v⟩ := e
    rw [proj_cons, aget_cons, beq_pair]
    cases hd : d' == d with
    | false => simp [ih]
    | true => simp [aget_cons, ih]

theorem proj_aset_same (d n : String) (v : Nat) (m : List ((String × String) × Nat)) :
    proj d (aset m (d, n) v) = aset (proj d m) n v := by
  induction m with
  | nil => simp [aset, proj]
  | cons e m ih =>
    obtain ⟨⟨d', n'⟩, w⟩ := e
    simp only [aset, beq_pair]
    by_cases hd : d' = d
    · subst hd
      by_cases hn : n' = n
      · subst hn; simp [proj_cons, aset]
      · simp [proj_cons, hn, aset, ih]
    · simp [proj_cons, hd, ih]

theorem proj_aset_ne (d' d n : String) (v : Nat) (m : List ((String × String) × Nat)) (h : d' ≠ d) :
    proj d' (aset m (d, n) v) = proj d' m := by
  have hdd : ¬ d = d' := fun e => h e.symm
  induction m with
  | nil => simp [aset, proj, hdd]
  | cons e m ih =>
    obtain ⟨⟨d0, n0⟩, w⟩ := e
    simp only [aset, beq_pair]
    by_cases hd : d0 = d
    · subst hd
      by_cases hn : n0 = n
      · subst hn; simp [proj_cons, hdd]
      · simp [proj_cons, hdd, hn, ih]
    · simp [proj_cons, hd, ih]

theorem proj_adel_same (d n : String) (m : List ((String × String) × Nat)) :
    proj d (adel m (d, n)) = adel (proj d m) n := by
  induction m with
  | nil => rfl
  | cons e m ih =>
    obtain ⟨⟨d', n'⟩, w⟩ := e
    simp only [adel, List.filter_cons, beq_pair] at ih ⊢
    by_cases hd : d' = d
    · subst hd
      by_cases hn : n' = n
      · subst hn; simp [proj_cons, ih]
      · simp [proj_cons, hn, ih]
    · simp [proj_cons, hd, ih]

theorem proj_adel_ne (d' d n : String) (m : List ((String × String) × Nat)) (h : d' ≠ d) :
    proj d' (adel m (d, n)) = proj d' m := by
  have hdd : ¬ d = d' := fun e => h e.symm
  induction m with
  | nil => rfl
  | cons e m ih =>
    obtain ⟨⟨d0, n0⟩, w⟩ := e
    simp only [adel, List.filter_cons, beq_pair] at ih ⊢
    by_cases hd : d0 = d
    · subst hd
      by_cases hn : n0 = n
      · subst hn; simp [proj_cons, hdd, ih]
      · simp [proj_cons, hdd, hn, ih]
    · simp [proj_cons, hd, ih]

theorem proj_eq_nil (d : String) (m : List ((String × String) × Nat)) (h : ∀ e ∈ m, e.1.1 ≠ d) :
    proj d m = [] := by
  induction m with
  | nil => rfl
  | cons e m ih =>
    have he : (e.1.1 == d) = false := by simp; exact h e (List.mem_cons_self ..)
    rw [proj_cons, he]
    exact ih (fun e' he' => h e' (List.mem_cons_of_mem _ he'))

theorem proj_names (d : String) (m : List ((String × String) × Nat)) :
    (proj d m).map (·.1) = (m.filter (fun e => e.1.1 == d)).map (·.1.2) := by
  simp only [proj, List.map_map]
  rfl

/-! ### an undisturbed `AtomicCreate`, in closed form -/

/-- The write loop without short writes and without disturbance writes everything in one call. -/
theorem acWriteLoop_full (o1 : Os) (data : Bytes) (k t off : Nat)
    (h : aget o1.fds internalFd = some { ino := t, off := off, wr := true }) :
    acWriteLoop {} (data.length + 1) o1 internalFd data [] k =
      if data.isEmpty then (o1, k, none)
      else ((o1.write internalFd data data.length).1, k + 1, none) := by
  cases data with
  | nil => rfl
  | cons b bs =>
    have hw := write_eq o1 internalFd t off (b :: bs) (b :: bs).length h
    rw [List.length_cons, acWriteLoop_succ]
    simp only [List.isEmpty_cons, Bool.false_eq_true, ↓reduceIte, chunkLen, List.length_cons]
    rw [List.length_cons] at hw
    rw [hw]
    simp only [reduceCtorEq, ↓reduceIte]
    rw [acWriteLoop_succ]
    simp

/-- What holds between the write loop and `fsync` of an undisturbed call on a state whose root holds
no file under the temporary name. -/
structure AcMid (o : Os) (tmp : String) (data : Bytes) (o2 : Os) : Prop where
  inodes : o2.inodes = o.inodes ++ [data]
  root : o2.root = aset o.root tmp o.inodes.length
  dirs : o2.dirs = o.dirs
  fd : ∃ off, aget o2.fds internalFd = some { ino := o.inodes.length, off := off, wr := true }
  fds : ∀ k, k ≠ internalFd → aget o2.fds k = aget o.fds k
  nfds : o2.nfds = o.nfds

theorem acFinish_none (tmp d n : String) (o2 : Os) (k : Nat)
    (h : ((o2.fsync internalFd).1.renameat tmp (some d) n).2 = none) :
    acFinish {} tmp d n o2 k none =
      ((((o2.fsync internalFd).1.renameat tmp (some d) n).1.close internalFd).1, .ok) := by
  simp [acFinish, h]

/-- `fsync`, `renameat`, deferred `close` of an undisturbed call. -/
theorem AcMid.finish {o : Os} {tmp : String} {data : Bytes} {o2 : Os} (h : AcMid o tmp data o2)
    (d n : String) (es : List (String × Nat)) (k : Nat)
    (hroot : o.root = []) (hd : aget o.dirs d = some es) (hfd : aget o.fds internalFd = none) :
    ∃ o', acFinish {} tmp d n o2 k none = (o', .ok) ∧
      o'.inodes = o.inodes ++ [data] ∧ o'.root = [] ∧
      o'.dirs = aset o.dirs d (aset es n o.inodes.length) ∧
      (∀ k, aget o'.fds k = aget o.fds k) ∧ o'.nfds = o.nfds := by
  obtain ⟨off, hfd2⟩ := h.fd
  have e1 := fsync_eq o2 internalFd o.inodes.length off hfd2
  have hr : aget (o2.fsync internalFd).1.root tmp = some o.inodes.length := by
    rw [e1]; show aget o2.root tmp = _
    rw [h.root, AtomicCreate.aget_aset_same]
  have hd2 : aget (o2.fsync internalFd).1.dirs d = some es := by
    rw [e1]; show aget o2.dirs d = _
    rw [h.dirs]; exact hd
  have e2 := renameat_eq (o2.fsync internalFd).1 tmp d n o.inodes.length es hr hd2
  have hf := acFinish_none tmp d n o2 k (by rw [e2])
  rw [hf, e2, e1]
  have hc : aget o2.fds internalFd = some { ino := o.inodes.length, off := off, wr := true } := hfd2
  refine ⟨_, rfl, ?_, ?_, ?_, ?_, ?_⟩
  · simp only [Os.close, hc]; exact h.inodes
  · simp only [Os.close, hc]
    show adel o2.root tmp = []
    rw [h.root, hroot]
    simp [aset, adel]
  · simp only [Os.close, hc]
    show aset o2.dirs d (aset es n o.inodes.length) = _
    rw [h.dirs]
  · intro k'
    simp only [Os.close, hc]
    show aget (adel o2.fds internalFd) k' = _
    by_cases hk : k' = internalFd
    · subst hk; rw [aget_adel_same, hfd]
    · rw [aget_adel_ne _ _ _ hk, h.fds k' hk]
  · simp only [Os.close, hc]; exact h.nfds

/-- An undisturbed `AtomicCreate(d, n, data)` on a state without leftovers in the root, where `d`
exists and the internal descriptor slot is free: it returns normally; the file gets the brand new
inode `o.inodes.length` holding exactly `data`; `d/n` points to it; the root is empty again; no other
inode, no other entry, no client descriptor changes. -/
theorem acRun_undisturbed (o : Os) (d n : String) (data : Bytes) (es : List (String × Nat))
    (hroot : o.root = []) (hd : aget o.dirs d = some es) (hfd : aget o.fds internalFd = none) :
    ∃ o', acRun o d n data {} = (o', .ok) ∧
      o'.inodes = o.inodes ++ [data] ∧ o'.root = [] ∧
      o'.dirs = aset o.dirs d (aset es n o.inodes.length) ∧
      (∀ k, aget o'.fds k = aget o.fds k) ∧ o'.nfds = o.nfds := by
  have hrt : aget (Os.root { o with tmpCount := o.tmpCount + 1 }) (tmpName n o.tmpCount) = none := by
    show aget o.root _ = none
    rw [hroot]; rfl
  have e0 := openat_tmp_none { o with tmpCount := o.tmpCount + 1 } (tmpName n o.tmpCount) hrt
  rw [acRun_eq]
  simp only [reduceCtorEq, ↓reduceIte]
  rw [e0]
  simp only []
  have hfd1 : aget (aset o.fds internalFd ({ ino := o.inodes.length, off := 0, wr := true } : OsFd)) internalFd
      = some { ino := o.inodes.length, off := 0, wr := true } := AtomicCreate.aget_aset_same _ _ _
  rw [acWriteLoop_full _ data 1 o.inodes.length 0 hfd1]
  by_cases hdata : data = []
  · subst hdata
    simp only [List.isEmpty_nil, ↓reduceIte]
    refine AcMid.finish (o := o) (data := []) ?mid d n es 1 hroot hd hfd
    refine ⟨rfl, rfl, rfl, ⟨0, hfd1⟩, ?_, rfl⟩
    intro k hk
    exact aget_aset_ne _ _ _ _ hk
  · have hne : data.isEmpty = false := by cases data <;> simp_all
    simp only [hne, Bool.false_eq_true, ↓reduceIte]
    rw [write_eq _ internalFd o.inodes.length 0 data data.length hfd1]
    refine AcMid.finish (o := o) (data := data) ?mid2 d n es 2 hroot hd hfd
    refine ⟨?_, rfl, rfl, ⟨_, AtomicCreate.aget_aset_same _ _ _⟩, ?_, rfl⟩
    · show (o.inodes ++ [[]]).set o.inodes.length
        (writeAt ((o.inodes ++ [[]]).getD o.inodes.length []) 0 (data.take data.length)) = _
      simp [writeAt]
    · intro k hk
      show aget (aset (aset o.fds internalFd _) internalFd _) k = _
      rw [aget_aset_ne _ _ _ _ hk, aget_aset_ne _ _ _ _ hk]

/-! ### the simulation between `Ref` and `DirFs` -/

/-- The OS descriptor of a reference descriptor: same inode; a write descriptor (`Create`) sits at
the end of the file (`Os.write` writes at the descriptor offset), a read descriptor (`Open`) is
only used with `pread`. -/
def osFd (inodes : List Bytes) : Nat × FMode → OsFd
  | (ino, .append) => { ino := ino, off := (inodes.getD ino []).length, wr := true }
  | (ino, .read) => { ino := ino, off := 0, wr := false }

/-- Every open descriptor refers to an existing inode and was handed out before. -/
def FdsWf (fds : List (Nat × (Nat × FMode))) (ninodes nfds : Nat) : Prop :=
  ∀ k v, aget fds k = some v → v.1 < ninodes ∧ k < nfds

/-- An inode has at most one write descriptor (`Create` makes the only one, `Open` is read-only). -/
def FdsUniq (fds : List (Nat × (Nat × FMode))) : Prop :=
  ∀ k k' ino, aget fds k = some (ino, .append) → aget fds k' = some (ino, .append) → k = k'

/-- The simulation relation. Inode numbers and contents are equal on both sides; the root holds no
leftover temporary file; the entries of every directory are the reference model's entries of that
directory (same order); descriptors correspond through `osFd`; the descriptor counters agree.
The last three fields are invariants of the reference model alone. -/
structure DirSim (r : Ref) (o : Os) : Prop where
  inodes : o.inodes = r.inodes
  root : o.root = []
  dirs : ∀ d, aget o.dirs d = if r.dirs.contains d = true then some (proj d r.dirents) else none
  fds : ∀ k, aget o.fds k = (aget r.fds k).map (osFd r.inodes)
  nfds : o.nfds = r.nfds
  wfD : ∀ e ∈ r.dirents, e.2 < r.inodes.length ∧ r.dirs.contains e.1.1 = true
  wfF : FdsWf r.fds r.inodes.length r.nfds
  wuniq : FdsUniq r.fds

theorem dirSim_empty : DirSim Ref.empty Os.empty :=
  ⟨rfl, rfl, fun _ => rfl, fun _ => rfl, rfl, (fun e h => by simp [Ref.empty] at h),
   (fun k v h => by simp [Ref.empty, aget] at h), (fun k k' ino h => by simp [Ref.empty, aget] at h)⟩

/-! #### descriptor tables -/

theorem osFd_congr (l l' : List Bytes) (v : Nat × FMode) (h : l'.getD v.1 [] = l.getD v.1 []) :
    osFd l' v = osFd l v := by
  obtain ⟨ino, mode⟩ := v
  cases mode with
  | read => rfl
  | append => simp only [osFd, OsFd.mk.injEq, and_true, true_and]; simp only at h; rw [h]

theorem osFd_snoc (l : List Bytes) (data : Bytes) (v : Nat × FMode) (h : v.1 < l.length) :
    osFd (l ++ [data]) v = osFd l v := by
  apply osFd_congr
  simp only [List.getD_eq_getElem?_getD]
  rw [List.getElem?_append_left h]

theorem fds_congr {ofds : List (Nat × OsFd)} {rfds : List (Nat × (Nat × FMode))} {l l' : List Bytes}
    (h : ∀ k, aget ofds k = (aget rfds k).map (osFd l))
    (hl : ∀ k v, aget rfds k = some v → osFd l' v = osFd l v) :
    ∀ k, aget ofds k = (aget rfds k).map (osFd l') := by
  intro k
  rw [h k]
  cases hk : aget rfds k with
  | none => rfl
  | some v => simp only [Option.map_some, hl k v hk]

theorem fds_aset {ofds : List (Nat × OsFd)} {rfds : List (Nat × (Nat × FMode))} {l l' : List Bytes}
    (key : Nat) (v : Nat × FMode)
    (h : ∀ k, aget ofds k = (aget rfds k).map (osFd l))
    (hl : ∀ k w, k ≠ key → aget rfds k = some w → osFd l' w = osFd l w) :
    ∀ k, aget (aset ofds key (osFd l' v)) k = (aget (aset rfds key v) k).map (osFd l') := by
  intro k
  by_cases hk : k = key
  · subst hk; rw [AtomicCreate.aget_aset_same, AtomicCreate.aget_aset_same]; rfl
  · rw [aget_aset_ne _ _ _ _ hk, aget_aset_ne _ _ _ _ hk, h k]
    cases hg : aget rfds k with
    | none => rfl
    | some w => simp only [Option.map_some, hl k w hk hg]

theorem fds_adel {ofds : List (Nat × OsFd)} {rfds : List (Nat × (Nat × FMode))} {l : List Bytes}
    (key : Nat) (h : ∀ k, aget ofds k = (aget rfds k).map (osFd l)) :
    ∀ k, aget (adel ofds key) k = (aget (adel rfds key) k).map (osFd l) := by
  intro k
  by_cases hk : k = key
  · subst hk; rw [aget_adel_same, aget_adel_same]; rfl
  · rw [aget_adel_ne _ _ _ hk, aget_adel_ne _ _ _ hk, h k]

theorem FdsWf.aset {fds : List (Nat × (Nat × FMode))} {ni nf : Nat} (h : FdsWf fds ni nf)
    (v : Nat × FMode) {ni' : Nat} (hni : ni ≤ ni') (hv : v.1 < ni') : FdsWf (aset fds nf v) ni' (nf + 1) := by
  intro k w hk
  by_cases hkk : k = nf
  · subst hkk; rw [AtomicCreate.aget_aset_same] at hk; cases hk; exact ⟨hv, Nat.lt_succ_self _⟩
  · rw [aget_aset_ne _ _ _ _ hkk] at hk
    have := h k w hk
    exact ⟨by omega, by omega⟩

theorem FdsWf.mono {fds : List (Nat × (Nat × FMode))} {ni nf ni' : Nat} (h : FdsWf fds ni nf)
    (hni : ni ≤ ni') : FdsWf fds ni' nf := by
  intro k w hk
  have := h k w hk
  exact ⟨by omega, this.2⟩

theorem FdsWf.adel {fds : List (Nat × (Nat × FMode))} {ni nf : Nat} (h : FdsWf fds ni nf) (key : Nat) :
    FdsWf (adel fds key) ni nf :=
  fun k w hk => h k w (aget_adel_some _ _ _ _ hk)

theorem FdsUniq.adel {fds : List (Nat × (Nat × FMode))} (h : FdsUniq fds) (key : Nat) :
    FdsUniq (adel fds key) :=
  fun k k' ino hk hk' => h k k' ino (aget_adel_some _ _ _ _ hk) (aget_adel_some _ _ _ _ hk')

/-- A new descriptor that is not a second write descriptor of some inode. -/
theorem FdsUniq.aset {fds : List (Nat × (Nat × FMode))} (h : FdsUniq fds) (key : Nat) (v : Nat × FMode)
    (hfresh : ∀ k ino, k ≠ key → aget fds k = some (ino, .append) → v ≠ (ino, .append)) :
    FdsUniq (aset fds key v) := by
  intro k k' ino hk hk'
  by_cases h1 : k = key <;> by_cases h2 : k' = key
  · rw [h1, h2]
  · subst h1
    rw [AtomicCreate.aget_aset_same] at hk
    rw [aget_aset_ne _ _ _ _ h2] at hk'
    cases hk
    exact absurd rfl (hfresh k' ino h2 hk')
  · subst h2
    rw [AtomicCreate.aget_aset_same] at hk'
    rw [aget_aset_ne _ _ _ _ h1] at hk
    cases hk'
    exact absurd rfl (hfresh k ino h1 hk)
  · rw [aget_aset_ne _ _ _ _ h1] at hk
    rw [aget_aset_ne _ _ _ _ h2] at hk'
    exact h k k' ino hk hk'

/-! #### directory tables -/

theorem dirs_aset {odirs : List (String × List (String × Nat))} {rdirs : List String}
    {dirents : List ((String × String) × Nat)} (d n : String) (v : Nat)
    (h : ∀ d', aget odirs d' = if rdirs.contains d' = true then some (proj d' dirents) else none)
    (hc : rdirs.contains d = true) :
    ∀ d', aget (aset odirs d (aset (proj d dirents) n v)) d' =
      if rdirs.contains d' = true then some (proj d' (aset dirents (d, n) v)) else none := by
  intro d'
  by_cases hdd : d' = d
  · subst hdd
    rw [AtomicCreate.aget_aset_same, if_pos hc, proj_aset_same]
  · rw [aget_aset_ne _ _ _ _ hdd, h d', proj_aset_ne _ _ _ _ _ hdd]

theorem dirs_adel {odirs : List (String × List (String × Nat))} {rdirs : List String}
    {dirents : List ((String × String) × Nat)} (d n : String)
    (h : ∀ d', aget odirs d' = if rdirs.contains d' = true then some (proj d' dirents) else none)
    (hc : rdirs.contains d = true) :
    ∀ d', aget (aset odirs d (adel (proj d dirents) n)) d' =
      if rdirs.contains d' = true then some (proj d' (adel dirents (d, n))) else none := by
  intro d'
  by_cases hdd : d' = d
  · subst hdd
    rw [AtomicCreate.aget_aset_same, if_pos hc, proj_adel_same]
  · rw [aget_aset_ne _ _ _ _ hdd, h d', proj_adel_ne _ _ _ _ hdd]

section sim
variable {r : Ref} {o : Os}

theorem DirSim.dir_of_entry (hs : DirSim r o) {d n : String} {ino : Nat}
    (h : aget r.dirents (d, n) = some ino) : r.dirs.contains d = true ∧ ino < r.inodes.length := by
  have := hs.wfD _ (mem_of_aget _ _ _ h)
  exact ⟨this.2, this.1⟩

theorem DirSim.dir_some (hs : DirSim r o) {d : String} (hc : r.dirs.contains d = true) :
    aget o.dirs d = some (proj d r.dirents) := by
  rw [hs.dirs d, if_pos hc]

theorem DirSim.dir_none (hs : DirSim r o) {d : String} (hc : r.dirs.contains d = false) :
    aget o.dirs d = none := by
  rw [hs.dirs d, hc]; rfl

/-- Names resolve to the same inode on both sides. -/
theorem DirSim.lookup (hs : DirSim r o) (d n : String) : o.lookup (some d) n = aget r.dirents (d, n) := by
  simp only [Os.lookup, Os.entries]
  cases hc : r.dirs.contains d with
  | true => rw [hs.dir_some hc, Option.bind_some, aget_proj]
  | false =>
    rw [hs.dir_none hc, Option.bind_none]
    cases hg : aget r.dirents (d, n) with
    | none => rfl
    | some ino => have := (hs.dir_of_entry hg).1; rw [hc] at this; cases this

theorem DirSim.fd_some (hs : DirSim r o) {k : Nat} {v : Nat × FMode} (h : aget r.fds k = some v) :
    aget o.fds k = some (osFd r.inodes v) := by
  rw [hs.fds k, h]; rfl

theorem DirSim.fd_none (hs : DirSim r o) {k : Nat} (h : aget r.fds k = none) : aget o.fds k = none := by
  rw [hs.fds k, h]; rfl

/-- The internal descriptor slot of `AtomicCreate` is free as long as at most `internalFd` descriptors
were handed out. -/
theorem DirSim.internal_free (hs : DirSim r o) (hb : r.nfds ≤ internalFd) : aget o.fds internalFd = none := by
  cases hg : aget r.fds internalFd with
  | none => exact hs.fd_none hg
  | some v => have := (hs.wfF _ _ hg).2; omega

/-! #### the system calls on related states, as equations -/

theorem openat_create_new (o : Os) (d n : String) (es : List (String × Nat))
    (hd : aget o.dirs d = some es) (hn : aget es n = none) :
    o.openat (some d) n { creat := true, excl := true, wr := true } =
      ({ o with inodes := o.inodes ++ [[]], durable := o.durable ++ [[]],
                dirs := aset o.dirs d (aset es n o.inodes.length),
                fds := aset o.fds o.nfds { ino := o.inodes.length, off := 0, wr := true },
                nfds := o.nfds + 1 }, none) := by
  simp [Os.openat, Os.entries, Os.setEntries, hd, hn]

theorem openat_create_exists (o : Os) (d n : String) (es : List (String × Nat)) (ino : Nat)
    (hd : aget o.dirs d = some es) (hn : aget es n = some ino) :
    o.openat (some d) n { creat := true, excl := true, wr := true } = (o, some .EEXIST) := by
  simp [Os.openat, Os.entries, hd, hn]

theorem openat_open (o : Os) (d n : String) (es : List (String × Nat)) (ino : Nat)
    (hd : aget o.dirs d = some es) (hn : aget es n = some ino) :
    o.openat (some d) n {} =
      ({ o with fds := aset o.fds o.nfds { ino := ino, off := 0, wr := false }, nfds := o.nfds + 1 }, none) := by
  simp [Os.openat, Os.entries, hd, hn]

/-! #### one lemma per operation -/

theorem dir_step_sim_mkdir (hs : DirSim r o) (d : String) (hv : (r.step (.mkdir d)).2 ≠ .invalid) :
    (DirFs.step o (.mkdir d)).2 = (r.step (.mkdir d)).2 ∧
    DirSim (r.step (.mkdir d)).1 (DirFs.step o (.mkdir d)).1 := by
  cases hc : r.dirs.contains d with
  | true => exfalso; apply hv; simp only [Ref.step, hc, ↓reduceIte]
  | false =>
    have hd := hs.dir_none hc
    have er : r.step (.mkdir d) = ({ r with dirs := d :: r.dirs }, .ok) := by
      simp only [Ref.step, hc, Bool.false_eq_true, ↓reduceIte]
    have eo : DirFs.step o (.mkdir d) = ({ o with dirs := aset o.dirs d [] }, .ok) := by
      simp [DirFs.step, Os.mkdirat, hd, hs.root, aget_nil]
    rw [er, eo]
    refine ⟨rfl, hs.inodes, hs.root, ?_, hs.fds, hs.nfds, ?_, hs.wfF, hs.wuniq⟩
    · intro d'
      show aget (aset o.dirs d []) d' =
        if (d :: r.dirs).contains d' = true then some (proj d' r.dirents) else none
      rw [List.contains_cons]
      by_cases hdd : d' = d
      · subst hdd
        have hp : proj d' r.dirents = [] := proj_eq_nil _ _ (fun e he heq => by
          have := (hs.wfD e he).2; rw [heq, hc] at this; cases this)
        rw [AtomicCreate.aget_aset_same, hp]; simp
      · rw [aget_aset_ne _ _ _ _ hdd, hs.dirs d']
        have : (d' == d) = false := by simp [hdd]
        rw [this, Bool.false_or]
    · intro e he
      have := hs.wfD e he
      refine ⟨this.1, ?_⟩
      show (d :: r.dirs).contains e.1.1 = true
      rw [List.contains_cons, this.2, Bool.or_true]

theorem dir_step_sim_create (hs : DirSim r o) (d n : String) (hv : (r.step (.create d n)).2 ≠ .invalid) :
    (DirFs.step o (.create d n)).2 = (r.step (.create d n)).2 ∧
    DirSim (r.step (.create d n)).1 (DirFs.step o (.create d n)).1 := by
  cases hc : r.dirs.contains d with
  | false => exfalso; apply hv; simp only [Ref.step, hc, Bool.not_false, ↓reduceIte]
  | true =>
    have hd := hs.dir_some hc
    cases hlk : aget r.dirents (d, n) with
    | some ino =>
      have er : r.step (.create d n) = (r, .nofd) := by
        simp only [Ref.step, Ref.lookup, hc, hlk, Bool.not_true, Bool.false_eq_true, ↓reduceIte]
      have hn : aget (proj d r.dirents) n = some ino := by rw [aget_proj]; exact hlk
      have eo : DirFs.step o (.create d n) = (o, .nofd) := by
        simp only [DirFs.step, openat_create_exists o d n _ ino hd hn]
      rw [er, eo]
      exact ⟨rfl, hs⟩
    | none =>
      have er : r.step (.create d n) =
          ({ r with inodes := r.inodes ++ [[]],
                    dirents := aset r.dirents (d, n) r.inodes.length,
                    fds := aset r.fds r.nfds (r.inodes.length, .append),
                    nfds := r.nfds + 1 }, .fd r.nfds) := by
        simp only [Ref.step, Ref.lookup, hc, hlk, Bool.not_true, Bool.false_eq_true, ↓reduceIte]
      have hn : aget (proj d r.dirents) n = none := by rw [aget_proj]; exact hlk
      have eo : DirFs.step o (.create d n) =
          ({ o with inodes := o.inodes ++ [[]], durable := o.durable ++ [[]],
                    dirs := aset o.dirs d (aset (proj d r.dirents) n o.inodes.length),
                    fds := aset o.fds o.nfds { ino := o.inodes.length, off := 0, wr := true },
                    nfds := o.nfds + 1 }, .fd o.nfds) := by
        simp only [DirFs.step, openat_create_new o d n _ hd hn]
      rw [er, eo]
      refine ⟨by rw [hs.nfds], ?_, hs.root, ?_, ?_, ?_, ?_, ?_, ?_⟩
      · show o.inodes ++ [[]] = r.inodes ++ [[]]
        rw [hs.inodes]
      · show ∀ d', aget (aset o.dirs d (aset (proj d r.dirents) n o.inodes.length)) d' = _
        rw [hs.inodes]
        exact dirs_aset d n _ hs.dirs hc
      · show ∀ k, aget (aset o.fds o.nfds { ino := o.inodes.length, off := 0, wr := true }) k =
          (aget (aset r.fds r.nfds (r.inodes.length, .append)) k).map (osFd (r.inodes ++ [[]]))
        rw [hs.inodes, hs.nfds]
        have hnew : osFd (r.inodes ++ [[]]) (r.inodes.length, .append) =
            { ino := r.inodes.length, off := 0, wr := true } := by
          simp [osFd, List.getD_eq_getElem?_getD]
        rw [← hnew]
        exact fds_aset _ _ hs.fds (fun k w _ hw => osFd_snoc _ _ _ (hs.wfF k w hw).1)
      · show o.nfds + 1 = r.nfds + 1
        rw [hs.nfds]
      · intro e he
        show e.2 < (r.inodes ++ [[]]).length ∧ _
        rw [List.length_append]
        rcases mem_aset _ _ _ _ he with h | h
        · have := hs.wfD e h; exact ⟨by omega, this.2⟩
        · rw [h]; exact ⟨by simp, hc⟩
      · show FdsWf (aset r.fds r.nfds (r.inodes.length, .append)) (r.inodes ++ [[]]).length (r.nfds + 1)
        rw [List.length_append]
        exact hs.wfF.aset _ (by simp) (by simp)
      · refine hs.wuniq.aset _ _ ?_
        intro k ino _ hk heq
        have := (hs.wfF k _ hk).1
        cases heq
        simp at this

theorem dir_step_sim_append (hs : DirSim r o) (k : Nat) (data : Bytes)
    (hv : (r.step (.append k data)).2 ≠ .invalid) :
    (DirFs.step o (.append k data)).2 = (r.step (.append k data)).2 ∧
    DirSim (r.step (.append k data)).1 (DirFs.step o (.append k data)).1 := by
  cases hk : aget r.fds k with
  | none => exfalso; apply hv; simp only [Ref.step, hk]
  | some v =>
    obtain ⟨ino, mode⟩ := v
    cases mode with
    | read => exfalso; apply hv; simp only [Ref.step, hk]
    | append =>
      have hino := (hs.wfF k _ hk).1
      have er : r.step (.append k data) =
          ({ r with inodes := r.inodes.set ino ((r.inodes.getD ino []) ++ data) }, .ok) := by
        simp only [Ref.step, hk]
      have hfd : aget o.fds k = some { ino := ino, off := (r.inodes.getD ino []).length, wr := true } :=
        hs.fd_some hk
      have eo : DirFs.step o (.append k data) =
          ({ o with inodes := r.inodes.set ino ((r.inodes.getD ino []) ++ data),
                    fds := aset o.fds k { ino := ino, off := (r.inodes.getD ino [] ++ data).length, wr := true } },
            .ok) := by
        simp only [DirFs.step, write_eq o k ino _ data data.length hfd, List.take_length, hs.inodes,
          writeAt_end, List.length_append, Option.isSome_none, Bool.false_eq_true, ↓reduceIte]
      rw [er, eo]
      refine ⟨rfl, rfl, hs.root, hs.dirs, ?_, hs.nfds, ?_, ?_, hs.wuniq⟩
      · intro k'
        show aget (aset o.fds k _) k' = (aget r.fds k').map (osFd (r.inodes.set ino _))
        by_cases hkk : k' = k
        · subst hkk
          rw [AtomicCreate.aget_aset_same, hk]
          simp only [Option.map_some, osFd, getD_set_same _ _ _ hino]
        · rw [aget_aset_ne _ _ _ _ hkk, hs.fds k']
          cases hw : aget r.fds k' with
          | none => rfl
          | some w =>
            obtain ⟨ino2, mode2⟩ := w
            simp only [Option.map_some, Option.some.injEq]
            cases mode2 with
            | read => rfl
            | append =>
              have hii : ino2 ≠ ino := by
                intro hii
                subst hii
                exact hkk (hs.wuniq k' k ino2 hw hk)
              exact (osFd_congr _ _ _ (getD_set_ne _ _ _ _ hii)).symm
      · intro e he
        show e.2 < (r.inodes.set ino _).length ∧ _
        rw [List.length_set]; exact hs.wfD e he
      · show FdsWf r.fds (r.inodes.set ino _).length r.nfds
        rw [List.length_set]; exact hs.wfF

theorem dir_step_sim_close (hs : DirSim r o) (k : Nat) (hv : (r.step (.close k)).2 ≠ .invalid) :
    (DirFs.step o (.close k)).2 = (r.step (.close k)).2 ∧
    DirSim (r.step (.close k)).1 (DirFs.step o (.close k)).1 := by
  cases hk : aget r.fds k with
  | none => exfalso; apply hv; simp only [Ref.step, hk]
  | some v =>
    have er : r.step (.close k) = ({ r with fds := adel r.fds k }, .ok) := by
      simp only [Ref.step, hk]
    have eo : DirFs.step o (.close k) = ({ o with fds := adel o.fds k }, .ok) := by
      simp [DirFs.step, Os.close, hs.fd_some hk]
    rw [er, eo]
    exact ⟨rfl, hs.inodes, hs.root, hs.dirs, fds_adel k hs.fds, hs.nfds, hs.wfD, hs.wfF.adel k,
      hs.wuniq.adel k⟩

theorem dir_step_sim_open (hs : DirSim r o) (d n : String) (hv : (r.step (.open_ d n)).2 ≠ .invalid) :
    (DirFs.step o (.open_ d n)).2 = (r.step (.open_ d n)).2 ∧
    DirSim (r.step (.open_ d n)).1 (DirFs.step o (.open_ d n)).1 := by
  cases hc : r.dirs.contains d with
  | false => exfalso; apply hv; simp only [Ref.step, hc, Bool.not_false, ↓reduceIte]
  | true =>
    have hd := hs.dir_some hc
    cases hlk : aget r.dirents (d, n) with
    | none =>
      exfalso; apply hv
      simp only [Ref.step, Ref.lookup, hc, hlk, Bool.not_true, Bool.false_eq_true, ↓reduceIte]
    | some ino =>
      have er : r.step (.open_ d n) =
          ({ r with fds := aset r.fds r.nfds (ino, .read), nfds := r.nfds + 1 }, .fd r.nfds) := by
        simp only [Ref.step, Ref.lookup, hc, hlk, Bool.not_true, Bool.false_eq_true, ↓reduceIte]
      have hn : aget (proj d r.dirents) n = some ino := by rw [aget_proj]; exact hlk
      have eo : DirFs.step o (.open_ d n) =
          ({ o with fds := aset o.fds o.nfds { ino := ino, off := 0, wr := false }, nfds := o.nfds + 1 },
            .fd o.nfds) := by
        simp only [DirFs.step, openat_open o d n _ ino hd hn]
      rw [er, eo]
      refine ⟨by rw [hs.nfds], hs.inodes, hs.root, hs.dirs, ?_, ?_, hs.wfD, ?_, ?_⟩
      · show ∀ k, aget (aset o.fds o.nfds { ino := ino, off := 0, wr := false }) k =
          (aget (aset r.fds r.nfds (ino, .read)) k).map (osFd r.inodes)
        rw [hs.nfds]
        exact fds_aset (l := r.inodes) (l' := r.inodes) r.nfds (ino, .read) hs.fds (fun _ _ _ _ => rfl)
      · show o.nfds + 1 = r.nfds + 1
        rw [hs.nfds]
      · exact hs.wfF.aset _ (Nat.le_refl _) (hs.dir_of_entry hlk).2
      · refine hs.wuniq.aset _ _ ?_
        intro k ino' _ _ heq
        cases heq

theorem dir_step_sim_readAt (hs : DirSim r o) (k off len : Nat)
    (hv : (r.step (.readAt k off len)).2 ≠ .invalid) :
    (DirFs.step o (.readAt k off len)).2 = (r.step (.readAt k off len)).2 ∧
    DirSim (r.step (.readAt k off len)).1 (DirFs.step o (.readAt k off len)).1 := by
  cases hk : aget r.fds k with
  | none => exfalso; apply hv; simp only [Ref.step, hk]
  | some v =>
    obtain ⟨ino, mode⟩ := v
    cases mode with
    | append => exfalso; apply hv; simp only [Ref.step, hk]
    | read =>
      have er : r.step (.readAt k off len) = (r, .bytes (readRange (r.inodes.getD ino []) off len)) := by
        simp only [Ref.step, hk]
      have hfd : aget o.fds k = some { ino := ino, off := 0, wr := false } := hs.fd_some hk
      have eo : DirFs.step o (.readAt k off len) = (o, .bytes (readRange (r.inodes.getD ino []) off len)) := by
        simp [DirFs.step, Os.pread, hfd, hs.inodes]
      rw [er, eo]
      exact ⟨rfl, hs⟩

theorem dir_step_sim_delete (hs : DirSim r o) (d n : String) (hv : (r.step (.delete d n)).2 ≠ .invalid) :
    (DirFs.step o (.delete d n)).2 = (r.step (.delete d n)).2 ∧
    DirSim (r.step (.delete d n)).1 (DirFs.step o (.delete d n)).1 := by
  cases hlk : aget r.dirents (d, n) with
  | none => exfalso; apply hv; simp only [Ref.step, Ref.lookup, hlk]
  | some ino =>
    have hc := (hs.dir_of_entry hlk).1
    have hd := hs.dir_some hc
    have hn : aget (proj d r.dirents) n = some ino := by rw [aget_proj]; exact hlk
    have er : r.step (.delete d n) = ({ r with dirents := adel r.dirents (d, n) }, .ok) := by
      simp only [Ref.step, Ref.lookup, hlk]
    have eo : DirFs.step o (.delete d n) =
        ({ o with dirs := aset o.dirs d (adel (proj d r.dirents) n) }, .ok) := by
      simp [DirFs.step, Os.unlinkat, Os.entries, Os.setEntries, hd, hn]
    rw [er, eo]
    refine ⟨rfl, hs.inodes, hs.root, dirs_adel d n hs.dirs hc, hs.fds, hs.nfds, ?_, hs.wfF, hs.wuniq⟩
    intro e he
    exact hs.wfD e (mem_adel _ _ _ he)

theorem dir_step_sim_link (hs : DirSim r o) (od on nd nn : String)
    (hv : (r.step (.link od on nd nn)).2 ≠ .invalid) :
    (DirFs.step o (.link od on nd nn)).2 = (r.step (.link od on nd nn)).2 ∧
    DirSim (r.step (.link od on nd nn)).1 (DirFs.step o (.link od on nd nn)).1 := by
  cases hco : r.dirs.contains od with
  | false =>
    exfalso; apply hv
    simp only [Ref.step, hco, Bool.not_false, Bool.true_or, ↓reduceIte]
  | true =>
  cases hcn : r.dirs.contains nd with
  | false =>
    exfalso; apply hv
    simp only [Ref.step, hcn, Bool.not_false, Bool.or_true, ↓reduceIte]
  | true =>
    have hd := hs.dir_some hcn
    have hif : (!r.dirs.contains od || !r.dirs.contains nd) = false := by rw [hco, hcn]; rfl
    cases hlk : aget r.dirents (od, on) with
    | none => exfalso; apply hv; simp only [Ref.step, Ref.lookup, hif, Bool.false_eq_true, ↓reduceIte, hlk]
    | some ino =>
      have hlo : o.lookup (some od) on = some ino := by rw [hs.lookup]; exact hlk
      cases hlk2 : aget r.dirents (nd, nn) with
      | some ino2 =>
        have er : r.step (.link od on nd nn) = (r, .bool false) := by
          simp only [Ref.step, Ref.lookup, hif, Bool.false_eq_true, ↓reduceIte, hlk, hlk2]
        have hn : aget (proj nd r.dirents) nn = some ino2 := by rw [aget_proj]; exact hlk2
        have eo : DirFs.step o (.link od on nd nn) = (o, .bool false) := by
          simp [DirFs.step, Os.linkat, hlo, Os.entries, hd, hn]
        rw [er, eo]
        exact ⟨rfl, hs⟩
      | none =>
        have er : r.step (.link od on nd nn) =
            ({ r with dirents := aset r.dirents (nd, nn) ino }, .bool true) := by
          simp only [Ref.step, Ref.lookup, hif, Bool.false_eq_true, ↓reduceIte, hlk, hlk2]
        have hn : aget (proj nd r.dirents) nn = none := by rw [aget_proj]; exact hlk2
        have eo : DirFs.step o (.link od on nd nn) =
            ({ o with dirs := aset o.dirs nd (aset (proj nd r.dirents) nn ino) }, .bool true) := by
          simp [DirFs.step, Os.linkat, hlo, Os.entries, Os.setEntries, hd, hn]
        rw [er, eo]
        refine ⟨rfl, hs.inodes, hs.root, dirs_aset nd nn ino hs.dirs hcn, hs.fds, hs.nfds, ?_, hs.wfF,
          hs.wuniq⟩
        intro e he
        rcases mem_aset _ _ _ _ he with h | h
        · exact hs.wfD e h
        · rw [h]; exact ⟨(hs.dir_of_entry hlk).2, hcn⟩

theorem dir_step_sim_atomic (hs : DirSim r o) (hb : r.nfds ≤ internalFd) (d n : String) (data : Bytes)
    (hv : (r.step (.atomic d n data)).2 ≠ .invalid) :
    (DirFs.step o (.atomic d n data)).2 = (r.step (.atomic d n data)).2 ∧
    DirSim (r.step (.atomic d n data)).1 (DirFs.step o (.atomic d n data)).1 := by
  cases hc : r.dirs.contains d with
  | false => exfalso; apply hv; simp only [Ref.step, hc, Bool.not_false, ↓reduceIte]
  | true =>
    have hd := hs.dir_some hc
    have er : r.step (.atomic d n data) =
        ({ r with inodes := r.inodes ++ [data],
                  dirents := aset r.dirents (d, n) r.inodes.length }, .ok) := by
      simp only [Ref.step, hc, Bool.not_true, Bool.false_eq_true, ↓reduceIte]
    obtain ⟨o', hrun, hi, hroot, hdirs, hfds, hnfds⟩ :=
      acRun_undisturbed o d n data _ hs.root hd (hs.internal_free hb)
    have eo : DirFs.step o (.atomic d n data) = (o', .ok) := by
      simp only [DirFs.step, hrun, ↓reduceIte]
    rw [er, eo]
    refine ⟨rfl, ?_, hroot, ?_, ?_, ?_, ?_, ?_, hs.wuniq⟩
    · show o'.inodes = r.inodes ++ [data]
      rw [hi, hs.inodes]
    · show ∀ d', aget o'.dirs d' = _
      rw [hdirs, hs.inodes]
      exact dirs_aset d n _ hs.dirs hc
    · intro k
      show aget o'.fds k = (aget r.fds k).map (osFd (r.inodes ++ [data]))
      rw [hfds k]
      exact fds_congr hs.fds (fun k w hw => osFd_snoc _ _ _ (hs.wfF k w hw).1) k
    · show o'.nfds = r.nfds
      rw [hnfds, hs.nfds]
    · intro e he
      show e.2 < (r.inodes ++ [data]).length ∧ _
      rw [List.length_append]
      rcases mem_aset _ _ _ _ he with h | h
      · have := hs.wfD e h; exact ⟨by omega, this.2⟩
      · rw [h]; exact ⟨by simp, hc⟩
    · show FdsWf r.fds (r.inodes ++ [data]).length r.nfds
      rw [List.length_append]
      exact hs.wfF.mono (by omega)

theorem dir_step_sim_list (hs : DirSim r o) (d : String) (hv : (r.step (.list d)).2 ≠ .invalid) :
    (DirFs.step o (.list d)).2 = (r.step (.list d)).2 ∧
    DirSim (r.step (.list d)).1 (DirFs.step o (.list d)).1 := by
  cases hc : r.dirs.contains d with
  | false => exfalso; apply hv; simp only [Ref.step, hc, Bool.not_false, ↓reduceIte]
  | true =>
    have hd := hs.dir_some hc
    have er : r.step (.list d) = (r, .names (namesIn r.dirents d)) := by
      simp only [Ref.step, hc, Bool.not_true, Bool.false_eq_true, ↓reduceIte]
    have eo : DirFs.step o (.list d) = (o, .names (namesIn r.dirents d)) := by
      simp only [DirFs.step, hd, namesIn, proj_names]
    rw [er, eo]
    exact ⟨rfl, hs⟩

/-! #### every operation, every history -/

/-- One step: on related states, an operation that the reference model accepts returns the same
reply on both sides and leads to related states. `hb`: the internal descriptor slot of
`AtomicCreate` is not a client descriptor. -/
theorem dir_step_sim (hs : DirSim r o) (hb : r.nfds ≤ internalFd) (op : Op)
    (hv : (r.step op).2 ≠ .invalid) :
    (DirFs.step o op).2 = (r.step op).2 ∧ DirSim (r.step op).1 (DirFs.step o op).1 := by
  cases op with
  | mkdir d => exact dir_step_sim_mkdir hs d hv
  | create d n => exact dir_step_sim_create hs d n hv
  | append k data => exact dir_step_sim_append hs k data hv
  | close k => exact dir_step_sim_close hs k hv
  | open_ d n => exact dir_step_sim_open hs d n hv
  | readAt k off len => exact dir_step_sim_readAt hs k off len hv
  | delete d n => exact dir_step_sim_delete hs d n hv
  | link od on nd nn => exact dir_step_sim_link hs od on nd nn hv
  | atomic d n data => exact dir_step_sim_atomic hs hb d n data hv
  | list d => exact dir_step_sim_list hs d hv

end sim

/-- The descriptor counter of the reference model never decreases. -/
theorem ref_nfds_step (r : Ref) (op : Op) : r.nfds ≤ (r.step op).1.nfds := by
  cases op <;> simp only [Ref.step] <;> (repeat' split) <;> simp

theorem ref_nfds_run (r : Ref) (ops : List Op) : r.nfds ≤ (r.run ops).1.nfds := by
  induction ops generalizing r with
  | nil => exact Nat.le_refl _
  | cons op ops ih => exact Nat.le_trans (ref_nfds_step r op) (ih _)

/-- At most one descriptor per operation. -/
theorem ref_nfds_step_le (r : Ref) (op : Op) : (r.step op).1.nfds ≤ r.nfds + 1 := by
  cases op <;> simp only [Ref.step] <;> (repeat' split) <;> simp

theorem ref_nfds_run_le (r : Ref) (ops : List Op) : (r.run ops).1.nfds ≤ r.nfds + ops.length := by
  induction ops generalizing r with
  | nil => exact Nat.le_refl _
  | cons op ops ih =>
    have h1 := ref_nfds_step_le r op
    have h2 := ih (r.step op).1
    simp only [Ref.run, List.length_cons]
    omega

/-- Every history: related states, no reply `.invalid`, and at most `internalFd` descriptors handed
out by the end: same replies, related final states. -/
theorem dir_run_sim (ops : List Op) (r : Ref) (o : Os) (hs : DirSim r o)
    (hb : (r.run ops).1.nfds ≤ internalFd)
    (hv : ∀ out ∈ (r.run ops).2, out ≠ .invalid) :
    (DirFs.run o ops).2 = (r.run ops).2 ∧ DirSim (r.run ops).1 (DirFs.run o ops).1 := by
  induction ops generalizing r o with
  | nil => exact ⟨rfl, hs⟩
  | cons op ops ih =>
    simp only [Ref.run, List.mem_cons, forall_eq_or_imp] at hv hb
    have hb0 : r.nfds ≤ internalFd :=
      Nat.le_trans (Nat.le_trans (ref_nfds_step r op) (ref_nfds_run _ ops)) hb
    obtain ⟨h1, h2⟩ := dir_step_sim hs hb0 op hv.1
    have := ih _ _ h2 hb hv.2
    simp only [DirFs.run, Ref.run]
    exact ⟨by rw [h1, this.1], this.2⟩

/-! ### why the bound on the number of descriptors is needed

Two states that satisfy the simulation relation (every invariant included) in which the client
descriptor `internalFd` is open: `AtomicCreate` opens its temporary file in that slot and closes it,
so the client descriptor is gone afterwards on the `DirFs` side only (`Props/C12.lean` evaluates
both sides). -/

def collisionRef : Ref :=
  { dirs := ["d"], inodes := [[7]], dirents := [(("d", "a"), 0)], fds := [(internalFd, (0, .read))],
    nfds := internalFd + 1 }

def collisionOs : Os :=
  { inodes := [[7]], durable := [[7]], root := [], dirs := [("d", [("a", 0)])],
    fds := [(internalFd, { ino := 0, off := 0, wr := false })], nfds := internalFd + 1, tmpCount := 0 }

theorem collision_related : DirSim collisionRef collisionOs := by
  refine ⟨rfl, rfl, ?_, ?_, rfl, ?_, ?_, ?_⟩
  · intro d'
    by_cases h : d' = "d"
    · subst h; rfl
    · have h' : ¬ "d" = d' := fun e => h e.symm
      simp [collisionRef, collisionOs, aget_cons, aget_nil, h, h']
  · intro k
    by_cases h : k = internalFd
    · subst h; rfl
    · have h' : ¬ internalFd = k := fun e => h e.symm
      simp [collisionRef, collisionOs, aget_cons, aget_nil, h']
  · intro e he
    simp only [collisionRef, List.mem_singleton] at he
    subst he
    decide
  · intro k v h
    simp only [collisionRef, aget_cons, aget_nil] at h
    split at h
    · rename_i hk
      have : internalFd = k := by simpa using hk
      subst this; cases h; decide
    · cases h
  · intro k k' ino h
    simp only [collisionRef, aget_cons, aget_nil] at h
    split at h <;> cases h

end GooseVerif.Lemmas.DirFs
