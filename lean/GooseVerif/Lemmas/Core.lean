/-
Helper lemmas for the compiler-correctness theorem of the composed model (`Model/Core.lean`).

The simulation relation `Rel h stk Γ envs` relates, LEVEL BY LEVEL, Go's stack of scopes `stk`, the
translator's static environment `Γ` and the target environment, which is the concatenation
`envs.flatten` of one binding list per Go scope (as in `Lemmas/Scope.lean`).  Inside a scope (`RelS`)
an unwrapped name is bound to Go's value, a wrapped name to a location whose cell holds Go's value; the
locations of different bindings are different (`Fresh`).  New here: a level of the target environment
may contain JUNK — the leaked variable of a finished `for` loop (known finding `loop-variable-scope`) —
whose name is not visible in Go at that point (this is what `loopVarsFresh` guarantees), so no lookup
of an accepted program ever finds it.

`Post u Γ envs o r` (the analogue of `Sound` of `Lemmas/Tr.lean`) says what the translation made for
usage `u` must compute when Go's outcome is `o`; it also says that Go is not stuck, and maps "out of
fuel" to "out of fuel".  The main lemma `sound_stmts` is one structural induction over statement lists;
loops are handled by `loop_sound`, an induction on the fuel that is independent of the syntax.
-/
import GooseVerif.Model.Core

namespace GooseVerif.Model.Core

/-! ### association lists -/

theorem look_append {α : Type} (x : String) (a b : List (String × α)) :
    look x (a ++ b) = match look x a with
      | some v => some v
      | none => look x b := by
  induction a with
  | nil => simp [look]
  | cons p a ih =>
    obtain ⟨y, v⟩ := p
    by_cases hy : y = x
    · simp [look, hy]
    · simp [look, hy, ih]

theorem look_mem {α : Type} {x : String} {v : α} {e : List (String × α)} (h : look x e = some v) :
    (x, v) ∈ e := by
  induction e with
  | nil => simp [look] at h
  | cons p e ih =>
    obtain ⟨y, w⟩ := p
    by_cases hy : y = x
    · simp [look, hy] at h
      simp [hy, h]
    · simp [look, hy] at h
      simp [ih h]

theorem Stmts.eq_nil_of_isNil {ss : Stmts} (h : ss.isNil = true) : ss = .nil := by
  cases ss with
  | nil => rfl
  | cons _ _ => simp [Stmts.isNil] at h

theorem lookStk_cons_none {α : Type} {x : String} {sc : List (String × α)} {st : List (List (String × α))}
    (h : lookStk x (sc :: st) = none) : look x sc = none ∧ lookStk x st = none := by
  simp only [lookStk] at h
  cases hs : look x sc with
  | none => simpa [hs] using h
  | some v => simp [hs] at h

/-! ### the simulation relation -/

/-- No binding of `e` is the location `l`. -/
def Fresh (l : Nat) (e : Env) : Prop := ∀ y, (y, Val.loc l) ∉ e

theorem Fresh.cons_num {l : Nat} {e : Env} (x : String) (n : W) (h : Fresh l e) :
    Fresh l ((x, .num n) :: e) := by
  intro y hy
  simp at hy
  exact h y hy

theorem Fresh.tail {l : Nat} {e : Env} {p : String × Val} (h : Fresh l (p :: e)) : Fresh l e := by
  intro y hy
  exact h y (List.mem_cons_of_mem _ hy)

theorem Fresh.left {l : Nat} {a b : Env} (h : Fresh l (a ++ b)) : Fresh l a := by
  intro y hy
  exact h y (List.mem_append_left _ hy)

theorem Fresh.right {l : Nat} {a b : Env} (h : Fresh l (a ++ b)) : Fresh l b := by
  intro y hy
  exact h y (List.mem_append_right _ hy)

/-- One scope: Go's bindings, the static scope, the target bindings.  `Γo` / `eo`: the static and the
target environment of the enclosing scopes. -/
inductive RelS (h : Heap) (Γo : SEnv) (eo : Env) : Scope → SScope → Env → Prop where
  | nil : RelS h Γo eo [] [] []
  | num {sc : Scope} {ssc : SScope} {esc : Env} (x : String) (n : W) :
      RelS h Γo eo sc ssc esc → RelS h Γo eo ((x, n) :: sc) ((x, false) :: ssc) ((x, .num n) :: esc)
  | loc {sc : Scope} {ssc : SScope} {esc : Env} (x : String) (n : W) (l : Nat) :
      RelS h Γo eo sc ssc esc → h[l]? = some n → Fresh l (esc ++ eo) →
      RelS h Γo eo ((x, n) :: sc) ((x, true) :: ssc) ((x, .loc l) :: esc)
  /-- The leaked variable of a finished loop: a name that Go does not see here. -/
  | junk {sc : Scope} {ssc : SScope} {esc : Env} (x : String) (l : Nat) :
      RelS h Γo eo sc ssc esc → look x ssc = none → lookStk x Γo = none → l < h.length →
      Fresh l (esc ++ eo) → RelS h Γo eo sc ssc ((x, .loc l) :: esc)

/-- The stacks, level by level. -/
inductive Rel (h : Heap) : Stack → SEnv → List Env → Prop where
  | nil : Rel h [] [] []
  | cons {sc : Scope} {ssc : SScope} {esc : Env} {st : Stack} {Γ : SEnv} {envs : List Env} :
      RelS h Γ envs.flatten sc ssc esc → Rel h st Γ envs → Rel h (sc :: st) (ssc :: Γ) (esc :: envs)

/-- Inversion at a non-empty static environment. -/
theorem Rel.inv_cons {h : Heap} {stk : Stack} {ssc : SScope} {Γ : SEnv} {esc : Env} {envs : List Env}
    (r : Rel h stk (ssc :: Γ) (esc :: envs)) :
    ∃ sc st, stk = sc :: st ∧ RelS h Γ envs.flatten sc ssc esc ∧ Rel h st Γ envs := by
  cases r with
  | cons rs rt => exact ⟨_, _, rfl, rs, rt⟩

/-! ### locations are allocated cells -/

theorem lt_of_getElem? {h : Heap} {l : Nat} {n : W} (hl : h[l]? = some n) : l < h.length := by
  rcases Nat.lt_or_ge l h.length with hlt | hge
  · exact hlt
  · rw [List.getElem?_eq_none hge] at hl
    cases hl

theorem RelS.bound {h : Heap} {Γo : SEnv} {eo : Env} {sc : Scope} {ssc : SScope} {esc : Env}
    (r : RelS h Γo eo sc ssc esc) : ∀ y l, (y, Val.loc l) ∈ esc → l < h.length := by
  induction r with
  | nil => intro y l hm; cases hm
  | num x n _ ih =>
    intro y l hm
    simp at hm
    exact ih y l hm
  | loc x n l' _ hl _ ih =>
    intro y l hm
    simp at hm
    rcases hm with ⟨_, rfl⟩ | hm
    · exact lt_of_getElem? hl
    · exact ih y l hm
  | junk x l' _ _ _ hlt _ ih =>
    intro y l hm
    simp at hm
    rcases hm with ⟨_, rfl⟩ | hm
    · exact hlt
    · exact ih y l hm

theorem Rel.bound {h : Heap} {stk : Stack} {Γ : SEnv} {envs : List Env} (r : Rel h stk Γ envs) :
    ∀ y l, (y, Val.loc l) ∈ envs.flatten → l < h.length := by
  induction r with
  | nil => intro y l hm; simp at hm
  | cons rs _ ih =>
    intro y l hm
    rw [List.flatten_cons] at hm
    rcases List.mem_append.mp hm with hm | hm
    · exact rs.bound y l hm
    · exact ih y l hm

/-- The next cell to be allocated is not in the environment. -/
theorem Rel.fresh_length {h : Heap} {stk : Stack} {Γ : SEnv} {envs : List Env} (r : Rel h stk Γ envs) :
    Fresh h.length envs.flatten := by
  intro y hm
  exact Nat.lt_irrefl _ (r.bound y _ hm)

/-! ### allocation keeps the relation -/

theorem getElem?_grow {h : Heap} {l : Nat} {n : W} (m : W) (hl : h[l]? = some n) : (h ++ [m])[l]? = some n := by
  rw [List.getElem?_append_left (lt_of_getElem? hl)]
  exact hl

theorem RelS.grow {h : Heap} {Γo : SEnv} {eo : Env} {sc : Scope} {ssc : SScope} {esc : Env} (m : W)
    (r : RelS h Γo eo sc ssc esc) : RelS (h ++ [m]) Γo eo sc ssc esc := by
  induction r with
  | nil => exact .nil
  | num x n _ ih => exact .num x n ih
  | loc x n l _ hl hf ih => exact .loc x n l ih (getElem?_grow m hl) hf
  | junk x l _ h1 h2 hlt hf ih =>
    refine .junk x l ih h1 h2 ?_ hf
    simp only [List.length_append, List.length_cons, List.length_nil]
    omega

theorem Rel.grow {h : Heap} {stk : Stack} {Γ : SEnv} {envs : List Env} (m : W)
    (r : Rel h stk Γ envs) : Rel (h ++ [m]) stk Γ envs := by
  induction r with
  | nil => exact .nil
  | cons rs _ ih => exact .cons (rs.grow m) ih

/-! ### a store to a location that a part of the environment does not mention -/

theorem RelS.set_frame {h : Heap} {Γo : SEnv} {eo : Env} {sc : Scope} {ssc : SScope} {esc : Env} (l : Nat) (m : W)
    (r : RelS h Γo eo sc ssc esc) : Fresh l esc → RelS (h.set l m) Γo eo sc ssc esc := by
  induction r with
  | nil => intro _; exact .nil
  | num x n _ ih => intro hf; exact .num x n (ih hf.tail)
  | loc x n l' _ hl hf' ih =>
    intro hf
    have hne : l ≠ l' := by
      intro he
      subst he
      exact hf x (List.mem_cons_self)
    refine .loc x n l' (ih hf.tail) ?_ hf'
    rw [List.getElem?_set_ne hne]
    exact hl
  | junk x l' _ h1 h2 hlt hf' ih =>
    intro hf
    exact .junk x l' (ih hf.tail) h1 h2 (by simpa using hlt) hf'

theorem Rel.set_frame {h : Heap} {stk : Stack} {Γ : SEnv} {envs : List Env} (l : Nat) (m : W)
    (r : Rel h stk Γ envs) : Fresh l envs.flatten → Rel (h.set l m) stk Γ envs := by
  induction r with
  | nil => intro _; exact .nil
  | cons rs _ ih =>
    intro hf
    rw [List.flatten_cons] at hf
    exact .cons (rs.set_frame l m hf.left) (ih hf.right)

/-- A location of an enclosing scope does not occur in the scope. -/
theorem RelS.fresh_of_outer {h : Heap} {Γo : SEnv} {eo : Env} {sc : Scope} {ssc : SScope} {esc : Env}
    (r : RelS h Γo eo sc ssc esc) {y : String} {l : Nat} (hm : (y, Val.loc l) ∈ eo) : Fresh l esc := by
  induction r with
  | nil => intro z hz; cases hz
  | num x n _ ih => exact ih.cons_num x n
  | loc x n l' _ _ hf ih =>
    intro z hz
    simp at hz
    rcases hz with ⟨_, rfl⟩ | hz
    · exact hf y (List.mem_append_right _ hm)
    · exact ih z hz
  | junk x l' _ _ _ _ hf ih =>
    intro z hz
    simp at hz
    rcases hz with ⟨_, rfl⟩ | hz
    · exact hf y (List.mem_append_right _ hm)
    · exact ih z hz

/-! ### lookup -/

/-- What the three lookups in one scope give, by the static entry. -/
def LookS (h : Heap) (Γo : SEnv) (x : String) (sc : Scope) (esc : Env) : Option Bool → Prop
  | none => look x sc = none ∧ (lookStk x Γo ≠ none → look x esc = none)
  | some false => ∃ n, look x sc = some n ∧ look x esc = some (.num n)
  | some true => ∃ n l, look x sc = some n ∧ look x esc = some (.loc l) ∧ h[l]? = some n

theorem LookS.skip {h : Heap} {Γo : SEnv} {x y : String} {sc : Scope} {esc : Env} {w : Option Bool} (n : W) (v : Val)
    (hy : ¬ y = x) (hl : LookS h Γo x sc esc w) : LookS h Γo x ((y, n) :: sc) ((y, v) :: esc) w := by
  cases w with
  | none => simpa [LookS, look, hy] using hl
  | some b => cases b <;> simpa [LookS, look, hy] using hl

theorem LookS.skip_junk {h : Heap} {Γo : SEnv} {x y : String} {sc : Scope} {esc : Env} {w : Option Bool} (v : Val)
    (hy : w = none → lookStk x Γo ≠ none → ¬ y = x) (hy' : w ≠ none → ¬ y = x)
    (hl : LookS h Γo x sc esc w) : LookS h Γo x sc ((y, v) :: esc) w := by
  cases w with
  | none =>
    refine ⟨hl.1, fun hne => ?_⟩
    have := hy rfl hne
    simp [look, this, hl.2 hne]
  | some b =>
    have := hy' (by simp)
    cases b <;> simpa [LookS, look, this] using hl

theorem RelS.lookup {h : Heap} {Γo : SEnv} {eo : Env} {sc : Scope} {ssc : SScope} {esc : Env} (x : String)
    (r : RelS h Γo eo sc ssc esc) : LookS h Γo x sc esc (look x ssc) := by
  induction r with
  | nil => simp [look, LookS]
  | num y n _ ih =>
    by_cases hy : y = x
    · simp [look, hy, LookS]
    · simp only [look, hy, if_false]
      exact ih.skip n _ hy
  | loc y n l _ hl _ ih =>
    by_cases hy : y = x
    · simp [look, hy, LookS, hl]
    · simp only [look, hy, if_false]
      exact ih.skip n _ hy
  | @junk sc ssc esc y l _ h1 h2 _ _ ih =>
    refine ih.skip_junk _ ?_ ?_
    · intro _ hne he
      subst he
      exact hne h2
    · intro hne he
      subst he
      exact hne h1

/-- What the lookups in the whole stacks give. -/
def LookR (h : Heap) (x : String) (stk : Stack) (env : Env) : Option Bool → Prop
  | none => True
  | some false => ∃ n, lookStk x stk = some n ∧ look x env = some (.num n)
  | some true => ∃ n l, lookStk x stk = some n ∧ look x env = some (.loc l) ∧ h[l]? = some n

theorem Rel.lookup {h : Heap} {stk : Stack} {Γ : SEnv} {envs : List Env} (x : String)
    (r : Rel h stk Γ envs) : LookR h x stk envs.flatten (lookStk x Γ) := by
  induction r with
  | nil => simp [lookStk, LookR]
  | @cons sc ssc esc st Γ envs rs _ ih =>
    have hs := rs.lookup x
    rw [List.flatten_cons, lookStk]
    cases hw : look x ssc with
    | none =>
      rw [hw] at hs
      obtain ⟨h1, h2⟩ := hs
      simp only []
      cases hΓ : lookStk x Γ with
      | none => trivial
      | some w =>
        rw [hΓ] at ih
        have h2' := h2 (by simp [hΓ])
        cases w with
        | false =>
          obtain ⟨n, h3, h4⟩ := ih
          exact ⟨n, by simp [lookStk, h1, h3], by simp [look_append, h2', h4]⟩
        | true =>
          obtain ⟨n, l, h3, h4, h5⟩ := ih
          exact ⟨n, l, by simp [lookStk, h1, h3], by simp [look_append, h2', h4], h5⟩
    | some w =>
      rw [hw] at hs
      cases w with
      | false =>
        obtain ⟨n, h1, h2⟩ := hs
        exact ⟨n, by simp [lookStk, h1], by simp [look_append, h2]⟩
      | true =>
        obtain ⟨n, l, h1, h2, h3⟩ := hs
        exact ⟨n, l, by simp [lookStk, h1], by simp [look_append, h2], h3⟩

/-! ### expressions and conditions: pure, total, never stuck -/

theorem sound_exp {h : Heap} {stk : Stack} {Γ : SEnv} {envs : List Env} (r : Rel h stk Γ envs) :
    ∀ (e : Exp) (t : Tgt), trE Γ e = .ok t →
      ∃ n, evalE stk e = some n ∧ ∀ f, evalT f envs.flatten h t = .ok (.num n, h) := by
  intro e
  induction e with
  | lit k =>
    intro t ht
    simp [trE] at ht
    subst ht
    exact ⟨k, rfl, fun f => by simp [evalT]⟩
  | var x =>
    intro t ht
    have hl := r.lookup x
    simp only [trE] at ht
    cases hw : lookStk x Γ with
    | none => simp [hw] at ht
    | some w =>
      rw [hw] at hl
      cases w with
      | false =>
        simp [hw] at ht
        subst ht
        obtain ⟨n, h1, h2⟩ := hl
        exact ⟨n, by simp [evalE, h1], fun f => by simp [evalT, h2]⟩
      | true =>
        simp [hw] at ht
        subst ht
        obtain ⟨n, l, h1, h2, h3⟩ := hl
        exact ⟨n, by simp [evalE, h1], fun f => by simp [evalT, h2, h3]⟩
  | bin op a b iha ihb =>
    intro t ht
    simp only [trE] at ht
    cases hta : trE Γ a with
    | error m => simp [hta] at ht
    | ok ta =>
      cases htb : trE Γ b with
      | error m => simp [hta, htb] at ht
      | ok tb =>
        simp [hta, htb] at ht
        subst ht
        obtain ⟨m, hm, hma⟩ := iha ta hta
        obtain ⟨k, hk, hkb⟩ := ihb tb htb
        exact ⟨op.eval m k, by simp [evalE, hm, hk], fun f => by simp [evalT, hma f, hkb f]⟩

theorem sound_cond {h : Heap} {stk : Stack} {Γ : SEnv} {envs : List Env} (r : Rel h stk Γ envs) :
    ∀ (c : Cond) (t : Tgt), trC Γ c = .ok t →
      ∃ b, evalC stk c = some b ∧ ∀ f, evalT f envs.flatten h t = .ok (.bool b, h) := by
  intro c
  induction c with
  | cmp o a b =>
    intro t ht
    simp only [trC] at ht
    cases hta : trE Γ a with
    | error m => simp [hta] at ht
    | ok ta =>
      cases htb : trE Γ b with
      | error m => simp [hta, htb] at ht
      | ok tb =>
        simp [hta, htb] at ht
        subst ht
        obtain ⟨m, hm, hma⟩ := sound_exp r a ta hta
        obtain ⟨k, hk, hkb⟩ := sound_exp r b tb htb
        exact ⟨o.eval m k, by simp [evalC, hm, hk], fun f => by simp [evalT, hma f, hkb f]⟩
  | and p q ihp ihq =>
    intro t ht
    simp only [trC] at ht
    cases htp : trC Γ p with
    | error m => simp [htp] at ht
    | ok tp =>
      cases htq : trC Γ q with
      | error m => simp [htp, htq] at ht
      | ok tq =>
        simp [htp, htq] at ht
        subst ht
        obtain ⟨bp, hp, hpe⟩ := ihp tp htp
        obtain ⟨bq, hq, hqe⟩ := ihq tq htq
        cases bp with
        | true => exact ⟨bq, by simp [evalC, hp, hq], fun f => by simp [evalT, hpe f, hqe f]⟩
        | false => exact ⟨false, by simp [evalC, hp], fun f => by simp [evalT, hpe f]⟩
  | or p q ihp ihq =>
    intro t ht
    simp only [trC] at ht
    cases htp : trC Γ p with
    | error m => simp [htp] at ht
    | ok tp =>
      cases htq : trC Γ q with
      | error m => simp [htp, htq] at ht
      | ok tq =>
        simp [htp, htq] at ht
        subst ht
        obtain ⟨bp, hp, hpe⟩ := ihp tp htp
        obtain ⟨bq, hq, hqe⟩ := ihq tq htq
        cases bp with
        | true => exact ⟨true, by simp [evalC, hp], fun f => by simp [evalT, hpe f]⟩
        | false => exact ⟨bq, by simp [evalC, hp, hq], fun f => by simp [evalT, hpe f, hqe f]⟩
  | not p ihp =>
    intro t ht
    simp only [trC] at ht
    cases htp : trC Γ p with
    | error m => simp [htp] at ht
    | ok tp =>
      simp [htp] at ht
      subst ht
      obtain ⟨bp, hp, hpe⟩ := ihp tp htp
      exact ⟨!bp, by simp [evalC, hp], fun f => by simp [evalT, hpe f]⟩
  | tt =>
    intro t ht
    simp [trC] at ht
    subst ht
    exact ⟨true, rfl, fun f => by simp [evalT]⟩
  | ff =>
    intro t ht
    simp [trC] at ht
    subst ht
    exact ⟨false, rfl, fun f => by simp [evalT]⟩

/-! ### assignment -/

theorem RelS.upd_none {h : Heap} {Γo : SEnv} {eo : Env} {sc : Scope} {ssc : SScope} {esc : Env} (x : String) (m : W)
    (r : RelS h Γo eo sc ssc esc) : look x ssc = none → updScope x m sc = none := by
  induction r with
  | nil => intro _; rfl
  | num y n _ ih =>
    by_cases hy : y = x
    · simp [look, hy]
    · intro hl
      simp [look, hy] at hl
      simp [updScope, hy, ih hl]
  | loc y n l _ _ _ ih =>
    by_cases hy : y = x
    · simp [look, hy]
    · intro hl
      simp [look, hy] at hl
      simp [updScope, hy, ih hl]
  | junk y l _ _ _ _ _ ih => exact ih

/-- An assignment to a wrapped variable found in this scope: Go updates this scope, the target stores to
the variable's cell, and nothing else changes. -/
theorem RelS.upd {h : Heap} {Γo : SEnv} {eo : Env} {sc : Scope} {ssc : SScope} {esc : Env} (x : String) (m : W)
    (r : RelS h Γo eo sc ssc esc) : look x ssc = some true →
      ∃ l sc', updScope x m sc = some sc' ∧ look x esc = some (.loc l) ∧ l < h.length ∧ Fresh l eo ∧
        RelS (h.set l m) Γo eo sc' ssc esc := by
  induction r with
  | nil => intro hl; simp [look] at hl
  | @num sc ssc esc y n _ ih =>
    intro hl
    by_cases hy : y = x
    · simp [look, hy] at hl
    · simp [look, hy] at hl
      obtain ⟨l, sc', h1, h2, h3, h4, h5⟩ := ih hl
      exact ⟨l, (y, n) :: sc', by simp [updScope, hy, h1], by simp [look, hy, h2], h3, h4, .num y n h5⟩
  | @loc sc ssc esc y n l' rs hl' hf ih =>
    intro hl
    by_cases hy : y = x
    · have hlt := lt_of_getElem? hl'
      refine ⟨l', (y, m) :: sc, by simp [updScope, hy], by simp [look, hy], hlt, hf.right, ?_⟩
      refine .loc y m l' (rs.set_frame l' m hf.left) ?_ hf
      simp [hlt]
    · simp [look, hy] at hl
      obtain ⟨l, sc', h1, h2, h3, h4, h5⟩ := ih hl
      have hne : l ≠ l' := by
        intro he
        subst he
        exact hf x (List.mem_append_left _ (look_mem h2))
      refine ⟨l, (y, n) :: sc', by simp [updScope, hy, h1], by simp [look, hy, h2], h3, h4, ?_⟩
      refine .loc y n l' h5 ?_ hf
      rw [List.getElem?_set_ne hne]
      exact hl'
  | @junk sc ssc esc y l' rs h1' h2' hlt hf ih =>
    intro hl
    have hy : ¬ y = x := by
      intro he
      subst he
      simp [h1'] at hl
    obtain ⟨l, sc', h1, h2, h3, h4, h5⟩ := ih hl
    exact ⟨l, sc', h1, by simp [look, hy, h2], h3, h4, .junk y l' h5 h1' h2' (by simpa using hlt) hf⟩

/-- An assignment to a name whose innermost declaration is wrapped. -/
theorem Rel.upd {h : Heap} {stk : Stack} {Γ : SEnv} {envs : List Env} (x : String) (m : W)
    (r : Rel h stk Γ envs) : lookStk x Γ = some true →
      ∃ l stk', updStk x m stk = some stk' ∧ look x envs.flatten = some (.loc l) ∧ l < h.length ∧
        Rel (h.set l m) stk' Γ envs := by
  induction r with
  | nil => intro hl; simp [lookStk] at hl
  | @cons sc ssc esc st Γ envs rs rt ih =>
    intro hl
    rw [lookStk] at hl
    rw [List.flatten_cons]
    cases hw : look x ssc with
    | some w =>
      simp [hw] at hl
      subst hl
      obtain ⟨l, sc', h1, h2, h3, h4, h5⟩ := rs.upd x m hw
      exact ⟨l, sc' :: st, by simp [updStk, h1], by simp [look_append, h2], h3, .cons h5 (rt.set_frame l m h4)⟩
    | none =>
      simp [hw] at hl
      obtain ⟨l, st', h1, h2, h3, h4⟩ := ih hl
      have hs := rs.lookup x
      rw [hw] at hs
      have hf : Fresh l esc := rs.fresh_of_outer (look_mem h2)
      have hne : look x esc = none := hs.2 (by simp [hl])
      exact ⟨l, sc :: st', by simp [updStk, rs.upd_none x m hw, h1], by simp [look_append, hne, h2], h3,
        .cons (rs.set_frame l m hf) h4⟩

/-- Reading and then overwriting a wrapped variable (`x = e`, `x op= e`, `x++`). -/
theorem Rel.load_store {h : Heap} {stk : Stack} {Γ : SEnv} {envs : List Env} (x : String)
    (r : Rel h stk Γ envs) (hw : lookStk x Γ = some true) :
    ∃ l n, lookStk x stk = some n ∧ look x envs.flatten = some (.loc l) ∧ h[l]? = some n ∧ l < h.length ∧
      ∀ m, ∃ stk', updStk x m stk = some stk' ∧ Rel (h.set l m) stk' Γ envs := by
  have hl := r.lookup x
  rw [hw] at hl
  obtain ⟨n, l, h1, h2, h3⟩ := hl
  refine ⟨l, n, h1, h2, h3, lt_of_getElem? h3, fun m => ?_⟩
  obtain ⟨l', stk', g1, g2, _, g4⟩ := r.upd x m hw
  rw [h2] at g2
  cases g2
  exact ⟨stk', g1, g4⟩

theorem evalT_store_bin {env : Env} {h : Heap} {x : String} {l : Nat} {n0 n : W} {te : Tgt} (op : BinOp)
    (hx : look x env = some (.loc l)) (hl : h[l]? = some n0) (hte : ∀ f, evalT f env h te = .ok (.num n, h)) (f : Nat) :
    evalT f env h (.store x (.bin op (.load x) te)) = .ok (.unit, h.set l (op.eval n0 n)) := by
  have hlt := lt_of_getElem? hl
  simp only [evalT, hte f, hx, hl]
  simp [hlt]

/-- The simple statements that do not declare: Go and the target make the same update. -/
theorem sound_simple_anon {h : Heap} {stk : Stack} {Γ : SEnv} {envs : List Env} (r : Rel h stk Γ envs)
    (s : Simple) (t : Tgt) (ht : trSimple Γ s = .ok (.anon t)) :
    ∃ stk' h', execSimple stk s = some stk' ∧ (∀ f, evalT f envs.flatten h t = .ok (.unit, h')) ∧
      Rel h' stk' Γ envs := by
  cases s with
  | define x e =>
    simp only [trSimple] at ht
    split at ht <;> cases ht
  | assign x e =>
    simp only [trSimple] at ht
    cases hte : trE Γ e with
    | error m => simp [hte] at ht
    | ok te =>
      cases hw : lookStk x Γ with
      | none => simp [hte, hw] at ht
      | some w =>
        cases w with
        | false => simp [hte, hw] at ht
        | true =>
          simp [hte, hw] at ht
          subst ht
          obtain ⟨n, hn, hne⟩ := sound_exp r e te hte
          obtain ⟨l, n0, _, h2, _, h4, h5⟩ := r.load_store x hw
          obtain ⟨stk', g1, g2⟩ := h5 n
          exact ⟨stk', h.set l n, by simp [execSimple, hn, g1], fun f => by simp [evalT, hne f, h2, h4], g2⟩
  | opAssign x op e =>
    simp only [trSimple] at ht
    cases hte : trE Γ e with
    | error m => simp [hte] at ht
    | ok te =>
      cases hop : assignable op with
      | false => simp [hte, hop] at ht
      | true =>
        cases hw : lookStk x Γ with
        | none => simp [hte, hw, hop] at ht
        | some w =>
          cases w with
          | false => simp [hte, hw, hop] at ht
          | true =>
            simp [hte, hw, hop] at ht
            subst ht
            obtain ⟨n, hn, hne⟩ := sound_exp r e te hte
            obtain ⟨l, n0, h1, h2, h3, h4, h5⟩ := r.load_store x hw
            obtain ⟨stk', g1, g2⟩ := h5 (op.eval n0 n)
            exact ⟨stk', h.set l (op.eval n0 n), by simp [execSimple, hn, updWith, h1, g1],
              fun f => evalT_store_bin op h2 h3 hne f, g2⟩
  | incr x =>
    simp only [trSimple] at ht
    cases hw : lookStk x Γ with
    | none => simp [hw] at ht
    | some w =>
      cases w with
      | false => simp [hw] at ht
      | true =>
        simp [hw] at ht
        subst ht
        obtain ⟨l, n0, h1, h2, h3, h4, h5⟩ := r.load_store x hw
        obtain ⟨stk', g1, g2⟩ := h5 (n0 + 1)
        exact ⟨stk', h.set l (n0 + 1), by simpa [execSimple, updWith, h1] using g1,
          fun f => evalT_store_bin .add h2 h3 (fun f => by simp [evalT]) f, g2⟩
  | decr x =>
    simp only [trSimple] at ht
    cases hw : lookStk x Γ with
    | none => simp [hw] at ht
    | some w =>
      cases w with
      | false => simp [hw] at ht
      | true =>
        simp [hw] at ht
        subst ht
        obtain ⟨l, n0, h1, h2, h3, h4, h5⟩ := r.load_store x hw
        obtain ⟨stk', g1, g2⟩ := h5 (n0 - 1)
        exact ⟨stk', h.set l (n0 - 1), by simpa [execSimple, updWith, h1] using g1,
          fun f => evalT_store_bin .sub h2 h3 (fun f => by simp [evalT]) f, g2⟩

/-! ### what a translation must compute -/

/-- For a statement LIST that runs in its own innermost scope, whose bindings die at the end of the list:
`Γ`/`envs` are the ENCLOSING levels.  Go is not stuck; out of fuel ↦ out of fuel; falling off the end ↦ the
value the usage wants; `return v` ↦ the number `v` (only with usage `returned`); `break`/`continue` ↦
`Break`/`Continue` (only with usage `loop`); and the enclosing levels are related again. -/
def Post (u : Usage) (Γ : SEnv) (envs : List Env) : Res Out → Res (Val × Heap) → Prop
  | .stuck, _ => False
  | .fuel, r => r = .fuel
  | .ok (.normal stk'), r => ∃ sc' st' v h', stk' = sc' :: st' ∧ r = .ok (v, h') ∧ Rel h' st' Γ envs ∧
      (u = .returned → v = .unit) ∧ (u = .loop → v = .cont)
  | .ok (.returned n), r => u = .returned ∧ ∃ h', r = .ok (.num n, h')
  | .ok (.broke stk'), r => u = .loop ∧ ∃ sc' st' h', stk' = sc' :: st' ∧ r = .ok (.brk, h') ∧ Rel h' st' Γ envs
  | .ok (.continued stk'), r => u = .loop ∧ ∃ sc' st' h', stk' = sc' :: st' ∧ r = .ok (.cont, h') ∧ Rel h' st' Γ envs

/-- For a STATEMENT that leaves no binding behind (or a list after it has left its scope): the whole
stack `Γ1`/`envs1` is related again. -/
def PostS (u : Usage) (Γ1 : SEnv) (envs1 : List Env) : Res Out → Res (Val × Heap) → Prop
  | .stuck, _ => False
  | .fuel, r => r = .fuel
  | .ok (.normal stk'), r => ∃ v h', r = .ok (v, h') ∧ Rel h' stk' Γ1 envs1 ∧
      (u = .returned → v = .unit) ∧ (u = .loop → v = .cont)
  | .ok (.returned n), r => u = .returned ∧ ∃ h', r = .ok (.num n, h')
  | .ok (.broke stk'), r => u = .loop ∧ ∃ h', r = .ok (.brk, h') ∧ Rel h' stk' Γ1 envs1
  | .ok (.continued stk'), r => u = .loop ∧ ∃ h', r = .ok (.cont, h') ∧ Rel h' stk' Γ1 envs1

/-- Leaving the scope of a list. -/
theorem Post.pop {u : Usage} {Γ1 : SEnv} {envs1 : List Env} {X : Res Out} {r : Res (Val × Heap)}
    (hp : Post u Γ1 envs1 X r) : PostS u Γ1 envs1 (popOut X) r := by
  cases X with
  | stuck => exact hp
  | fuel => exact hp
  | ok o =>
    cases o with
    | normal stk' =>
      obtain ⟨sc', st', v, h', rfl, h2, h3, h4, h5⟩ := hp
      exact ⟨v, h', h2, h3, h4, h5⟩
    | returned n => exact hp
    | broke stk' =>
      obtain ⟨hu, sc', st', h', rfl, h2, h3⟩ := hp
      exact ⟨hu, h', h2, h3⟩
    | continued stk' =>
      obtain ⟨hu, sc', st', h', rfl, h2, h3⟩ := hp
      exact ⟨hu, h', h2, h3⟩

/-- A statement in the last position of a list: what remains of the list's scope dies. -/
theorem PostS.toPost {u : Usage} {ssc : SScope} {Γ : SEnv} {esc : Env} {envs : List Env} {X : Res Out}
    {r : Res (Val × Heap)} (hp : PostS u (ssc :: Γ) (esc :: envs) X r) : Post u Γ envs X r := by
  cases X with
  | stuck => exact hp
  | fuel => exact hp
  | ok o =>
    cases o with
    | normal stk' =>
      obtain ⟨v, h', h2, h3, h4, h5⟩ := hp
      obtain ⟨sc', st', rfl, _, rt⟩ := h3.inv_cons
      exact ⟨sc', st', v, h', rfl, h2, rt, h4, h5⟩
    | returned n => exact hp
    | broke stk' =>
      obtain ⟨hu, h', h2, h3⟩ := hp
      obtain ⟨sc', st', rfl, _, rt⟩ := h3.inv_cons
      exact ⟨hu, sc', st', h', rfl, h2, rt⟩
    | continued stk' =>
      obtain ⟨hu, h', h2, h3⟩ := hp
      obtain ⟨sc', st', rfl, _, rt⟩ := h3.inv_cons
      exact ⟨hu, sc', st', h', rfl, h2, rt⟩

theorem exec_single (f : Nat) (s : Stmt) (st : Stack) : exec f (.cons s .nil) st = execStmt f s st := by
  simp only [exec]
  cases execStmt f s st with
  | stuck => rfl
  | fuel => rfl
  | ok o => cases o <;> rfl

/-- `a;; r` where `a` is the translation (for local use) of a statement that leaves no binding. -/
theorem sound_seq_stmt {u : Usage} {Γ1 Γ : SEnv} {envs1 envs : List Env} {f : Nat} {s : Stmt} {rest : Stmts}
    {stk : Stack} {env : Env} {h : Heap} {a r : Tgt}
    (hs : PostS .local Γ1 envs1 (execStmt f s stk) (evalT f env h a))
    (hr : ∀ h' stk', Rel h' stk' Γ1 envs1 → Post u Γ envs (exec f rest stk') (evalT f env h' r)) :
    Post u Γ envs (exec f (.cons s rest) stk) (evalT f env h (.seq a r)) := by
  simp only [exec, evalT]
  cases hX : execStmt f s stk with
  | stuck => rw [hX] at hs; exact hs.elim
  | fuel =>
    rw [hX] at hs
    have : evalT f env h a = .fuel := hs
    simp [this, Post]
  | ok o =>
    rw [hX] at hs
    cases o with
    | normal stk' =>
      obtain ⟨v, h', h2, h3, _, _⟩ := hs
      simp only [h2]
      exact hr h' stk' h3
    | returned n => exact absurd hs.1 (by decide)
    | broke stk' => exact absurd hs.1 (by decide)
    | continued stk' => exact absurd hs.1 (by decide)

/-! ### `endsWithReturn` is semantically right -/

theorem popOut_normal {X : Res Out} {st : Stack} (h : popOut X = .ok (.normal st)) :
    ∃ st', X = .ok (.normal st') := by
  cases X with
  | stuck => simp [popOut] at h
  | fuel => simp [popOut] at h
  | ok o => cases o <;> simp [popOut] at h; exact ⟨_, rfl⟩

mutual
/-- A list that `endsWithReturn` never terminates normally. -/
theorem ewr_not_normal :
    ∀ (ss : Stmts), endsWithReturn ss = true → ∀ f s s', exec f ss s ≠ .ok (.normal s')
  | .nil, h, _, _, _ => by simp [endsWithReturn] at h
  | .cons st rest, h, f, s, s' => by
    cases rest with
    | nil =>
      have hst := ewrStmt_not_normal st (by simpa [endsWithReturn] using h) f s
      rw [exec_single]
      exact hst s'
    | cons st' rest' =>
      have hrest := ewr_not_normal (.cons st' rest') (by simpa [endsWithReturn] using h) f
      simp only [exec]
      cases ho : execStmt f st s with
      | stuck => simp
      | fuel => simp
      | ok o =>
        cases o with
        | normal s'' => exact hrest s'' s'
        | returned v => simp
        | broke s'' => simp
        | continued s'' => simp
/-- The same for the last statement. -/
theorem ewrStmt_not_normal :
    ∀ (st : Stmt), endsWithReturn (.cons st .nil) = true → ∀ f s s', execStmt f st s ≠ .ok (.normal s')
  | .simple _, h, _, _, _ => by simp [endsWithReturn] at h
  | .declare _ _, h, _, _, _ => by simp [endsWithReturn] at h
  | .ret e, _, _, s, _ => by
    simp only [execStmt]
    cases evalE s e <;> simp
  | .brk, _, _, _, _ => by simp [execStmt]
  | .cont, _, _, _, _ => by simp [execStmt]
  | .loop _ _ _ _, h, _, _, _ => by simp [endsWithReturn] at h
  | .block _, h, _, _, _ => by simp [endsWithReturn] at h
  | .ite c thn els, h, f, s, s' => by
    have h' : endsWithReturn thn = true ∧ endsWithReturn els = true := by
      simpa [endsWithReturn] using h
    simp only [execStmt]
    cases evalC s c with
    | none => simp
    | some b =>
      cases b with
      | true =>
        intro hp
        obtain ⟨st', hst'⟩ := popOut_normal hp
        exact ewr_not_normal thn h'.1 f _ st' hst'
      | false =>
        intro hp
        obtain ⟨st', hst'⟩ := popOut_normal hp
        exact ewr_not_normal els h'.2 f _ st' hst'
end

/-! ### loops: an induction on the fuel, independent of the syntax -/

/-- What the translated loop body must compute (usage `loop`, after leaving the body's scope). -/
def BodyPost (RelL : Heap → Stack → Prop) : Res Out → Res (Val × Heap) → Prop
  | .stuck, _ => False
  | .fuel, r => r = .fuel
  | .ok (.normal stk'), r => ∃ h', r = .ok (.cont, h') ∧ RelL h' stk'
  | .ok (.continued stk'), r => ∃ h', r = .ok (.cont, h') ∧ RelL h' stk'
  | .ok (.broke stk'), r => ∃ h', r = .ok (.brk, h') ∧ RelL h' stk'
  | .ok (.returned _), _ => False

/-- What the translated loop must compute. -/
def LoopPost (RelL : Heap → Stack → Prop) : Res Out → Res (Val × Heap) → Prop
  | .stuck, _ => False
  | .fuel, r => r = .fuel
  | .ok (.normal stk'), r => ∃ h', r = .ok (.unit, h') ∧ RelL h' stk'
  | .ok (.returned _), _ => False
  | .ok (.broke _), _ => False
  | .ok (.continued _), _ => False

/-- Go's `for` and GooseLang's `for:` correspond when condition, post statement and body do. -/
theorem loop_sound (RelL : Heap → Stack → Prop)
    (condS : Stack → Option Bool) (postS : Stack → Option Stack) (bodyS : Nat → Stack → Res Out)
    (condT postT : Heap → Res (Val × Heap)) (bodyT : Nat → Heap → Res (Val × Heap))
    (hc : ∀ h stk, RelL h stk → ∃ b, condS stk = some b ∧ condT h = .ok (.bool b, h))
    (hp : ∀ h stk, RelL h stk → ∃ stk' v h', postS stk = some stk' ∧ postT h = .ok (v, h') ∧ RelL h' stk')
    (hb : ∀ f h stk, RelL h stk → BodyPost RelL (bodyS f stk) (bodyT f h)) :
    ∀ f h stk, RelL h stk →
      LoopPost RelL (loopIter condS postS bodyS f stk) (loopIterT condT postT bodyT f h) := by
  intro f
  induction f with
  | zero =>
    intro h stk hr
    obtain ⟨b, h1, h2⟩ := hc h stk hr
    cases b with
    | true => simp [loopIter, loopIterT, h1, h2, LoopPost]
    | false => simpa [loopIter, loopIterT, h1, h2, LoopPost] using hr
  | succ f ih =>
    intro h stk hr
    obtain ⟨b, h1, h2⟩ := hc h stk hr
    cases b with
    | false => simpa [loopIter, loopIterT, h1, h2, LoopPost] using hr
    | true =>
      have hbody := hb f h stk hr
      simp only [loopIter, loopIterT, h1, h2]
      cases hX : bodyS f stk with
      | stuck => rw [hX] at hbody; exact hbody.elim
      | fuel =>
        rw [hX] at hbody
        have : bodyT f h = .fuel := hbody
        simp [this, LoopPost]
      | ok o =>
        rw [hX] at hbody
        cases o with
        | normal stk' =>
          obtain ⟨h', g1, g2⟩ := hbody
          obtain ⟨stk'', v, h'', p1, p2, p3⟩ := hp h' stk' g2
          simp only [g1, p1, p2]
          exact ih h'' stk'' p3
        | continued stk' =>
          obtain ⟨h', g1, g2⟩ := hbody
          obtain ⟨stk'', v, h'', p1, p2, p3⟩ := hp h' stk' g2
          simp only [g1, p1, p2]
          exact ih h'' stk'' p3
        | broke stk' =>
          obtain ⟨h', g1, g2⟩ := hbody
          simp only [g1]
          exact ⟨h', rfl, g2⟩
        | returned v => exact hbody.elim

/-! ### the statement of the simulation -/

/-- For a statement list executed in the innermost scope `ssc` / `esc` of a related state. -/
def StmtsSound (ss : Stmts) : Prop :=
  ∀ (u : Usage) (ssc : SScope) (Γ : SEnv) (esc : Env) (envs : List Env) (stk : Stack) (h : Heap) (t : Tgt) (f : Nat),
    trStmts (ssc :: Γ) ss u = .ok t → ss.loopVarsFresh (ssc :: Γ) = true →
    Rel h stk (ssc :: Γ) (esc :: envs) →
    Post u Γ envs (exec f ss stk) (evalT f (esc ++ envs.flatten) h t)

/-- A block body / branch / loop body: run in a fresh scope on both sides, then leave it. -/
theorem sound_scoped {b : Stmts} (ih : StmtsSound b) {u : Usage} {ssc : SScope} {Γ : SEnv} {esc : Env}
    {envs : List Env} {stk : Stack} {h : Heap} {a : Tgt} {f : Nat} (ht : trStmts ([] :: ssc :: Γ) b u = .ok a)
    (hfr : b.loopVarsFresh ([] :: ssc :: Γ) = true) (r : Rel h stk (ssc :: Γ) (esc :: envs)) :
    PostS u (ssc :: Γ) (esc :: envs) (popOut (exec f b ([] :: stk))) (evalT f (esc ++ envs.flatten) h a) := by
  have := ih u [] (ssc :: Γ) [] (esc :: envs) ([] :: stk) h a f ht hfr (.cons .nil r)
  rw [List.nil_append, List.flatten_cons] at this
  exact this.pop

theorem sound_nil : StmtsSound .nil := by
  intro u ssc Γ esc envs stk h t f ht _ r
  simp only [trStmts, Except.ok.injEq] at ht
  subst ht
  obtain ⟨sc, st, rfl, _, rt⟩ := r.inv_cons
  simp only [exec]
  cases u with
  | «local» => exact ⟨sc, st, .unit, h, rfl, by simp [finalizer, evalT], rt, (fun hh => by cases hh), (fun hh => by cases hh)⟩
  | returned => exact ⟨sc, st, .unit, h, rfl, by simp [finalizer, evalT], rt, (fun _ => rfl), (fun hh => by cases hh)⟩
  | loop => exact ⟨sc, st, .cont, h, rfl, by simp [finalizer, evalT], rt, (fun hh => by cases hh), (fun _ => rfl)⟩

/-! ### unfolding `stmts` -/

theorem trStmts_cons_nonIte (Γ : SEnv) (s : Stmt) (rest : Stmts) (u : Usage) (h : s.isIte = false) :
    trStmts Γ (.cons s rest) u =
      if rest.isNil then
        match trInBlock Γ s u with
        | .error e => .error e
        | .ok (b, fin) => .ok (if fin then b.addTo true .unit else b.addTo false (finalizer u))
      else
        match trInBlock Γ s .local with
        | .error e => .error e
        | .ok (b, _) =>
          match trStmts (b.scope Γ) rest u with
          | .error e => .error e
          | .ok r => .ok (b.addTo false r) := by
  cases s <;> first | rfl | (simp [Stmt.isIte] at h)

/-- Printing a binding as the last one of a block or followed by `#()`: the same effect. -/
theorem addTo_last (b : Bind) (f : Nat) (env : Env) (h : Heap) :
    evalT f env h (b.addTo false .unit) =
      match evalT f env h (b.addTo true .unit) with
      | .ok (_, h') => .ok (.unit, h')
      | .fuel => .fuel
      | .stuck => .stuck := by
  cases b with
  | named x w e =>
    simp only [Bind.addTo, evalT]
    cases evalT f env h e with
    | ok p => simp
    | fuel => rfl
    | stuck => rfl
  | anon e =>
    simp only [Bind.addTo, evalT]
    cases evalT f env h e with
    | ok p => simp
    | fuel => rfl
    | stuck => rfl
  | loopB init l =>
    cases init with
    | none =>
      simp only [Bind.addTo, evalT]
      cases evalT f env h l with
      | ok p => simp
      | fuel => rfl
      | stuck => rfl
    | some ie =>
      obtain ⟨i, e⟩ := ie
      simp only [Bind.addTo]
      cases he : evalT f env h e with
      | ok p =>
        simp only [evalT, he]
        cases evalT f ((i, p.1) :: env) p.2 l with
        | ok q => simp
        | fuel => rfl
        | stuck => rfl
      | fuel => simp [evalT, he]
      | stuck => simp [evalT, he]

/-- … so for local use either form will do. -/
theorem Post.local_of_erase {Γ : SEnv} {envs : List Env} {X : Res Out} {r : Res (Val × Heap)}
    (hp : Post .local Γ envs X (match r with
      | .ok (_, h') => .ok (.unit, h')
      | .fuel => .fuel
      | .stuck => .stuck)) : Post .local Γ envs X r := by
  cases X with
  | stuck => exact hp
  | fuel =>
    cases r with
    | ok p => simp [Post] at hp
    | fuel => rfl
    | stuck => simp [Post] at hp
  | ok o =>
    cases o with
    | normal stk' =>
      obtain ⟨sc', st', v, h', h1, h2, h3, _, _⟩ := hp
      cases r with
      | ok p =>
        simp only [Res.ok.injEq, Prod.mk.injEq] at h2
        exact ⟨sc', st', p.1, p.2, h1, rfl, h2.2 ▸ h3, by simp, by simp⟩
      | fuel => simp at h2
      | stuck => simp at h2
    | returned n => exact absurd hp.1 (by decide)
    | broke stk' => exact absurd hp.1 (by decide)
    | continued stk' => exact absurd hp.1 (by decide)

/-- The statements whose binding does not depend on the usage and never finalizes a non-local usage:
it is enough to treat `binding; rest`. -/
theorem sound_cons_plain {s : Stmt} {rest : Stmts} (hnoIte : s.isIte = false)
    (hplain : ∀ Γ u b fin, trInBlock Γ s u = .ok (b, fin) →
      trInBlock Γ s .local = .ok (b, true) ∧ fin = (u == .local) ∧ b.scope Γ = s.scopeAfter Γ)
    (hgen : ∀ (u : Usage) (ssc : SScope) (Γ : SEnv) (esc : Env) (envs : List Env) (stk : Stack) (h : Heap)
      (f : Nat) (b : Bind) (r : Tgt) (rest' : Stmts),
      (rest' = rest ∨ rest' = .nil) →
      trInBlock (ssc :: Γ) s .local = .ok (b, true) → trStmts (s.scopeAfter (ssc :: Γ)) rest' u = .ok r →
      s.loopVarsFresh (ssc :: Γ) = true → rest'.loopVarsFresh (s.scopeAfter (ssc :: Γ)) = true →
      Rel h stk (ssc :: Γ) (esc :: envs) →
      Post u Γ envs (exec f (.cons s rest') stk) (evalT f (esc ++ envs.flatten) h (b.addTo false r))) :
    StmtsSound (.cons s rest) := by
  intro u ssc Γ esc envs stk h t f ht hfr r
  rw [trStmts_cons_nonIte _ _ _ _ hnoIte] at ht
  simp only [Stmts.loopVarsFresh, Bool.and_eq_true] at hfr
  split at ht
  · rename_i hnil
    have := Stmts.eq_nil_of_isNil hnil
    subst this
    split at ht
    · cases ht
    · rename_i b fin hb
      obtain ⟨hb', hfin, hsc⟩ := hplain _ _ _ _ hb
      simp only [Except.ok.injEq] at ht
      subst ht
      cases u with
      | «local» =>
        have hfin' : fin = true := hfin.trans (by decide)
        subst hfin'
        simp only [if_true]
        have := hgen .local ssc Γ esc envs stk h f b .unit .nil (.inr rfl) hb' (by simp [trStmts, finalizer]) hfr.1
          (by simp [Stmts.loopVarsFresh]) r
        rw [addTo_last] at this
        exact this.local_of_erase
      | returned =>
        have hfin' : fin = false := hfin.trans (by decide)
        subst hfin'
        simp only [Bool.false_eq_true, if_false]
        exact hgen .returned ssc Γ esc envs stk h f b _ .nil (.inr rfl) hb' (by simp [trStmts]) hfr.1
          (by simp [Stmts.loopVarsFresh]) r
      | loop =>
        have hfin' : fin = false := hfin.trans (by decide)
        subst hfin'
        simp only [Bool.false_eq_true, if_false]
        exact hgen .loop ssc Γ esc envs stk h f b _ .nil (.inr rfl) hb' (by simp [trStmts]) hfr.1
          (by simp [Stmts.loopVarsFresh]) r
  · split at ht
    · cases ht
    · rename_i b fin hb
      obtain ⟨hb', _, hsc⟩ := hplain _ _ _ _ hb
      split at ht
      · cases ht
      · rename_i r' hr'
        simp only [Except.ok.injEq] at ht
        subst ht
        rw [hsc] at hr'
        exact hgen u ssc Γ esc envs stk h f b r' rest (.inl rfl) hb' hr' hfr.1 hfr.2 r

/-! ### the statements, one by one -/

theorem PostS.toBody {Γ1 : SEnv} {envs1 : List Env} {X : Res Out} {r : Res (Val × Heap)}
    (hp : PostS .loop Γ1 envs1 X r) : BodyPost (fun h s => Rel h s Γ1 envs1) X r := by
  cases X with
  | stuck => exact hp
  | fuel => exact hp
  | ok o =>
    cases o with
    | normal stk' =>
      obtain ⟨v, h', h2, h3, _, h5⟩ := hp
      have := h5 rfl
      subst this
      exact ⟨h', h2, h3⟩
    | returned n => exact absurd hp.1 (by decide)
    | broke stk' => exact hp.2
    | continued stk' => exact hp.2

theorem LoopPost.pop {Γi : SScope} {Γ1 : SEnv} {ei : Env} {envs1 : List Env} {X : Res Out} {r : Res (Val × Heap)}
    (hp : LoopPost (fun h' s' => Rel h' s' (Γi :: Γ1) (ei :: envs1)) X r) : PostS .local Γ1 envs1 (popOut X) r := by
  cases X with
  | stuck => exact hp
  | fuel => exact hp
  | ok o =>
    cases o with
    | normal stk' =>
      obtain ⟨h', h2, h3⟩ := hp
      obtain ⟨sc, st, rfl, _, rt⟩ := h3.inv_cons
      exact ⟨.unit, h', h2, rt, (fun hh => by cases hh), (fun hh => by cases hh)⟩
    | returned n => exact hp.elim
    | broke stk' => exact hp.elim
    | continued stk' => exact hp.elim

/-- The loop itself, from the state in which the loop variable (if any) has been allocated. -/
theorem sound_loop_run {body : Stmts} (ihb : StmtsSound body) {c : Option Cond} {post : Option Simple}
    {Γi ssc : SScope} {Γ : SEnv} {ei esc : Env} {envs : List Env} {tc tp tb : Tgt}
    (htc : trCondOpt (Γi :: ssc :: Γ) c = .ok tc) (htp : trPost (Γi :: ssc :: Γ) post = .ok tp)
    (htb : trStmts ([] :: Γi :: ssc :: Γ) body .loop = .ok tb)
    (hfr : body.loopVarsFresh ([] :: Γi :: ssc :: Γ) = true)
    (f : Nat) (h : Heap) (stk : Stack) (rel : Rel h stk (Γi :: ssc :: Γ) (ei :: esc :: envs)) :
    LoopPost (fun h' s' => Rel h' s' (Γi :: ssc :: Γ) (ei :: esc :: envs))
      (loopIter (condOf c) (postOf post) (fun f' st' => popOut (exec f' body ([] :: st'))) f stk)
      (evalT f (ei ++ (esc ++ envs.flatten)) h (.forLoop tc tp tb)) := by
  simp only [evalT]
  apply loop_sound (fun h' s' => Rel h' s' (Γi :: ssc :: Γ) (ei :: esc :: envs))
  · intro h' stk' r'
    cases c with
    | none =>
      simp only [trCondOpt, Except.ok.injEq] at htc
      subst htc
      exact ⟨true, rfl, by simp [evalT]⟩
    | some c =>
      obtain ⟨b, hb1, hb2⟩ := sound_cond r' c tc htc
      exact ⟨b, hb1, by simpa using hb2 f⟩
  · intro h' stk' r'
    cases post with
    | none =>
      simp only [trPost, Except.ok.injEq] at htp
      subst htp
      exact ⟨stk', .unit, h', rfl, by simp [evalT], r'⟩
    | some s =>
      simp only [trPost] at htp
      cases hs : trSimple (Γi :: ssc :: Γ) s with
      | error m => simp [hs] at htp
      | ok b =>
        cases b with
        | anon t =>
          simp only [hs, Except.ok.injEq] at htp
          subst htp
          obtain ⟨stk'', h'', e1, e2, e3⟩ := sound_simple_anon r' s t hs
          exact ⟨stk'', .unit, h'', e1, by simpa using e2 f, e3⟩
        | named x w e => simp [hs] at htp
        | loopB i l => simp [hs] at htp
  · intro f' h' stk' r'
    exact (sound_scoped ihb (f := f') htb hfr r').toBody
  · exact rel

theorem scope_of_trSimple {Γ : SEnv} {s : Simple} {b : Bind} (h : trSimple Γ s = .ok b) :
    b.scope Γ = (Stmt.simple s).scopeAfter Γ := by
  cases s with
  | define x e =>
    simp only [trSimple] at h
    split at h
    · cases h
    · cases h; rfl
  | assign x e =>
    simp only [trSimple] at h
    split at h
    · cases h
    · split at h <;> cases h
      rfl
  | opAssign x op e =>
    simp only [trSimple] at h
    split at h
    · cases h
    · split at h
      · split at h <;> cases h
        rfl
      · cases h
  | incr x =>
    simp only [trSimple] at h
    split at h <;> cases h
    rfl
  | decr x =>
    simp only [trSimple] at h
    split at h <;> cases h
    rfl

theorem sound_cons_simple (s : Simple) {rest : Stmts} (ihrest : StmtsSound rest) :
    StmtsSound (.cons (.simple s) rest) := by
  apply sound_cons_plain rfl
  · intro Γ u b fin hb
    simp only [trInBlock] at hb ⊢
    cases hs : trSimple Γ s with
    | error m => simp [hs] at hb
    | ok b' =>
      simp only [hs, Except.ok.injEq, Prod.mk.injEq] at hb
      obtain ⟨rfl, rfl⟩ := hb
      exact ⟨rfl, rfl, scope_of_trSimple hs⟩
  · intro u ssc Γ esc envs stk h f b r rest' hrest' hb htr _ hfr2 rel
    have ihr : StmtsSound rest' := by
      rcases hrest' with rfl | rfl
      · exact ihrest
      · exact sound_nil
    simp only [trInBlock] at hb
    cases hs : trSimple (ssc :: Γ) s with
    | error m => simp [hs] at hb
    | ok b' =>
      simp only [hs, Except.ok.injEq, Prod.mk.injEq] at hb
      obtain ⟨rfl, _⟩ := hb
      rw [← scope_of_trSimple hs] at htr hfr2
      cases b' with
      | anon t =>
        obtain ⟨stk', h', e1, e2, e3⟩ := sound_simple_anon rel s t hs
        simp only [Bind.addTo]
        simp only [Bind.scope] at htr hfr2
        apply sound_seq_stmt (Γ1 := ssc :: Γ) (envs1 := esc :: envs)
        · simp only [execStmt, e1]
          exact ⟨.unit, h', by simpa using e2 f, e3, (fun hh => by cases hh), (fun hh => by cases hh)⟩
        · intro h'' stk'' rel''
          exact ihr u ssc Γ esc envs stk'' h'' r f htr hfr2 rel''
      | loopB i l =>
        cases s <;> simp only [trSimple] at hs <;> (repeat' split at hs) <;> cases hs
      | named x w te =>
        cases s with
        | define x' e =>
          simp only [trSimple] at hs
          cases hte : trE (ssc :: Γ) e with
          | error m => simp [hte] at hs
          | ok te' =>
            simp only [hte, Except.ok.injEq, Bind.named.injEq] at hs
            obtain ⟨rfl, rfl, rfl⟩ := hs
            obtain ⟨n, hn, hne⟩ := sound_exp rel e te' hte
            obtain ⟨sc, st, rfl, rs, rt⟩ := rel.inv_cons
            simp only [Bind.scope, bindStk] at htr hfr2
            have hp := ihr u ((x', false) :: ssc) Γ ((x', .num n) :: esc) envs (((x', n) :: sc) :: st) h r f htr hfr2
              (.cons (.num x' n rs) rt)
            have hne' : evalT f (esc ++ envs.flatten) h te' = .ok (.num n, h) := by simpa using hne f
            simp only [exec, execStmt, execSimple, hn, bindStk, Bind.addTo, evalT, hne']
            exact hp
        | assign x' e => simp only [trSimple] at hs; (repeat' split at hs) <;> cases hs
        | opAssign x' op e => simp only [trSimple] at hs; (repeat' split at hs) <;> cases hs
        | incr x' => simp only [trSimple] at hs; (repeat' split at hs) <;> cases hs
        | decr x' => simp only [trSimple] at hs; (repeat' split at hs) <;> cases hs

theorem sound_cons_declare (x : String) (e : Exp) {rest : Stmts} (ihrest : StmtsSound rest) :
    StmtsSound (.cons (.declare x e) rest) := by
  apply sound_cons_plain rfl
  · intro Γ u b fin hb
    simp only [trInBlock] at hb ⊢
    cases hte : trE Γ e with
    | error m => simp [hte] at hb
    | ok te =>
      simp only [hte, Except.ok.injEq, Prod.mk.injEq] at hb
      obtain ⟨rfl, rfl⟩ := hb
      exact ⟨rfl, rfl, rfl⟩
  · intro u ssc Γ esc envs stk h f b r rest' hrest' hb htr _ hfr2 rel
    have ihr : StmtsSound rest' := by
      rcases hrest' with rfl | rfl
      · exact ihrest
      · exact sound_nil
    simp only [trInBlock] at hb
    cases hte : trE (ssc :: Γ) e with
    | error m => simp [hte] at hb
    | ok te =>
      simp only [hte, Except.ok.injEq, Prod.mk.injEq] at hb
      obtain ⟨rfl, _⟩ := hb
      obtain ⟨n, hn, hne⟩ := sound_exp rel e te hte
      have hfl := rel.fresh_length
      obtain ⟨sc, st, rfl, rs, rt⟩ := rel.inv_cons
      simp only [Stmt.scopeAfter, bindStk] at htr hfr2
      rw [List.flatten_cons] at hfl
      have hcell : (h ++ [n])[h.length]? = some n := by simp
      have hp := ihr u ((x, true) :: ssc) Γ ((x, .loc h.length) :: esc) envs (((x, n) :: sc) :: st) (h ++ [n]) r f htr hfr2
        (.cons (.loc x n h.length (rs.grow n) hcell hfl) (rt.grow n))
      have hne' : evalT f (esc ++ envs.flatten) h te = .ok (.num n, h) := by simpa using hne f
      simp only [exec, execStmt, hn, bindStk, Bind.addTo, evalT, hne']
      exact hp

/-- What `stmtInBlock` returns for a `for` statement. -/
theorem trInBlock_loop {Γ : SEnv} {init : Option (String × Exp)} {c : Option Cond} {post : Option Simple}
    {body : Stmts} {u : Usage} {b : Bind} {fin : Bool}
    (hb : trInBlock Γ (.loop init c post body) u = .ok (b, fin)) :
    ∃ ti tc tp tb, trInit Γ init = .ok ti ∧ trCondOpt (initSScope init :: Γ) c = .ok tc ∧
      trPost (initSScope init :: Γ) post = .ok tp ∧ trStmts ([] :: initSScope init :: Γ) body .loop = .ok tb ∧
      b = .loopB ti (.forLoop tc tp tb) ∧ fin = (u == .local) := by
  simp only [trInBlock] at hb
  split at hb
  · cases hb
  · rename_i ti hti
    split at hb
    · cases hb
    · rename_i tc htc
      split at hb
      · cases hb
      · rename_i tp htp
        split at hb
        · cases hb
        · rename_i tb htb
          simp only [Except.ok.injEq, Prod.mk.injEq] at hb
          exact ⟨ti, tc, tp, tb, hti, htc, htp, htb, hb.1.symm, hb.2.symm⟩

theorem sound_cons_loop (init : Option (String × Exp)) (c : Option Cond) (post : Option Simple) (body : Stmts)
    {rest : Stmts} (ihb : StmtsSound body) (ihrest : StmtsSound rest) :
    StmtsSound (.cons (.loop init c post body) rest) := by
  apply sound_cons_plain rfl
  · intro Γ u b fin hb
    obtain ⟨ti, tc, tp, tb, h1, h2, h3, h4, rfl, rfl⟩ := trInBlock_loop hb
    refine ⟨?_, rfl, rfl⟩
    simp only [trInBlock, h1, h2, h3, h4]
    rfl
  · intro u ssc Γ esc envs stk h f b r rest' hrest' hb htr hfr1 hfr2 rel
    have ihr : StmtsSound rest' := by
      rcases hrest' with rfl | rfl
      · exact ihrest
      · exact sound_nil
    obtain ⟨ti, tc, tp, tb, hti, htc, htp, htb, rfl, _⟩ := trInBlock_loop hb
    simp only [Stmt.scopeAfter] at htr hfr2
    simp only [Stmt.loopVarsFresh, Bool.and_eq_true] at hfr1
    obtain ⟨hfi, hfb⟩ := hfr1
    cases init with
    | none =>
      simp only [trInit, Except.ok.injEq] at hti
      subst hti
      simp only [initSScope] at htc htp htb hfb
      have run := sound_loop_run ihb (ei := []) htc htp htb hfb f h ([] :: stk) (.cons .nil rel)
      rw [List.nil_append] at run
      have hskip : evalT f (esc ++ envs.flatten) h (.seq .skip (.seq (.forLoop tc tp tb) r)) =
          evalT f (esc ++ envs.flatten) h (.seq (.forLoop tc tp tb) r) := by
        simp only [evalT]
      simp only [Bind.addTo]
      rw [hskip]
      apply sound_seq_stmt (Γ1 := ssc :: Γ) (envs1 := esc :: envs)
      · simp only [execStmt, initScope]
        exact run.pop
      · intro h'' stk'' rel''
        exact ihr u ssc Γ esc envs stk'' h'' r f htr hfr2 rel''
    | some ie =>
      obtain ⟨i, e⟩ := ie
      simp only [trInit] at hti
      cases hte : trE (ssc :: Γ) e with
      | error m => simp [hte] at hti
      | ok te =>
        simp only [hte, Except.ok.injEq] at hti
        subst hti
        simp only [initSScope] at htc htp htb hfb
        simp only [Option.isNone_iff_eq_none] at hfi
        obtain ⟨hi1, hi2⟩ := lookStk_cons_none hfi
        obtain ⟨n, hn, hne⟩ := sound_exp rel e te hte
        have hne' : evalT f (esc ++ envs.flatten) h te = .ok (.num n, h) := by simpa using hne f
        have hfl := rel.fresh_length
        have hcell : (h ++ [n])[h.length]? = some n := by simp
        have rel2 : Rel (h ++ [n]) ([(i, n)] :: stk) ([(i, true)] :: ssc :: Γ) ([(i, .loc h.length)] :: esc :: envs) :=
          .cons (.loc i n h.length .nil hcell (by simpa using hfl)) (rel.grow n)
        have run := sound_loop_run ihb htc htp htb hfb f (h ++ [n]) ([(i, n)] :: stk) rel2
        generalize hL : Tgt.forLoop tc tp tb = L at run
        simp only [List.cons_append, List.nil_append] at run
        simp only [exec, execStmt, initScope, hn, Bind.addTo, evalT, hne']
        generalize loopIter (condOf c) (postOf post) (fun f' st' => popOut (exec f' body ([] :: st'))) f
          ([(i, n)] :: stk) = X at run
        generalize evalT f ((i, Val.loc h.length) :: (esc ++ envs.flatten)) (h ++ [n]) L = R at run
        cases X with
        | stuck => exact run.elim
        | fuel =>
          have : R = .fuel := run
          subst this
          simp [popOut, Post]
        | ok o =>
          cases o with
          | returned v => exact run.elim
          | broke s' => exact run.elim
          | continued s' => exact run.elim
          | normal stk' =>
            obtain ⟨h', hR, rel'⟩ := run
            subst hR
            obtain ⟨sc0, stk'', rfl, rs0, rel''⟩ := rel'.inv_cons
            obtain ⟨sc2, st2, rfl, rs2, rt2⟩ := rel''.inv_cons
            simp only [popOut, List.tail_cons]
            cases rs0 with
            | loc _ n' _ rsn hcell' hfresh' =>
              have hjunk : Rel h' (sc2 :: st2) (ssc :: Γ) (((i, .loc h.length) :: esc) :: envs) :=
                .cons (.junk i h.length rs2 hi1 hi2 (lt_of_getElem? hcell') (by simpa using hfresh')) rt2
              exact ihr u ssc Γ ((i, .loc h.length) :: esc) envs (sc2 :: st2) h' r f htr hfr2 hjunk
            | junk _ _ rsn _ _ _ _ => cases rsn

theorem sound_cons_block (b : Stmts) {rest : Stmts} (ihb : StmtsSound b) (ihrest : StmtsSound rest) :
    StmtsSound (.cons (.block b) rest) := by
  intro u ssc Γ esc envs stk h t f ht hfr rel
  rw [trStmts_cons_nonIte _ _ _ _ rfl] at ht
  simp only [Stmts.loopVarsFresh, Stmt.loopVarsFresh, Stmt.scopeAfter, Bool.and_eq_true] at hfr
  split at ht
  · rename_i hnil
    have := Stmts.eq_nil_of_isNil hnil
    subst this
    simp only [trInBlock] at ht
    cases htb : trStmts ([] :: ssc :: Γ) b u with
    | error m => simp [htb] at ht
    | ok tb =>
      simp only [htb, Except.ok.injEq, if_true, Bind.addTo] at ht
      subst ht
      rw [exec_single]
      simp only [execStmt]
      exact (sound_scoped ihb htb hfr.1 rel).toPost
  · simp only [trInBlock] at ht
    cases htb : trStmts ([] :: ssc :: Γ) b .local with
    | error m => simp [htb] at ht
    | ok tb =>
      simp only [htb, Bind.scope] at ht
      cases htr : trStmts (ssc :: Γ) rest u with
      | error m => simp [htr] at ht
      | ok r =>
        simp only [htr, Except.ok.injEq, Bind.addTo] at ht
        subst ht
        apply sound_seq_stmt (Γ1 := ssc :: Γ) (envs1 := esc :: envs)
        · simp only [execStmt]
          exact sound_scoped ihb htb hfr.1 rel
        · intro h'' stk'' rel''
          exact ihrest u ssc Γ esc envs stk'' h'' r f htr hfr.2 rel''

theorem sound_cons_ret (e : Exp) (rest : Stmts) : StmtsSound (.cons (.ret e) rest) := by
  intro u ssc Γ esc envs stk h t f ht hfr rel
  rw [trStmts_cons_nonIte _ _ _ _ rfl] at ht
  split at ht
  · rename_i hnil
    have := Stmts.eq_nil_of_isNil hnil
    subst this
    cases u with
    | returned =>
      simp only [trInBlock] at ht
      cases hte : trE (ssc :: Γ) e with
      | error m => simp [hte] at ht
      | ok te =>
        simp only [hte, Except.ok.injEq, if_true, Bind.addTo] at ht
        subst ht
        obtain ⟨n, hn, hne⟩ := sound_exp rel e te hte
        rw [exec_single]
        simp only [execStmt, hn]
        exact ⟨rfl, h, by simpa using hne f⟩
    | «local» => simp [trInBlock] at ht
    | loop => simp [trInBlock] at ht
  · simp [trInBlock] at ht

theorem sound_cons_brk (rest : Stmts) : StmtsSound (.cons .brk rest) := by
  intro u ssc Γ esc envs stk h t f ht hfr rel
  rw [trStmts_cons_nonIte _ _ _ _ rfl] at ht
  split at ht
  · rename_i hnil
    have := Stmts.eq_nil_of_isNil hnil
    subst this
    cases u with
    | loop =>
      simp only [trInBlock, Except.ok.injEq, if_true, Bind.addTo] at ht
      subst ht
      obtain ⟨sc, st, rfl, _, rt⟩ := rel.inv_cons
      rw [exec_single]
      simp only [execStmt]
      exact ⟨rfl, sc, st, h, rfl, by simp [evalT], rt⟩
    | «local» => simp [trInBlock] at ht
    | returned => simp [trInBlock] at ht
  · simp [trInBlock] at ht

theorem sound_cons_cont (rest : Stmts) : StmtsSound (.cons .cont rest) := by
  intro u ssc Γ esc envs stk h t f ht hfr rel
  rw [trStmts_cons_nonIte _ _ _ _ rfl] at ht
  split at ht
  · rename_i hnil
    have := Stmts.eq_nil_of_isNil hnil
    subst this
    cases u with
    | loop =>
      simp only [trInBlock, Except.ok.injEq, if_true, Bind.addTo] at ht
      subst ht
      obtain ⟨sc, st, rfl, _, rt⟩ := rel.inv_cons
      rw [exec_single]
      simp only [execStmt]
      exact ⟨rfl, sc, st, h, rfl, by simp [evalT], rt⟩
    | «local» => simp [trInBlock] at ht
    | returned => simp [trInBlock] at ht
  · simp [trInBlock] at ht

/-- `ifStmt` together with the statements that follow it. -/
theorem sound_cons_ite (c : Cond) (thn els : Stmts) {rest : Stmts} (iht : StmtsSound thn) (ihe : StmtsSound els)
    (ihrest : StmtsSound rest) : StmtsSound (.cons (.ite c thn els) rest) := by
  intro u ssc Γ esc envs stk h t f ht hfr rel
  simp only [trStmts] at ht
  cases htc : trC (ssc :: Γ) c with
  | error m => simp [htc] at ht
  | ok tc =>
    simp only [htc] at ht
    obtain ⟨b, hb, hbe⟩ := sound_cond rel c tc htc
    have hbe' : evalT f (esc ++ envs.flatten) h tc = .ok (.bool b, h) := by simpa using hbe f
    simp only [Stmts.loopVarsFresh, Stmt.loopVarsFresh, Stmt.scopeAfter, Bool.and_eq_true] at hfr
    obtain ⟨⟨hft, hfe⟩, hfrest⟩ := hfr
    unfold trIf at ht
    split at ht
    · -- no code after the conditional
      rename_i hnil
      have := Stmts.eq_nil_of_isNil hnil
      subst this
      split at ht
      · cases ht
      · rename_i a ha
        split at ht
        · cases ht
        · rename_i a' ha'
          simp only [Except.ok.injEq] at ht
          subst ht
          rw [exec_single]
          cases b with
          | true =>
            simp only [execStmt, hb, evalT, hbe']
            exact (sound_scoped iht ha hft rel).toPost
          | false =>
            simp only [execStmt, hb, evalT, hbe']
            exact (sound_scoped ihe ha' hfe rel).toPost
    · split at ht
      · -- the then-branch always leaves: the remainder is the else-branch
        rename_i hte
        split at ht
        · cases ht
        · rename_i a ha
          split at ht
          · rename_i hee
            have := Stmts.eq_nil_of_isNil hee
            subst this
            split at ht
            · cases ht
            · rename_i r hr
              simp only [Except.ok.injEq] at ht
              subst ht
              cases b with
              | true =>
                have hp := sound_scoped iht (f := f) ha hft rel
                have hnn : ∀ st', popOut (exec f thn ([] :: stk)) ≠ .ok (.normal st') := by
                  intro st' hh
                  obtain ⟨st'', h''⟩ := popOut_normal hh
                  exact ewr_not_normal thn hte f _ st'' h''
                simp only [exec, execStmt, hb, evalT, hbe']
                generalize popOut (exec f thn ([] :: stk)) = X at hp hnn
                cases X with
                | stuck => exact hp.elim
                | fuel => exact hp.toPost
                | ok o =>
                  cases o with
                  | normal st' => exact absurd rfl (hnn st')
                  | returned v => exact hp.toPost
                  | broke st' => exact hp.toPost
                  | continued st' => exact hp.toPost
              | false =>
                simp only [exec, execStmt, hb, evalT, hbe', popOut, List.tail_cons]
                exact ihrest u ssc Γ esc envs stk h r f hr hfrest rel
          · cases ht
      · -- a conditional in the middle of a block
        split at ht
        · cases ht
        · rename_i a ha
          split at ht
          · cases ht
          · rename_i a' ha'
            split at ht
            · cases ht
            · rename_i r hr
              simp only [Except.ok.injEq] at ht
              subst ht
              apply sound_seq_stmt (Γ1 := ssc :: Γ) (envs1 := esc :: envs)
              · cases b with
                | true =>
                  simp only [execStmt, hb, evalT, hbe']
                  exact sound_scoped iht ha hft rel
                | false =>
                  simp only [execStmt, hb, evalT, hbe']
                  exact sound_scoped ihe ha' hfe rel
              · intro h'' stk'' rel''
                exact ihrest u ssc Γ esc envs stk'' h'' r f hr hfrest rel''

/-! ### the simulation -/

/-- The induction hypotheses a statement brings for the lists inside it. -/
def StmtIH : Stmt → Prop
  | .ite _ thn els => StmtsSound thn ∧ StmtsSound els
  | .block b => StmtsSound b
  | .loop _ _ _ body => StmtsSound body
  | _ => True

theorem sound_cons (s : Stmt) (rest : Stmts) (ihs : StmtIH s) (ihrest : StmtsSound rest) :
    StmtsSound (.cons s rest) := by
  cases s with
  | simple s => exact sound_cons_simple s ihrest
  | declare x e => exact sound_cons_declare x e ihrest
  | ite c thn els => exact sound_cons_ite c thn els ihs.1 ihs.2 ihrest
  | ret e => exact sound_cons_ret e rest
  | brk => exact sound_cons_brk rest
  | cont => exact sound_cons_cont rest
  | block b => exact sound_cons_block b ihs ihrest
  | loop init c post body => exact sound_cons_loop init c post body ihs ihrest

mutual
/-- **The simulation**, by one mutual structural induction over statements and statement lists. -/
theorem sound_stmts : (ss : Stmts) → StmtsSound ss
  | .nil => sound_nil
  | .cons s rest => sound_cons s rest (sound_stmt_ih s) (sound_stmts rest)
theorem sound_stmt_ih : (s : Stmt) → StmtIH s
  | .simple _ => trivial
  | .declare _ _ => trivial
  | .ite _ thn els => ⟨sound_stmts thn, sound_stmts els⟩
  | .ret _ => trivial
  | .brk => trivial
  | .cont => trivial
  | .block b => sound_stmts b
  | .loop _ _ _ body => sound_stmts body
end

/-- The parameters of a function are related to themselves. -/
theorem RelS.params (h : Heap) (params : List (String × W)) :
    RelS h [] [] params (params.map (fun p => (p.1, false))) (paramEnv params) := by
  induction params with
  | nil => exact .nil
  | cons p ps ih =>
    obtain ⟨x, n⟩ := p
    exact .num x n ih

theorem Rel.params (params : List (String × W)) :
    Rel [] (paramStack params) (paramSEnv params) [paramEnv params] :=
  .cons (RelS.params [] params) .nil

/-! ### related stacks have the names of the static environment -/

/-- The names declared in each scope of a stack. -/
def scopeNames {α : Type} (st : List (List (String × α))) : List (List String) := st.map (fun sc => sc.map Prod.fst)

theorem RelS.names {h : Heap} {Γo : SEnv} {eo : Env} {sc : Scope} {ssc : SScope} {esc : Env}
    (r : RelS h Γo eo sc ssc esc) : sc.map Prod.fst = ssc.map Prod.fst := by
  induction r with
  | nil => rfl
  | num x n _ ih => simp [ih]
  | loc x n l _ _ _ ih => simp [ih]
  | junk x l _ _ _ _ _ ih => exact ih

theorem Rel.names {h : Heap} {stk : Stack} {Γ : SEnv} {envs : List Env} (r : Rel h stk Γ envs) :
    scopeNames stk = scopeNames Γ := by
  induction r with
  | nil => rfl
  | cons rs _ ih =>
    unfold scopeNames at ih ⊢
    rw [List.map_cons, List.map_cons, rs.names, ih]

/-! ### the statements of `Props/C01Core.lean` -/

/-- A translated function body, run on the parameter values, yields what Go yields. -/
theorem run_correct (b : Stmts) (params : List (String × W)) (fuel : Nat) (t : Tgt)
    (hacc : tr (paramSEnv params) b = .ok t)
    (hfresh : b.loopVarsFresh (paramSEnv params) = true) :
    runT fuel params t = expected (runGo fuel params b) ∧ runGo fuel params b ≠ .stuck := by
  have hp := sound_stmts b .returned _ [] (paramEnv params) [] (paramStack params) [] t fuel hacc hfresh
    (Rel.params params)
  simp only [List.flatten_nil, List.append_nil] at hp
  unfold runT runGo
  generalize exec fuel b (paramStack params) = X at hp
  generalize evalT fuel (paramEnv params) [] t = R at hp
  cases X with
  | stuck => exact hp.elim
  | fuel =>
    have : R = .fuel := hp
    subst this
    exact ⟨rfl, by simp⟩
  | ok o =>
    cases o with
    | normal stk' =>
      obtain ⟨_, _, v, h', _, rfl, _, hv, _⟩ := hp
      have := hv rfl
      subst this
      exact ⟨rfl, by simp⟩
    | returned n =>
      obtain ⟨_, h', rfl⟩ := hp
      exact ⟨rfl, by simp⟩
    | broke stk' => exact absurd hp.1 (by decide)
    | continued stk' => exact absurd hp.1 (by decide)

/-- What an accepted loop body computes. -/
theorem loop_body_outcomes (body : Stmts) (ssc : SScope) (Γ : SEnv) (esc : Env) (envs : List Env)
    (stk : Stack) (h : Heap) (tb : Tgt) (f : Nat)
    (hacc : trStmts (ssc :: Γ) body .loop = .ok tb) (hfresh : body.loopVarsFresh (ssc :: Γ) = true)
    (hrel : Rel h stk (ssc :: Γ) (esc :: envs)) :
    match exec f body stk with
    | .ok (.broke _) => ∃ h', evalT f (esc ++ envs.flatten) h tb = .ok (.brk, h')
    | .ok (.continued _) => ∃ h', evalT f (esc ++ envs.flatten) h tb = .ok (.cont, h')
    | .ok (.normal _) => ∃ h', evalT f (esc ++ envs.flatten) h tb = .ok (.cont, h')
    | .ok (.returned _) => False
    | .fuel => evalT f (esc ++ envs.flatten) h tb = .fuel
    | .stuck => False := by
  have hp := sound_stmts body .loop ssc Γ esc envs stk h tb f hacc hfresh hrel
  generalize exec f body stk = X at hp
  cases X with
  | stuck => exact hp
  | fuel => exact hp
  | ok o =>
    cases o with
    | normal stk' =>
      obtain ⟨_, _, v, h', _, hr, _, _, hv⟩ := hp
      have := hv rfl
      subst this
      exact ⟨h', hr⟩
    | returned n => exact absurd hp.1 (by decide)
    | broke stk' =>
      obtain ⟨_, _, _, h', _, hr, _⟩ := hp
      exact ⟨h', hr⟩
    | continued stk' =>
      obtain ⟨_, _, _, h', _, hr, _⟩ := hp
      exact ⟨h', hr⟩

end GooseVerif.Model.Core
