/-
Helper lemmas for `Model/Conc.lean`, part 1: environments, translation of expressions, the closure of
administrative steps (`AStar`, deterministic, with unique normal forms).
-/
import GooseVerif.Model.Conc

namespace GooseVerif.Model.Conc
open GooseVerif.Model.Core (W BinOp CmpOp Exp Cond look)

/-! ### environments: the static and the target view of Go's environment -/

def kindOf : Bnd → Kind
  | .val _ => .val | .cell _ => .cell | .mutex _ => .mutex | .wg _ => .wg | .cond _ => .cond

/-- The GooseLang value of a binding: the addresses are the same on both sides. -/
def valOf : Bnd → Val
  | .val w => .num w | .cell a => .loc a | .mutex a => .loc a | .wg a => .loc a | .cond a => .loc a

def senv (env : Env) : SEnv := env.map (fun p => (p.1, kindOf p.2))
def tenv (env : Env) : TEnv := env.map (fun p => (p.1, valOf p.2))

theorem look_map {α β : Type} (f : α → β) (x : String) (l : List (String × α)) :
    look x (l.map (fun p => (p.1, f p.2))) = (look x l).map f := by
  induction l with
  | nil => simp [look]
  | cons p l ih =>
    obtain ⟨y, v⟩ := p
    by_cases hy : y = x
    · simp [look, hy]
    · simp [look, hy, ih]

theorem look_senv (x : String) (env : Env) : look x (senv env) = (look x env).map kindOf := look_map kindOf x env
theorem look_tenv (x : String) (env : Env) : look x (tenv env) = (look x env).map valOf := look_map valOf x env

@[simp] theorem senv_cons (x : String) (b : Bnd) (env : Env) : senv ((x, b) :: env) = (x, kindOf b) :: senv env := rfl
@[simp] theorem tenv_cons (x : String) (b : Bnd) (env : Env) : tenv ((x, b) :: env) = (x, valOf b) :: tenv env := rfl

/-- A name of static kind `k` is bound, at run time, to a binding of that kind. -/
theorem look_kind {x : String} {env : Env} {k : Kind} (h : look x (senv env) = some k) :
    ∃ b, look x env = some b ∧ kindOf b = k := by
  rw [look_senv] at h
  cases hb : look x env with
  | none => simp [hb] at h
  | some b => simp [hb] at h; exact ⟨b, rfl, h⟩

theorem look_mutex {x : String} {env : Env} (h : look x (senv env) = some .mutex) :
    ∃ a, look x env = some (.mutex a) ∧ look x (tenv env) = some (.loc a) := by
  obtain ⟨b, hb, hk⟩ := look_kind h
  cases b <;> simp [kindOf] at hk
  exact ⟨_, hb, by rw [look_tenv, hb]; rfl⟩

theorem look_wg {x : String} {env : Env} (h : look x (senv env) = some .wg) :
    ∃ a, look x env = some (.wg a) ∧ look x (tenv env) = some (.loc a) := by
  obtain ⟨b, hb, hk⟩ := look_kind h
  cases b <;> simp [kindOf] at hk
  exact ⟨_, hb, by rw [look_tenv, hb]; rfl⟩

theorem look_cond {x : String} {env : Env} (h : look x (senv env) = some .cond) :
    ∃ a, look x env = some (.cond a) ∧ look x (tenv env) = some (.loc a) := by
  obtain ⟨b, hb, hk⟩ := look_kind h
  cases b <;> simp [kindOf] at hk
  exact ⟨_, hb, by rw [look_tenv, hb]; rfl⟩

theorem look_cell {x : String} {env : Env} (h : look x (senv env) = some .cell) :
    ∃ a, look x env = some (.cell a) ∧ look x (tenv env) = some (.loc a) := by
  obtain ⟨b, hb, hk⟩ := look_kind h
  cases b <;> simp [kindOf] at hk
  exact ⟨_, hb, by rw [look_tenv, hb]; rfl⟩

/-! ### expressions and conditions -/

theorem trE_sound (env : Env) (h : Heap) : ∀ (e : Exp) (te : TE), trE (senv env) e = .ok te →
    evalTE (tenv env) h te = (evalE env h e).map Val.num := by
  intro e
  induction e with
  | lit n => intro te ht; simp [trE] at ht; subst ht; simp [evalTE, evalE]
  | var x =>
    intro te ht
    simp only [trE] at ht
    cases hk : look x (senv env) with
    | none => simp [hk] at ht
    | some k =>
      obtain ⟨b, hb, hkb⟩ := look_kind hk
      cases b <;> simp [kindOf] at hkb <;> subst hkb <;> simp [hk] at ht <;> subst ht
      · simp [evalTE, evalE, look_tenv, hb, valOf]
      · rename_i a
        simp only [evalTE, evalE, look_tenv, hb, valOf, Option.map]
        cases h[a]? with
        | none => rfl
        | some o => cases o <;> rfl
  | bin op a b iha ihb =>
    intro te ht
    simp only [trE] at ht
    cases hta : trE (senv env) a with
    | error m => simp [hta] at ht
    | ok ta =>
      cases htb : trE (senv env) b with
      | error m => simp [hta, htb] at ht
      | ok tb =>
        simp [hta, htb] at ht; subst ht
        simp only [evalTE, evalE, iha ta hta, ihb tb htb]
        cases evalE env h a <;> cases evalE env h b <;> simp

theorem trC_sound (env : Env) (h : Heap) : ∀ (c : Cond) (tc : TE), trC (senv env) c = .ok tc →
    evalTE (tenv env) h tc = (evalC env h c).map Val.bool := by
  intro c
  induction c with
  | cmp o a b =>
    intro tc ht
    simp only [trC] at ht
    cases hta : trE (senv env) a with
    | error m => simp [hta] at ht
    | ok ta =>
      cases htb : trE (senv env) b with
      | error m => simp [hta, htb] at ht
      | ok tb =>
        simp [hta, htb] at ht; subst ht
        simp only [evalTE, evalC, trE_sound env h a ta hta, trE_sound env h b tb htb]
        cases evalE env h a <;> cases evalE env h b <;> simp
  | and p q ihp ihq =>
    intro tc ht
    simp only [trC] at ht
    cases htp : trC (senv env) p with
    | error m => simp [htp] at ht
    | ok tp =>
      cases htq : trC (senv env) q with
      | error m => simp [htp, htq] at ht
      | ok tq =>
        simp [htp, htq] at ht; subst ht
        simp only [evalTE, evalC, ihp tp htp]
        cases hp : evalC env h p with
        | none => simp
        | some b => cases b <;> simp [ihq tq htq]
  | or p q ihp ihq =>
    intro tc ht
    simp only [trC] at ht
    cases htp : trC (senv env) p with
    | error m => simp [htp] at ht
    | ok tp =>
      cases htq : trC (senv env) q with
      | error m => simp [htp, htq] at ht
      | ok tq =>
        simp [htp, htq] at ht; subst ht
        simp only [evalTE, evalC, ihp tp htp]
        cases hp : evalC env h p with
        | none => simp
        | some b => cases b <;> simp [ihq tq htq]
  | not p ihp =>
    intro tc ht
    simp only [trC] at ht
    cases htp : trC (senv env) p with
    | error m => simp [htp] at ht
    | ok tp =>
      simp [htp] at ht; subst ht
      simp only [evalTE, evalC, ihp tp htp]
      cases evalC env h p <;> simp
  | tt => intro tc ht; simp [trC] at ht; subst ht; simp [evalTE, evalC]
  | ff => intro tc ht; simp [trC] at ht; subst ht; simp [evalTE, evalC]

/-! ### administrative steps -/

/-- Zero or more administrative steps. -/
inductive AStar : TThread → TThread → Prop where
  | refl (t : TThread) : AStar t t
  | step {t t' t'' : TThread} : astep t = some t' → AStar t' t'' → AStar t t''

theorem AStar.trans {a b c : TThread} (h1 : AStar a b) (h2 : AStar b c) : AStar a c := by
  induction h1 with
  | refl => exact h2
  | step hs _ ih => exact .step hs (ih h2)

theorem AStar.one {a b : TThread} (h : astep a = some b) : AStar a b := .step h (.refl _)

/-- Administrative steps are deterministic: a normal form reached from `a` is reached from every reduct of `a`. -/
theorem AStar.to_normal {a b n : TThread} (hab : AStar a b) (han : AStar a n) (hn : astep n = none) : AStar b n := by
  induction hab with
  | refl => exact han
  | step hs _ ih =>
    cases han with
    | refl => rw [hn] at hs; cases hs
    | step hs' hr =>
      rw [hs] at hs'; cases hs'
      exact ih hr

theorem AStar.normal_eq {a n : TThread} (h : AStar n a) (hn : astep n = none) : a = n := by
  cases h with
  | refl => rfl
  | step hs _ => rw [hn] at hs; cases hs

/-- Two normal forms of the same state are equal. -/
theorem AStar.normal_unique {a n m : TThread} (h1 : AStar a n) (h2 : AStar a m) (hn : astep n = none) (hm : astep m = none) :
    n = m := ((AStar.to_normal h1 h2 hm).normal_eq hn).symm

/-- Two states with a common reduct. -/
def Join (a b : TThread) : Prop := ∃ m, AStar a m ∧ AStar b m

theorem Join.refl (a : TThread) : Join a a := ⟨a, .refl _, .refl _⟩

theorem Join.of_astar {a b : TThread} (h : AStar a b) : Join a b := ⟨b, h, .refl _⟩

theorem Join.step_left {a a' b : TThread} (hs : astep a = some a') (h : Join a' b) : Join a b := by
  obtain ⟨m, h1, h2⟩ := h
  exact ⟨m, .step hs h1, h2⟩

theorem Join.astar_left {a a' b : TThread} (hs : AStar a a') (h : Join a' b) : Join a b := by
  obtain ⟨m, h1, h2⟩ := h
  exact ⟨m, hs.trans h1, h2⟩

theorem Join.astar_right {a b b' : TThread} (hs : AStar b b') (h : Join a b') : Join a b := by
  obtain ⟨m, h1, h2⟩ := h
  exact ⟨m, h1, hs.trans h2⟩

/-- Administrative steps preserve joinability. -/
theorem Join.after_step {a a' b : TThread} (h : Join a b) (hs : astep a = some a') : Join a' b := by
  obtain ⟨m, h1, h2⟩ := h
  cases h1 with
  | refl => exact ⟨a', .refl _, h2.trans (.one hs)⟩
  | step hs' hr => rw [hs] at hs'; cases hs'; exact ⟨m, hr, h2⟩

/-- If `b` reaches the normal form `n`, so does everything joinable with `b`. -/
theorem Join.to_normal {a b n : TThread} (h : Join a b) (hb : AStar b n) (hn : astep n = none) : AStar a n := by
  obtain ⟨m, h1, h2⟩ := h
  exact h1.trans (AStar.to_normal h2 hb hn)

end GooseVerif.Model.Conc
