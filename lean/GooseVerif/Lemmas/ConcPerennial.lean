/-
Helper lemmas for `Model/Conc.lean`, part 5: every behaviour of the STRICT reading of condition variables is a
behaviour of PERENNIAL's reading (`condWait` = release; acquire — it may always wake up; Signal and Broadcast
do nothing).  No side condition on the program is needed for this direction: Perennial's `condWait` may wake
up whenever it likes, in particular exactly when the strict one is woken.

Erasure: `erH` forgets the waiter lists, `erT` drops the `wakeK` frames.  A strict step of a well-shaped
thread (`Shape`: no `wakeK` frame, except on top of the frames of a parked thread) is the same Perennial step
on the erased configuration — or no step at all (waking up: the erased configurations are equal).
-/
import GooseVerif.Lemmas.ConcPool

namespace GooseVerif.Model.Conc
open GooseVerif.Model.Core (W BinOp CmpOp Exp Cond look)

def erObj : Obj → Obj
  | .cond l _ => .cond l []
  | o => o

def erH (h : Heap) : Heap := h.map erObj

def isWake : TFrame → Bool
  | .wakeK _ => true
  | _ => false

def erK (k : List TFrame) : List TFrame := k.filter (fun f => !isWake f)

def erT (t : TThread) : TThread := ⟨t.ctl, erK t.k⟩

def NoWake (k : List TFrame) : Prop := ∀ f ∈ k, isWake f = false

/-- The shapes of the threads of a strict run: no `wakeK` frame, or a parked thread. -/
def Shape (t : TThread) : Prop :=
  NoWake t.k ∨ ∃ c l K', t = ⟨.ret .unit, .wakeK c :: .acquireK l :: K'⟩ ∧ NoWake K'

theorem erK_of_noWake {k : List TFrame} (h : NoWake k) : erK k = k := by
  unfold erK
  rw [List.filter_eq_self]
  intro f hf
  simp [h f hf]

theorem erT_of_noWake {t : TThread} (h : NoWake t.k) : erT t = t := by
  obtain ⟨ctl, k⟩ := t
  simp only [erT, erK_of_noWake h]

theorem NoWake.nil : NoWake [] := by intro f hf; cases hf

theorem NoWake.cons {f : TFrame} {k : List TFrame} (hf : isWake f = false) (h : NoWake k) : NoWake (f :: k) := by
  intro g hg
  cases hg with
  | head => exact hf
  | tail _ hg => exact h g hg

theorem NoWake.tail {f : TFrame} {k : List TFrame} (h : NoWake (f :: k)) : NoWake k :=
  fun g hg => h g (List.mem_cons_of_mem _ hg)

theorem erH_get (h : Heap) (a : Nat) : (erH h)[a]? = (h[a]?).map erObj := by
  simp [erH, List.getElem?_map]

theorem erH_set (h : Heap) (a : Nat) (o : Obj) : erH (h.set a o) = (erH h).set a (erObj o) := by
  simp [erH, List.map_set]

theorem erH_append (h : Heap) (o : Obj) : erH (h ++ [o]) = erH h ++ [erObj o] := by simp [erH]

@[simp] theorem erH_length (h : Heap) : (erH h).length = h.length := by simp [erH]

theorem set_same {α : Type} {l : List α} {a : Nat} {o : α} (h : l[a]? = some o) : l.set a o = l := by
  obtain ⟨hi, hget⟩ := List.getElem?_eq_some_iff.1 h
  rw [← hget]; exact List.set_getElem_self hi

theorem evalTE_erH (ρ : TEnv) (h : Heap) : ∀ e : TE, evalTE ρ (erH h) e = evalTE ρ h e := by
  intro e
  induction e with
  | lit n => rfl
  | litB b => rfl
  | var x => rfl
  | load x =>
    simp only [evalTE]
    cases look x ρ with
    | none => rfl
    | some v =>
      cases v with
      | loc a =>
        simp only [erH_get]
        cases h[a]? with
        | none => rfl
        | some o => cases o <;> rfl
      | num _ => rfl
      | bool _ => rfl
      | unit => rfl
  | bin op a b iha ihb => simp only [evalTE, iha, ihb]
  | cmp c a b iha ihb => simp only [evalTE, iha, ihb]
  | and a b iha ihb => simp only [evalTE, iha, ihb]
  | or a b iha ihb => simp only [evalTE, iha, ihb]
  | not a iha => simp only [evalTE, iha]

/-- Administrative steps push and pop only frames that are not `wakeK`. -/
theorem astep_noWake {t t' : TThread} (hs : astep t = some t') (h : NoWake t.k) : NoWake t'.k := by
  obtain ⟨ctl, k⟩ := t
  cases ctl with
  | eval e ρ =>
    cases e <;> simp [astep] at hs <;> subst hs <;> first | exact h | exact NoWake.cons rfl h
  | ret v =>
    cases k with
    | nil => simp [astep] at hs
    | cons f k =>
      have hk : NoWake k := NoWake.tail h
      cases f with
      | letK x b ρ => simp [astep] at hs; subst hs; exact hk
      | seqK b ρ => simp [astep] at hs; subst hs; exact hk
      | forBodyK c p b ρ =>
        cases v with
        | bool bv =>
          cases bv with
          | true => simp [astep] at hs; subst hs; exact NoWake.cons rfl hk
          | false => simp [astep] at hs; subst hs; exact hk
        | num _ => simp [astep] at hs
        | unit => simp [astep] at hs
        | loc _ => simp [astep] at hs
      | forPostK c p b ρ => simp [astep] at hs; subst hs; exact hk
      | wakeK c => simp [astep] at hs
      | acquireK l => simp [astep] at hs

/-- The result of a Perennial step that mirrors a strict step. -/
def Mirrors (h : Heap) (i ch : Nat) (t : TThread) (h' : Heap) (t' : TThread) (sp : Option TThread) : Prop :=
  Shape t' ∧ (∀ s, sp = some s → NoWake s.k) ∧
  (tstep .perennial (erH h) i ch (erT t) = .ok (erH h') (erT t') sp ∨ (erT t' = erT t ∧ erH h' = erH h ∧ sp = none))

theorem per_prim {h h' : Heap} {i ch a : Nat} {k : List TFrame} {p : Prim} {t' : TThread} {sp : Option TThread}
    (hk : NoWake k) (hs : primStep .strict h i ch k a p = .ok h' t' sp) :
    Shape t' ∧ sp = none ∧ primStep .perennial (erH h) i ch k a p = .ok (erH h') (erT t') none := by
  cases p with
  | newCond =>
    simp only [primStep] at hs; cases hs
    refine ⟨.inl hk, rfl, ?_⟩
    simp [primStep, erH_append, erObj, erT, erK_of_noWake hk]
  | acquire =>
    simp only [primStep] at hs ⊢
    rw [erH_get]
    cases hh : h[a]? with
    | none => simp [hh] at hs
    | some o =>
      cases o with
      | mutex held =>
        cases held with
        | true => simp [hh] at hs
        | false =>
          simp only [hh] at hs; cases hs
          refine ⟨.inl hk, rfl, ?_⟩
          simp [erObj, erH_set, erT, erK_of_noWake hk]
      | cell _ => simp [hh] at hs
      | wg _ => simp [hh] at hs
      | cond _ _ => simp [hh] at hs
  | release =>
    simp only [primStep] at hs ⊢
    rw [erH_get]
    cases hh : h[a]? with
    | none => simp [hh] at hs
    | some o =>
      cases o with
      | mutex held =>
        cases held with
        | false => simp [hh] at hs
        | true =>
          simp only [hh] at hs; cases hs
          refine ⟨.inl hk, rfl, ?_⟩
          simp [erObj, erH_set, erT, erK_of_noWake hk]
      | cell _ => simp [hh] at hs
      | wg _ => simp [hh] at hs
      | cond _ _ => simp [hh] at hs
  | wgDone =>
    simp only [primStep] at hs ⊢
    rw [erH_get]
    cases hh : h[a]? with
    | none => simp [hh] at hs
    | some o =>
      cases o with
      | wg c =>
        cases c with
        | zero => simp [hh] at hs
        | succ c =>
          simp only [hh] at hs; cases hs
          refine ⟨.inl hk, rfl, ?_⟩
          simp [erObj, erH_set, erT, erK_of_noWake hk]
      | cell _ => simp [hh] at hs
      | mutex _ => simp [hh] at hs
      | cond _ _ => simp [hh] at hs
  | wgWait =>
    simp only [primStep] at hs ⊢
    rw [erH_get]
    cases hh : h[a]? with
    | none => simp [hh] at hs
    | some o =>
      cases o with
      | wg c =>
        cases c with
        | succ c => simp [hh] at hs
        | zero =>
          simp only [hh] at hs; cases hs
          refine ⟨.inl hk, rfl, ?_⟩
          simp [erObj, erT, erK_of_noWake hk]
      | cell _ => simp [hh] at hs
      | mutex _ => simp [hh] at hs
      | cond _ _ => simp [hh] at hs
  | condWait =>
    simp only [primStep] at hs ⊢
    rw [erH_get]
    cases hh : h[a]? with
    | none => simp [hh] at hs
    | some o =>
      cases o with
      | cond l ws =>
        simp only [hh] at hs
        simp only [Option.map, erObj, erH_get]
        cases hl : h[l]? with
        | none => simp [hl] at hs
        | some o2 =>
          cases o2 with
          | mutex held =>
            cases held with
            | false => simp [hl] at hs
            | true =>
              simp only [hl] at hs; cases hs
              refine ⟨.inr ⟨a, l, k, rfl, hk⟩, rfl, ?_⟩
              have hne : l ≠ a := by
                intro e; subst e; rw [hh] at hl; cases hl
              have hga : ((erH h).set l (.mutex false))[a]? = some (.cond l []) := by
                rw [List.getElem?_set_ne hne, erH_get, hh]; rfl
              have het : erT ⟨.ret .unit, .wakeK a :: .acquireK l :: k⟩ = ⟨.ret .unit, .acquireK l :: k⟩ := by
                have h1 : erK (.wakeK a :: .acquireK l :: k) = .acquireK l :: erK k := rfl
                simp only [erT, h1, erK_of_noWake hk]
              simp only [erObj, erH_set, set_same hga, het]
          | cell _ => simp [hl] at hs
          | wg _ => simp [hl] at hs
          | cond _ _ => simp [hl] at hs
      | cell _ => simp [hh] at hs
      | mutex _ => simp [hh] at hs
      | wg _ => simp [hh] at hs
  | condSignal =>
    simp only [primStep] at hs ⊢
    rw [erH_get]
    cases hh : h[a]? with
    | none => simp [hh] at hs
    | some o =>
      cases o with
      | cond l ws =>
        simp only [hh] at hs
        simp only [Option.map, erObj]
        have hga : (erH h)[a]? = some (.cond l []) := by rw [erH_get, hh]; rfl
        by_cases hw : ws.isEmpty = true
        · simp only [hw, if_true] at hs; cases hs
          exact ⟨.inl hk, rfl, by simp [erT, erK_of_noWake hk]⟩
        · simp only [hw] at hs
          by_cases hc : ch < ws.length
          · simp only [hc, if_true] at hs; cases hs
            refine ⟨.inl hk, rfl, ?_⟩
            simp [erH_set, erObj, set_same hga, erT, erK_of_noWake hk]
          · simp [hc] at hs
      | cell _ => simp [hh] at hs
      | mutex _ => simp [hh] at hs
      | wg _ => simp [hh] at hs
  | condBroadcast =>
    simp only [primStep] at hs ⊢
    rw [erH_get]
    cases hh : h[a]? with
    | none => simp [hh] at hs
    | some o =>
      cases o with
      | cond l ws =>
        simp only [hh] at hs; cases hs
        have hga : (erH h)[a]? = some (.cond l []) := by rw [erH_get, hh]; rfl
        refine ⟨.inl hk, rfl, ?_⟩
        simp [erH_set, erObj, set_same hga, erT, erK_of_noWake hk]
      | cell _ => simp [hh] at hs
      | mutex _ => simp [hh] at hs
      | wg _ => simp [hh] at hs

theorem per_estep {h h' : Heap} {i ch : Nat} {t t' : TThread} {sp : Option TThread} (hk : NoWake t.k)
    (hs : estep .strict h i ch t = .ok h' t' sp) :
    Shape t' ∧ (∀ s, sp = some s → NoWake s.k) ∧ estep .perennial (erH h) i ch t = .ok (erH h') (erT t') sp := by
  obtain ⟨ctl, k⟩ := t
  have hek : erK k = k := erK_of_noWake hk
  cases ctl with
  | eval e ρ =>
    cases e with
    | pure e =>
      simp only [estep, evalTE_erH] at hs ⊢
      cases hv : evalTE ρ h e with
      | none => simp [hv] at hs
      | some v =>
        simp only [hv] at hs; cases hs
        exact ⟨.inl hk, by simp, by simp [erT, hek]⟩
    | unit => simp [estep] at hs
    | skip => simp [estep] at hs
    | cont => simp [estep] at hs
    | letE x a b => simp [estep] at hs
    | seq a b => simp [estep] at hs
    | ite c a b =>
      simp only [estep, evalTE_erH] at hs ⊢
      cases hv : evalTE ρ h c with
      | none => simp [hv] at hs
      | some v =>
        cases v with
        | bool bv =>
          cases bv <;> (simp only [hv] at hs; cases hs; exact ⟨.inl hk, by simp, by simp [erT, hek]⟩)
        | num _ => simp [hv] at hs
        | unit => simp [hv] at hs
        | loc _ => simp [hv] at hs
    | forLoop c p b =>
      simp only [estep, evalTE_erH] at hs ⊢
      cases hv : evalTE ρ h c with
      | none => simp [hv] at hs
      | some v =>
        cases v with
        | bool bv =>
          cases bv with
          | false => simp only [hv] at hs; cases hs; exact ⟨.inl hk, by simp, by simp [erT, hek]⟩
          | true =>
            simp only [hv] at hs; cases hs
            have hk' : NoWake (.forBodyK c p b ρ :: k) := NoWake.cons rfl hk
            exact ⟨.inl hk', by simp, by simp [erT, erK_of_noWake hk']⟩
        | num _ => simp [hv] at hs
        | unit => simp [hv] at hs
        | loc _ => simp [hv] at hs
    | refTo e =>
      simp only [estep, evalTE_erH] at hs ⊢
      cases hv : evalTE ρ h e with
      | none => simp [hv] at hs
      | some v =>
        cases v with
        | num w => simp only [hv] at hs; cases hs; exact ⟨.inl hk, by simp, by simp [erT, hek, erH_append, erObj]⟩
        | bool _ => simp [hv] at hs
        | unit => simp [hv] at hs
        | loc _ => simp [hv] at hs
    | store x e =>
      simp only [estep, evalTE_erH] at hs ⊢
      cases hv : evalTE ρ h e with
      | none => simp [hv] at hs
      | some v =>
        cases v with
        | num w =>
          simp only [hv] at hs ⊢
          cases hl : look x ρ with
          | none => simp [hl] at hs
          | some xv =>
            cases xv with
            | loc a =>
              simp only [hl] at hs ⊢
              rw [erH_get]
              cases hh : h[a]? with
              | none => simp [hh] at hs
              | some o =>
                cases o with
                | cell _ =>
                  simp only [hh] at hs; cases hs
                  exact ⟨.inl hk, by simp, by simp [erT, hek, erH_set, erObj]⟩
                | mutex _ => simp [hh] at hs
                | wg _ => simp [hh] at hs
                | cond _ _ => simp [hh] at hs
            | num _ => simp [hl] at hs
            | bool _ => simp [hl] at hs
            | unit => simp [hl] at hs
        | bool _ => simp [hv] at hs
        | unit => simp [hv] at hs
        | loc _ => simp [hv] at hs
    | newLock => simp only [estep] at hs ⊢; cases hs; exact ⟨.inl hk, by simp, by simp [erT, hek, erH_append, erObj]⟩
    | newWg => simp only [estep] at hs ⊢; cases hs; exact ⟨.inl hk, by simp, by simp [erT, hek, erH_append, erObj]⟩
    | prim p x =>
      simp only [estep] at hs ⊢
      cases hl : look x ρ with
      | none => simp [hl] at hs
      | some xv =>
        cases xv with
        | loc a =>
          simp only [hl] at hs ⊢
          obtain ⟨h1, h2, h3⟩ := per_prim hk hs
          subst h2
          exact ⟨h1, by simp, h3⟩
        | num _ => simp [hl] at hs
        | bool _ => simp [hl] at hs
        | unit => simp [hl] at hs
    | wgAdd x n =>
      simp only [estep] at hs ⊢
      cases hl : look x ρ with
      | none => simp [hl] at hs
      | some xv =>
        cases xv with
        | loc a =>
          simp only [hl] at hs ⊢
          rw [erH_get]
          cases hh : h[a]? with
          | none => simp [hh] at hs
          | some o =>
            cases o with
            | wg c =>
              simp only [hh] at hs; cases hs
              exact ⟨.inl hk, by simp, by simp [erT, hek, erH_set, erObj]⟩
            | mutex _ => simp [hh] at hs
            | cell _ => simp [hh] at hs
            | cond _ _ => simp [hh] at hs
        | num _ => simp [hl] at hs
        | bool _ => simp [hl] at hs
        | unit => simp [hl] at hs
    | fork b =>
      simp only [estep] at hs ⊢; cases hs
      refine ⟨.inl hk, ?_, by simp [erT, hek]⟩
      intro s hs; cases hs; exact NoWake.nil
  | ret v =>
    cases k with
    | nil => simp [estep] at hs
    | cons f k =>
      have hk2 : NoWake k := NoWake.tail hk
      cases f with
      | letK x b ρ => simp [estep] at hs
      | seqK b ρ => simp [estep] at hs
      | forBodyK c p b ρ => simp [estep] at hs
      | forPostK c p b ρ => simp [estep] at hs
      | wakeK c => have := hk (.wakeK c) (List.mem_cons_self ..); simp [isWake] at this
      | acquireK l =>
        simp only [estep] at hs ⊢
        rw [erH_get]
        cases hh : h[l]? with
        | none => simp [hh] at hs
        | some o =>
          cases o with
          | mutex held =>
            cases held with
            | true => simp [hh] at hs
            | false =>
              simp only [hh] at hs; cases hs
              exact ⟨.inl hk2, by simp, by simp [erT, erK_of_noWake hk2, erH_set, erObj]⟩
          | cell _ => simp [hh] at hs
          | wg _ => simp [hh] at hs
          | cond _ _ => simp [hh] at hs

/-- **One strict step of a well-shaped thread** is the same Perennial step on the erased state, or (waking up)
no step at all. -/
theorem per_step {h h' : Heap} {i ch : Nat} {t t' : TThread} {sp : Option TThread} (hsh : Shape t)
    (hs : tstep .strict h i ch t = .ok h' t' sp) : Mirrors h i ch t h' t' sp := by
  rcases hsh with hk | ⟨c, l, K', rfl, hK'⟩
  · unfold tstep at hs
    cases ha : astep t with
    | some t1 =>
      simp only [ha] at hs; cases hs
      have hk1 := astep_noWake ha hk
      refine ⟨.inl hk1, by simp, .inl ?_⟩
      simp [tstep, erT_of_noWake hk, erT_of_noWake hk1, ha]
    | none =>
      simp only [ha] at hs
      obtain ⟨h1, h2, h3⟩ := per_estep hk hs
      refine ⟨h1, h2, .inl ?_⟩
      simp only [tstep, erT_of_noWake hk, ha, h3]
  · simp only [tstep, astep, estep] at hs
    cases hh : h[c]? with
    | none => simp [hh] at hs
    | some o =>
      cases o with
      | cond l' ws =>
        simp only [hh] at hs
        split at hs
        · cases hs
        · cases hs
          exact ⟨.inl (NoWake.cons rfl hK'), by simp, .inr ⟨rfl, rfl, rfl⟩⟩
      | cell _ => simp [hh] at hs
      | mutex _ => simp [hh] at hs
      | wg _ => simp [hh] at hs

/-! ### pools and schedules -/

def WF (d : TCfg) : Prop := ∀ t ∈ d.threads, Shape t

def erC (d : TCfg) : TCfg := { heap := erH d.heap, threads := d.threads.map erT }

theorem erT_doneV {t : TThread} (h : Shape t) : (erT t).doneV = t.doneV := by
  rcases h with hk | ⟨c, l, K', rfl, _⟩
  · rw [erT_of_noWake hk]
  · rfl

theorem erC_mainDone {d : TCfg} (h : WF d) : mainDone TThread.doneV (erC d) = mainDone TThread.doneV d := by
  simp only [mainDone, erC, List.getElem?_map]
  cases ht : d.threads[0]? with
  | none => rfl
  | some t =>
    simp only [Option.map]
    exact erT_doneV (h t (List.mem_of_getElem? ht))

theorem wf_init (t : T) : WF (tinit t) := by
  intro s hs
  simp [tinit] at hs
  subst hs
  exact .inl NoWake.nil

theorem per_pool_step {d d' : TCfg} {lab : Label} (hwf : WF d) (hs : tcstep .strict d lab = .ok d') :
    WF d' ∧ (tcstep .perennial (erC d) lab = .ok (erC d') ∨ erC d' = erC d) := by
  obtain ⟨hm, t, hp, t', sp, hti, hstep, rfl⟩ := poolStep_ok_inv hs
  obtain ⟨hsh', hsp, hmir⟩ := per_step (hwf t (List.mem_of_getElem? hti)) hstep
  have hwf' : WF (d.after lab.1 hp t' sp) := by
    intro s hs
    simp only [Cfg.after, List.mem_append] at hs
    rcases hs with hs | hs
    · rcases List.mem_or_eq_of_mem_set hs with h1 | h1
      · exact hwf s h1
      · exact h1 ▸ hsh'
    · cases sp with
      | none => simp at hs
      | some nt => simp at hs; subst hs; exact .inl (hsp _ rfl)
  refine ⟨hwf', ?_⟩
  have hsp' : sp.toList.map erT = sp.toList := by
    cases sp with
    | none => rfl
    | some nt => simp [erT_of_noWake (hsp _ rfl)]
  have hti' : (erC d).threads[lab.1]? = some (erT t) := by simp [erC, List.getElem?_map, hti]
  rcases hmir with hper | ⟨h1, h2, h3⟩
  · left
    unfold tcstep
    rw [poolStep_eq (by rw [erC_mainDone hwf]; exact hm) hti']
    simp only [erC] at hper ⊢
    rw [hper]
    simp [Cfg.after, List.map_set, hsp']
  · right
    subst h3
    simp only [erC, Cfg.after, Option.toList, List.append_nil, List.map_set, h1, h2]
    have : (d.threads.map erT)[lab.1]? = some (erT t) := by simp [List.getElem?_map, hti]
    rw [set_same this]

/-- Every strict schedule is, after dropping the wake-up steps, a Perennial schedule between the erased
configurations. -/
theorem per_run {d : TCfg} (hwf : WF d) : ∀ (sched : List Label) {d' : TCfg}, trun .strict d sched = some d' →
    ∃ sched', sched'.Sublist sched ∧ trun .perennial (erC d) sched' = some (erC d') ∧ WF d' := by
  intro sched
  induction sched generalizing d with
  | nil => intro d' hr; simp [trun, poolRun] at hr; subst hr; exact ⟨[], .slnil, rfl, hwf⟩
  | cons lab rest ih =>
    intro d' hr
    simp only [trun, poolRun] at hr
    cases hs : poolStep (tstep .strict) TThread.doneV d lab with
    | blocked => simp [hs] at hr
    | stuck => simp [hs] at hr
    | ok d1 =>
      simp only [hs] at hr
      obtain ⟨hwf1, hstep⟩ := per_pool_step hwf hs
      obtain ⟨sched', hsub, hrun, hwf'⟩ := ih hwf1 hr
      rcases hstep with hstep | heq
      · refine ⟨lab :: sched', .cons_cons _ hsub, ?_, hwf'⟩
        simp only [trun, poolRun]
        unfold tcstep at hstep
        rw [hstep]
        exact hrun
      · exact ⟨sched', .cons _ hsub, heq ▸ hrun, hwf'⟩

end GooseVerif.Model.Conc
