/-
Helper lemmas for the heap theorem, part 2: EXPRESSIONS.  `SoundE e`: in related states, if the translator
accepts `e` (with type `τ`) and Go evaluates `e` to `v` in heap `G'`, the translation evaluates — it is not
stuck — to a related value; the relation `R` and the target heap only GROW (`Ext`), the value has type `τ`,
and the final heaps are related.
-/
import GooseVerif.Lemmas.Heap

namespace GooseVerif.Model.Heap

def SoundE (e : Exp) : Prop :=
  ∀ (R : List Nat) (G : GHeap) (H : THeap) (stk : Stack) (Γ : SEnv) (envs : List Env) (t : T) (τ : Ty)
    (v : Val) (G' : GHeap),
    trE Γ e = .ok (t, τ) → Rel R H stk Γ envs → HRel R G H → evalE stk G e = .ok (v, G') →
    ∃ R' H' tv, evalT envs.flatten H t = some (tv, H') ∧ Ext R H R' H' ∧ VRel R' v tv ∧ v.ty = τ ∧ HRel R' G' H'

theorem sound_lit (n : Nat) : SoundE (.lit n) := by
  intro R G H stk Γ envs t τ v G' htr hrel hh hgo
  simp [trE] at htr
  simp [evalE] at hgo
  obtain ⟨rfl, rfl⟩ := htr
  obtain ⟨rfl, rfl⟩ := hgo
  exact ⟨R, H, _, by simp [evalT], Ext.refl R H, rfl, rfl, hh⟩

theorem sound_var (x : String) : SoundE (.var x) := by
  intro R G H stk Γ envs t τ v G' htr hrel hh hgo
  have hl := hrel.lookup x
  simp only [evalE] at hgo
  obtain ⟨v0, h0, hgo⟩ := Res.bind_ok hgo
  have h0 := ofOpt_ok h0
  simp at hgo
  obtain ⟨rfl, rfl⟩ := hgo
  simp only [trE] at htr
  match hw : lookStk x Γ with
  | none => simp [hw] at htr
  | some (false, σ) =>
    simp [hw] at htr
    obtain ⟨rfl, rfl⟩ := htr
    rw [hw] at hl
    obtain ⟨v, tv, h1, h2, h3, h4⟩ := hl
    rw [h1] at h0
    cases h0
    exact ⟨R, H, tv, by simp [evalT, h2], Ext.refl R H, h3, h4, hh⟩
  | some (true, σ) =>
    simp [hw] at htr
    obtain ⟨rfl, rfl⟩ := htr
    rw [hw] at hl
    obtain ⟨v, tv, b, h1, h2, h3, h4, h5, h6⟩ := hl
    rw [h1] at h0
    cases h0
    refine ⟨R, H, tv, ?_, Ext.refl R H, h3, h4, hh⟩
    have hlen := flatten_length_of_VRel h3
    have hload := loadAt_whole h5
    rw [hlen, h4] at hload
    have hun := unflatten_of_VRel h3
    rw [h4] at hun
    simp [evalT, h2, asLoc, hload, hun]

theorem sound_add (a b : Exp) (iha : SoundE a) (ihb : SoundE b) : SoundE (.add a b) := by
  intro R G H stk Γ envs t τ v G' htr hrel hh hgo
  simp only [trE] at htr
  obtain ⟨⟨ta, τa⟩, hta, htr⟩ := Except.bind'_ok htr
  obtain ⟨_, hτa, htr⟩ := Except.bind'_ok htr
  obtain ⟨⟨tb, τb⟩, htb, htr⟩ := Except.bind'_ok htr
  obtain ⟨_, hτb, htr⟩ := Except.bind'_ok htr
  have hτa := expectTy_ok hτa
  have hτb := expectTy_ok hτb
  simp at hτa hτb htr
  subst hτa hτb
  obtain ⟨rfl, rfl⟩ := htr
  simp only [evalE] at hgo
  obtain ⟨⟨vb, G1⟩, h1, hgo⟩ := Res.bind_ok hgo
  obtain ⟨n, hn, hgo⟩ := Res.bind_ok hgo
  obtain ⟨⟨va, G2⟩, h2, hgo⟩ := Res.bind_ok hgo
  obtain ⟨m, hm, hgo⟩ := Res.bind_ok hgo
  have hn := asNum_ok hn
  have hm := asNum_ok hm
  simp at hn hm hgo h2
  subst hn hm
  obtain ⟨rfl, rfl⟩ := hgo
  obtain ⟨R1, H1, tvb, e1, x1, r1, _, hh1⟩ := ihb R G H stk Γ envs tb .u64 _ G1 htb hrel hh h1
  obtain ⟨R2, H2, tva, e2, x2, r2, _, hh2⟩ := iha R1 G1 H1 stk Γ envs ta .u64 _ G2 hta (hrel.ext x1) hh1 h2
  simp [VRel] at r1 r2
  subst r1 r2
  exact ⟨R2, H2, _, by simp [evalT, e1, e2, asNumT], x1.trans x2, rfl, rfl, hh2⟩

/-! ### reading and writing one cell -/

theorem loadAt_one {H : THeap} {b i : Nat} {blk : List BVal} {c : BVal} (h : H[b]? = some blk)
    (hc : blk[i]? = some c) : loadAt H b i 1 = some [c] := by
  have hi := lt_of_getElem? hc
  have hd := List.drop_eq_getElem_cons hi
  have hg : blk[i] = c := by
    rw [List.getElem?_eq_getElem hi] at hc
    simpa using hc
  have hle : i + 1 ≤ blk.length := hi
  simp [loadAt, h, hle, hd, hg]

theorem storeAt_one {H : THeap} {b i : Nat} {blk : List BVal} (c : BVal) (h : H[b]? = some blk)
    (hi : i < blk.length) : storeAt H b i [c] = some (H.set b (blk.set i c)) := by
  have hle : i + 1 ≤ blk.length := hi
  simp [storeAt, h, hle, List.set_eq_take_append_cons_drop, hi]

/-! ### decomposition helpers -/

theorem tr_expect {Γ : SEnv} {e : Exp} {w : String} {want : Ty} {α : Type} {f : T × Ty → Except String α} {y : α}
    (h : Except.bind' (trE Γ e) (fun r => Except.bind' (expectTy w want r.2) fun _ => f r) = .ok y) :
    ∃ t, trE Γ e = .ok (t, want) ∧ f (t, want) = .ok y := by
  obtain ⟨⟨t, τ⟩, h1, h⟩ := Except.bind'_ok h
  obtain ⟨_, h2, h⟩ := Except.bind'_ok h
  have := expectTy_ok h2
  simp at this
  subst this
  exact ⟨t, h1, h⟩

theorem go_num {α : Type} {r : Res (Val × GHeap)} {f : Val × GHeap → Nat → Res α} {y : α}
    (h : r.bind (fun r => (asNum r.1).bind fun n => f r n) = .ok y) :
    ∃ n G1, r = .ok (.num n, G1) ∧ f (.num n, G1) n = .ok y := by
  obtain ⟨⟨v, G1⟩, h1, h⟩ := Res.bind_ok h
  obtain ⟨n, h2, h⟩ := Res.bind_ok h
  have := asNum_ok h2
  simp at this
  subst this
  exact ⟨n, G1, h1, h⟩

theorem go_sl {α : Type} {r : Res (Val × GHeap)} {f : Val × GHeap → Nat × Nat × Nat × Nat → Res α} {y : α}
    (h : r.bind (fun r => (asSl r.1).bind fun s => f r s) = .ok y) :
    ∃ o off l c G1, r = .ok (.sl o off l c, G1) ∧ f (.sl o off l c, G1) (o, off, l, c) = .ok y := by
  obtain ⟨⟨v, G1⟩, h1, h⟩ := Res.bind_ok h
  obtain ⟨⟨o, off, l, c⟩, h2, h⟩ := Res.bind_ok h
  have := asSl_ok h2
  simp at this
  subst this
  exact ⟨o, off, l, c, G1, h1, h⟩

theorem go_ptrS {α : Type} {r : Res (Val × GHeap)} {f : Val × GHeap → Option Nat → Res α} {y : α}
    (h : r.bind (fun r => (asPtrS r.1).bind fun n => f r n) = .ok y) :
    ∃ n G1, r = .ok (.ptrS n, G1) ∧ f (.ptrS n, G1) n = .ok y := by
  obtain ⟨⟨v, G1⟩, h1, h⟩ := Res.bind_ok h
  obtain ⟨n, h2, h⟩ := Res.bind_ok h
  have := asPtrS_ok h2
  simp at this
  subst this
  exact ⟨n, G1, h1, h⟩

theorem VRel.num_inv {R : List Nat} {n : Nat} {tv : TVal} (h : VRel R (.num n) tv) : tv = .base (.num n) := h

/-- a related slice that can be indexed points into the block of its array -/
theorem VRel.sl_inv {R : List Nat} {o off l c : Nat} {tv : TVal} (h : VRel R (.sl o off l c) tv) :
    ∃ p, tv = .sl p l c ∧ l ≤ c ∧ (0 < c → ∃ b, R[o]? = some b ∧ p = .loc b off) := by
  obtain ⟨p, hp, hle, hc⟩ := h
  refine ⟨p, hp, hle, ?_⟩
  intro hpos
  rcases hc with hc | hc
  · omega
  · exact hc

/-! ### literals `&T{…}` and `T{…}` -/

/-- an optional field of a literal -/
theorem sound_opt (g : Bool) (e : Exp) (ih : SoundE e) (d : Val) (dt : TVal) (σ : Ty)
    (hd : ∀ R, VRel R d dt) (hσ : d.ty = σ)
    (R : List Nat) (G : GHeap) (H : THeap) (stk : Stack) (Γ : SEnv) (envs : List Env) (t : T) (τ : Ty)
    (v : Val) (G' : GHeap)
    (htr : (if g then trE Γ e else .ok (T.unit, σ)) = .ok (t, τ)) (hrel : Rel R H stk Γ envs) (hh : HRel R G H)
    (hgo : (if g then evalE stk G e else .ok (d, G)) = .ok (v, G')) :
    ∃ R' H' tv, (if g then evalT envs.flatten H t else some (dt, H)) = some (tv, H') ∧ Ext R H R' H' ∧
      VRel R' v tv ∧ v.ty = τ ∧ HRel R' G' H' := by
  cases g with
  | true => simpa using ih R G H stk Γ envs t τ v G' (by simpa using htr) hrel hh (by simpa using hgo)
  | false =>
    simp at htr hgo
    obtain ⟨_, rfl⟩ := htr
    obtain ⟨rfl, rfl⟩ := hgo
    exact ⟨R, H, dt, by simp, Ext.refl R H, hd R, hσ, hh⟩

theorem sound_mk (alloc ga gb gn : Bool) (ea eb en : Exp) (iha : SoundE ea) (ihb : SoundE eb) (ihn : SoundE en) :
    SoundE (.mk alloc ga gb gn ea eb en) := by
  intro R G H stk Γ envs t τ v G' htr hrel hh hgo
  simp only [trE] at htr
  obtain ⟨⟨ta, τa⟩, hta, htr⟩ := Except.bind'_ok htr
  obtain ⟨_, hτa, htr⟩ := Except.bind'_ok htr
  obtain ⟨⟨tb, τb⟩, htb, htr⟩ := Except.bind'_ok htr
  obtain ⟨_, hτb, htr⟩ := Except.bind'_ok htr
  obtain ⟨⟨tn, τn⟩, htn, htr⟩ := Except.bind'_ok htr
  obtain ⟨_, hτn, htr⟩ := Except.bind'_ok htr
  have hτa := expectTy_ok hτa
  have hτb := expectTy_ok hτb
  have hτn := expectTy_ok hτn
  simp at hτa hτb hτn htr
  subst hτa hτb hτn
  obtain ⟨rfl, rfl⟩ := htr
  simp only [evalE] at hgo
  obtain ⟨n, G1, h1, hgo⟩ := go_ptrS hgo
  obtain ⟨b, G2, h2, hgo⟩ := go_num hgo
  obtain ⟨a, G3, h3, hgo⟩ := go_num hgo
  simp only [] at h2 h3 hgo
  obtain ⟨R1, H1, tvn, e1, x1, r1, _, hh1⟩ :=
    sound_opt gn en ihn (.ptrS none) (.base .null) .ptrT (fun _ => ⟨.null, rfl, rfl⟩) rfl
      R G H stk Γ envs tn .ptrT _ G1 htn hrel hh h1
  obtain ⟨R2, H2, tvb, e2, x2, r2, _, hh2⟩ :=
    sound_opt gb eb ihb (.num 0) (.base (.num 0)) .u64 (fun _ => rfl) rfl
      R1 G1 H1 stk Γ envs tb .u64 _ G2 htb (hrel.ext x1) hh1 h2
  obtain ⟨R3, H3, tva, e3, x3, r3, _, hh3⟩ :=
    sound_opt ga ea iha (.num 0) (.base (.num 0)) .u64 (fun _ => rfl) rfl
      R2 G2 H2 stk Γ envs ta .u64 _ G3 hta ((hrel.ext x1).ext x2) hh2 h3
  have r2 := r2.num_inv
  have r3 := r3.num_inv
  subst r2 r3
  obtain ⟨w, rfl, hw⟩ := r1
  have hw3 : PRel R3 n w := hw.mono (x2.trans x3).pre
  cases alloc with
  | false =>
    simp at hgo
    obtain ⟨rfl, rfl⟩ := hgo
    refine ⟨R3, H3, .str (.num a) (.num b) w, ?_, (x1.trans x2).trans x3, ⟨w, rfl, hw3⟩, rfl, hh3⟩
    simp [evalT, e1, e2, e3, asBase]
  | true =>
    simp at hgo
    obtain ⟨rfl, rfl⟩ := hgo
    have hpre : Pre R3 (R3 ++ [H3.length]) := ⟨_, rfl⟩
    refine ⟨R3 ++ [H3.length], H3 ++ [[.num a, .num b, w]], .base (.loc H3.length 0), ?_,
      ((x1.trans x2).trans x3).trans (Ext.alloc R3 H3 _), ?_, rfl,
      hh3.alloc (.str a b n) _ ⟨w, rfl, hw3.mono hpre⟩⟩
    · simp [evalT, e1, e2, e3, asBase]
    · refine ⟨_, rfl, H3.length, ?_, rfl⟩
      rw [← hh3.len]
      simp

/-! ### selectors and dereferences -/

/-- what a related non-nil `*T` points to -/
theorem deref_ptrS {R : List Nat} {G : GHeap} {H : THeap} (hh : HRel R G H) {o : Nat} {tv : TVal}
    {s : Nat × Nat × Option Nat} (hv : VRel R (.ptrS (some o)) tv) (hs : getStr G o = .ok s) :
    ∃ b w, tv = .base (.loc b 0) ∧ R[o]? = some b ∧ H[b]? = some [.num s.1, .num s.2.1, w] ∧ PRel R s.2.2 w := by
  obtain ⟨w0, rfl, b, hb, rfl⟩ := hv
  obtain ⟨b', blk, h1, h2, w, rfl, hw⟩ := hh.obj o _ (getStr_ok hs)
  rw [hb] at h1
  cases h1
  exact ⟨b, w, rfl, hb, h2, hw⟩

theorem sound_sel (e : Exp) (f : Fld) (ih : SoundE e) : SoundE (.sel e f) := by
  intro R G H stk Γ envs t τ v G' htr hrel hh hgo
  simp only [trE] at htr
  obtain ⟨⟨te, τe⟩, hte, htr⟩ := Except.bind'_ok htr
  simp only [evalE] at hgo
  obtain ⟨⟨ve, G1⟩, h1, hgo⟩ := Res.bind_ok hgo
  obtain ⟨R1, H1, tve, e1, x1, r1, hty, hh1⟩ := ih R G H stk Γ envs te τe ve G1 hte hrel hh h1
  cases τe with
  | ptrT =>
    simp at htr
    obtain ⟨rfl, rfl⟩ := htr
    cases ve <;> simp [Val.ty] at hty
    next o =>
    cases o with
    | none => simp at hgo
    | some o =>
      simp only [] at hgo
      obtain ⟨s, hs, hgo⟩ := Res.bind_ok hgo
      simp at hgo
      obtain ⟨rfl, rfl⟩ := hgo
      obtain ⟨b, w, rfl, hb, hblk, hw⟩ := deref_ptrS hh1 r1 hs
      cases f with
      | a =>
        refine ⟨R1, H1, .base (.num s.1), ?_, x1, rfl, rfl, hh1⟩
        have := loadAt_one (i := 0) hblk rfl
        simp [evalT, e1, asLoc, Fld.off, this, unflatten, Fld.ty]
      | b =>
        refine ⟨R1, H1, .base (.num s.2.1), ?_, x1, rfl, rfl, hh1⟩
        have := loadAt_one (i := 1) hblk rfl
        simp [evalT, e1, asLoc, Fld.off, this, unflatten, Fld.ty]
      | n =>
        refine ⟨R1, H1, .base w, ?_, x1, ⟨w, rfl, hw⟩, rfl, hh1⟩
        have := loadAt_one (i := 2) hblk rfl
        simp [evalT, e1, asLoc, Fld.off, this, unflatten, Fld.ty]
  | str =>
    simp at htr
    obtain ⟨rfl, rfl⟩ := htr
    cases ve <;> simp [Val.ty] at hty
    next a b n =>
    simp at hgo
    obtain ⟨rfl, rfl⟩ := hgo
    obtain ⟨w, rfl, hw⟩ := r1
    cases f with
    | a => exact ⟨R1, H1, .base (.num a), by simp [evalT, e1, asStrT, fieldT], x1, rfl, rfl, hh1⟩
    | b => exact ⟨R1, H1, .base (.num b), by simp [evalT, e1, asStrT, fieldT], x1, rfl, rfl, hh1⟩
    | n => exact ⟨R1, H1, .base w, by simp [evalT, e1, asStrT, fieldT], x1, ⟨w, rfl, hw⟩, rfl, hh1⟩
  | u64 => simp at htr
  | ptrN => simp at htr
  | sl => simp at htr

theorem sound_deref (e : Exp) (ih : SoundE e) : SoundE (.deref e) := by
  intro R G H stk Γ envs t τ v G' htr hrel hh hgo
  simp only [trE] at htr
  obtain ⟨⟨te, τe⟩, hte, htr⟩ := Except.bind'_ok htr
  simp only [evalE] at hgo
  obtain ⟨⟨ve, G1⟩, h1, hgo⟩ := Res.bind_ok hgo
  obtain ⟨R1, H1, tve, e1, x1, r1, hty, hh1⟩ := ih R G H stk Γ envs te τe ve G1 hte hrel hh h1
  cases τe with
  | ptrT =>
    simp at htr
    obtain ⟨rfl, rfl⟩ := htr
    cases ve <;> simp [Val.ty] at hty
    next o =>
    cases o with
    | none => simp at hgo
    | some o =>
      simp only [] at hgo
      obtain ⟨s, hs, hgo⟩ := Res.bind_ok hgo
      simp at hgo
      obtain ⟨rfl, rfl⟩ := hgo
      obtain ⟨b, w, rfl, hb, hblk, hw⟩ := deref_ptrS hh1 r1 hs
      refine ⟨R1, H1, .str (.num s.1) (.num s.2.1) w, ?_, x1, ⟨w, rfl, hw⟩, rfl, hh1⟩
      have := loadAt_whole hblk
      simp at this
      simp [evalT, e1, asLoc, this, unflatten]
  | ptrN =>
    simp at htr
    obtain ⟨rfl, rfl⟩ := htr
    cases ve <;> simp [Val.ty] at hty
    next o =>
    simp only [] at hgo
    obtain ⟨c, hc, hgo⟩ := Res.bind_ok hgo
    simp at hgo
    obtain ⟨rfl, rfl⟩ := hgo
    obtain ⟨b, hb, rfl⟩ := r1
    obtain ⟨b', blk, h2, h3, h4⟩ := hh1.obj o _ (getCell_ok hc)
    rw [hb] at h2
    cases h2
    simp [ObjRel] at h4
    subst h4
    refine ⟨R1, H1, .base (.num c), ?_, x1, rfl, rfl, hh1⟩
    have := loadAt_whole h3
    simp at this
    simp [evalT, e1, asLoc, Ty.size, this, unflatten]
  | u64 => simp at htr
  | str => simp at htr
  | sl => simp at htr

theorem sound_newN : SoundE .newN := by
  intro R G H stk Γ envs t τ v G' htr hrel hh hgo
  simp [trE] at htr
  simp [evalE] at hgo
  obtain ⟨rfl, rfl⟩ := htr
  obtain ⟨rfl, rfl⟩ := hgo
  refine ⟨R ++ [H.length], H ++ [[.num 0]], .base (.loc H.length 0), by simp [evalT], Ext.alloc R H _, ?_, rfl,
    hh.alloc (.cell 0) [.num 0] (by simp [ObjRel])⟩
  refine ⟨H.length, ?_, rfl⟩
  rw [← hh.len]
  simp

/-! ### slices -/

theorem sound_make (n : Exp) (ih : SoundE n) : SoundE (.make n) := by
  intro R G H stk Γ envs t τ v G' htr hrel hh hgo
  simp only [trE] at htr
  obtain ⟨tn, htn, htr⟩ := tr_expect htr
  simp at htr
  obtain ⟨rfl, rfl⟩ := htr
  simp only [evalE] at hgo
  obtain ⟨k, G1, h1, hgo⟩ := go_num hgo
  obtain ⟨R1, H1, tvn, e1, x1, r1, _, hh1⟩ := ih R G H stk Γ envs tn .u64 _ G1 htn hrel hh h1
  have r1 := r1.num_inv
  subst r1
  by_cases hk : k = 0
  · simp [hk] at hgo
    obtain ⟨rfl, rfl⟩ := hgo
    refine ⟨R1, H1, .sl .null 0 0, by simp [evalT, e1, asNumT, hk], x1, ⟨.null, rfl, Nat.le_refl _, .inl rfl⟩, rfl, hh1⟩
  · simp [hk] at hgo
    obtain ⟨rfl, rfl⟩ := hgo
    refine ⟨R1 ++ [H1.length], H1 ++ [List.replicate k (.num 0)], .sl (.loc H1.length 0) k k,
      by simp [evalT, e1, asNumT, hk], x1.trans (Ext.alloc R1 H1 _), ?_, rfl,
      hh1.alloc (.arr (List.replicate k 0)) _ (by simp [ObjRel])⟩
    refine ⟨_, rfl, Nat.le_refl _, .inr ⟨H1.length, ?_, rfl⟩⟩
    rw [← hh1.len]
    simp

/-- the block behind a related slice of positive capacity -/
theorem slice_block {R : List Nat} {G : GHeap} {H : THeap} (hh : HRel R G H) {o off l c : Nat} {tv : TVal}
    {vs : List Nat} (hv : VRel R (.sl o off l c) tv) (hpos : 0 < c) (ha : getArr G o = .ok vs) :
    ∃ b, tv = .sl (.loc b off) l c ∧ R[o]? = some b ∧ H[b]? = some (vs.map BVal.num) := by
  obtain ⟨p, rfl, _, hp⟩ := hv.sl_inv
  obtain ⟨b, hb, rfl⟩ := hp hpos
  obtain ⟨b', blk, h1, h2, h3⟩ := hh.obj o _ (getArr_ok ha)
  rw [hb] at h1
  cases h1
  simp [ObjRel] at h3
  subst h3
  exact ⟨b, rfl, hb, h2⟩

theorem sound_idx (s i : Exp) (ihs : SoundE s) (ihi : SoundE i) : SoundE (.idx s i) := by
  intro R G H stk Γ envs t τ v G' htr hrel hh hgo
  simp only [trE] at htr
  obtain ⟨ts, hts, htr⟩ := tr_expect htr
  obtain ⟨ti, hti, htr⟩ := tr_expect htr
  simp at htr
  obtain ⟨rfl, rfl⟩ := htr
  simp only [evalE] at hgo
  obtain ⟨k, G1, h1, hgo⟩ := go_num hgo
  obtain ⟨o, off, l, c, G2, h2, hgo⟩ := go_sl hgo
  simp only [] at h2 hgo
  obtain ⟨R1, H1, tvi, e1, x1, r1, _, hh1⟩ := ihi R G H stk Γ envs ti .u64 _ G1 hti hrel hh h1
  obtain ⟨R2, H2, tvs, e2, x2, r2, _, hh2⟩ := ihs R1 G1 H1 stk Γ envs ts .sl _ G2 hts (hrel.ext x1) hh1 h2
  have r1 := r1.num_inv
  subst r1
  by_cases hk : k < l
  · simp only [hk, if_true] at hgo
    obtain ⟨vs, hvs, hgo⟩ := Res.bind_ok hgo
    obtain ⟨x, hx, hgo⟩ := Res.bind_ok hgo
    have hx := ofOpt_ok hx
    simp at hgo
    obtain ⟨rfl, rfl⟩ := hgo
    have hle : l ≤ c := by obtain ⟨_, _, hle, _⟩ := r2; exact hle
    obtain ⟨b, rfl, hb, hblk⟩ := slice_block hh2 r2 (by omega) hvs
    have hcell : (vs.map BVal.num)[off + k]? = some (.num x) := by simp [hx]
    have := loadAt_one hblk hcell
    exact ⟨R2, H2, .base (.num x), by simp [evalT, e1, e2, asNumT, asSlT, hk, BVal.addOff, asLoc, this, unflatten],
      x1.trans x2, rfl, rfl, hh2⟩
  · simp [hk] at hgo

theorem sound_len (s : Exp) (ihs : SoundE s) : SoundE (.len s) := by
  intro R G H stk Γ envs t τ v G' htr hrel hh hgo
  simp only [trE] at htr
  obtain ⟨ts, hts, htr⟩ := tr_expect htr
  simp at htr
  obtain ⟨rfl, rfl⟩ := htr
  simp only [evalE] at hgo
  obtain ⟨o, off, l, c, G1, h1, hgo⟩ := go_sl hgo
  simp at hgo
  obtain ⟨rfl, rfl⟩ := hgo
  obtain ⟨R1, H1, tvs, e1, x1, r1, _, hh1⟩ := ihs R G H stk Γ envs ts .sl _ G1 hts hrel hh h1
  obtain ⟨p, rfl, _, _⟩ := r1
  exact ⟨R1, H1, .base (.num l), by simp [evalT, e1, asSlT], x1, rfl, rfl, hh1⟩

/-- moving the start of a related slice -/
theorem VRel.sl_shift {R : List Nat} {o off l c : Nat} {p : BVal} (h : VRel R (.sl o off l c) (.sl p l c))
    (lo l' : Nat) (hlo : lo ≤ c) (hl' : l' ≤ c - lo) :
    VRel R (.sl o (off + lo) l' (c - lo)) (.sl (p.addOff lo) l' (c - lo)) := by
  obtain ⟨p', hp', _, hc⟩ := h
  simp at hp'
  subst hp'
  refine ⟨_, rfl, hl', ?_⟩
  rcases hc with hc | ⟨b, hb, rfl⟩
  · left; omega
  · right; exact ⟨b, hb, rfl⟩

theorem sound_sub (s a b : Exp) (ihs : SoundE s) (iha : SoundE a) (ihb : SoundE b) : SoundE (.sub s a b) := by
  intro R G H stk Γ envs t τ v G' htr hrel hh hgo
  simp only [trE] at htr
  obtain ⟨ts, hts, htr⟩ := tr_expect htr
  obtain ⟨ta, hta, htr⟩ := tr_expect htr
  obtain ⟨tb, htb, htr⟩ := tr_expect htr
  simp at htr
  obtain ⟨rfl, rfl⟩ := htr
  simp only [evalE] at hgo
  obtain ⟨hi, G1, h1, hgo⟩ := go_num hgo
  obtain ⟨lo, G2, h2, hgo⟩ := go_num hgo
  obtain ⟨o, off, l, c, G3, h3, hgo⟩ := go_sl hgo
  simp only [] at h2 h3 hgo
  obtain ⟨R1, H1, tv1, e1, x1, r1, _, hh1⟩ := ihb R G H stk Γ envs tb .u64 _ G1 htb hrel hh h1
  obtain ⟨R2, H2, tv2, e2, x2, r2, _, hh2⟩ := iha R1 G1 H1 stk Γ envs ta .u64 _ G2 hta (hrel.ext x1) hh1 h2
  obtain ⟨R3, H3, tv3, e3, x3, r3, _, hh3⟩ :=
    ihs R2 G2 H2 stk Γ envs ts .sl _ G3 hts ((hrel.ext x1).ext x2) hh2 h3
  have r1 := r1.num_inv
  have r2 := r2.num_inv
  subst r1 r2
  by_cases hc : lo ≤ hi ∧ hi ≤ c
  · simp only [hc, and_self, if_true] at hgo
    simp at hgo
    obtain ⟨rfl, rfl⟩ := hgo
    obtain ⟨p, rfl, hle, hp⟩ := id r3
    have := r3.sl_shift lo (hi - lo) (by omega) (by omega)
    exact ⟨R3, H3, _, by simp [evalT, e1, e2, e3, asNumT, asSlT, hc], (x1.trans x2).trans x3, this, rfl, hh3⟩
  · simp only [hc, if_false] at hgo
    cases hgo

theorem sound_take (s b : Exp) (ihs : SoundE s) (ihb : SoundE b) : SoundE (.take s b) := by
  intro R G H stk Γ envs t τ v G' htr hrel hh hgo
  simp only [trE] at htr
  obtain ⟨ts, hts, htr⟩ := tr_expect htr
  obtain ⟨tb, htb, htr⟩ := tr_expect htr
  simp at htr
  obtain ⟨rfl, rfl⟩ := htr
  simp only [evalE] at hgo
  obtain ⟨hi, G1, h1, hgo⟩ := go_num hgo
  obtain ⟨o, off, l, c, G3, h3, hgo⟩ := go_sl hgo
  simp only [] at h3 hgo
  obtain ⟨R1, H1, tv1, e1, x1, r1, _, hh1⟩ := ihb R G H stk Γ envs tb .u64 _ G1 htb hrel hh h1
  obtain ⟨R3, H3, tv3, e3, x3, r3, _, hh3⟩ := ihs R1 G1 H1 stk Γ envs ts .sl _ G3 hts (hrel.ext x1) hh1 h3
  have r1 := r1.num_inv
  subst r1
  by_cases hc : hi ≤ c
  · simp only [hc, if_true] at hgo
    simp at hgo
    obtain ⟨rfl, rfl⟩ := hgo
    obtain ⟨p, rfl, hle, hp⟩ := r3
    exact ⟨R3, H3, .sl p hi c, by simp [evalT, e1, e3, asNumT, asSlT, hc], x1.trans x3, ⟨p, rfl, hc, hp⟩, rfl, hh3⟩
  · simp only [hc, if_false] at hgo
    cases hgo

theorem sound_skip (s a : Exp) (ihs : SoundE s) (iha : SoundE a) : SoundE (.skip s a) := by
  intro R G H stk Γ envs t τ v G' htr hrel hh hgo
  simp only [trE] at htr
  obtain ⟨ts, hts, htr⟩ := tr_expect htr
  obtain ⟨ta, hta, htr⟩ := tr_expect htr
  simp at htr
  obtain ⟨rfl, rfl⟩ := htr
  simp only [evalE] at hgo
  obtain ⟨lo, G2, h2, hgo⟩ := go_num hgo
  obtain ⟨o, off, l, c, G3, h3, hgo⟩ := go_sl hgo
  simp only [] at h3 hgo
  obtain ⟨R2, H2, tv2, e2, x2, r2, _, hh2⟩ := iha R G H stk Γ envs ta .u64 _ G2 hta hrel hh h2
  obtain ⟨R3, H3, tv3, e3, x3, r3, _, hh3⟩ := ihs R2 G2 H2 stk Γ envs ts .sl _ G3 hts (hrel.ext x2) hh2 h3
  have r2 := r2.num_inv
  subst r2
  by_cases hc : lo ≤ l
  · simp only [hc, if_true] at hgo
    simp at hgo
    obtain ⟨rfl, rfl⟩ := hgo
    obtain ⟨p, rfl, hle, hp⟩ := id r3
    have := r3.sl_shift lo (l - lo) (by omega) (by omega)
    exact ⟨R3, H3, _, by simp [evalT, e2, e3, asNumT, asSlT, hc], x2.trans x3, this, rfl, hh3⟩
  · simp only [hc, if_false] at hgo
    cases hgo

/-- Every expression: by structural induction. -/
theorem sound_exp : (e : Exp) → SoundE e
  | .lit n => sound_lit n
  | .var x => sound_var x
  | .add a b => sound_add a b (sound_exp a) (sound_exp b)
  | .mk alloc ga gb gn a b n => sound_mk alloc ga gb gn a b n (sound_exp a) (sound_exp b) (sound_exp n)
  | .sel e f => sound_sel e f (sound_exp e)
  | .deref e => sound_deref e (sound_exp e)
  | .newN => sound_newN
  | .make n => sound_make n (sound_exp n)
  | .idx s i => sound_idx s i (sound_exp s) (sound_exp i)
  | .len s => sound_len s (sound_exp s)
  | .sub s a b => sound_sub s a b (sound_exp s) (sound_exp a) (sound_exp b)
  | .take s b => sound_take s b (sound_exp s) (sound_exp b)
  | .skip s a => sound_skip s a (sound_exp s) (sound_exp a)

end GooseVerif.Model.Heap
