import GooseVerif.Model.Prims

namespace GooseVerif.Model.Prims
open GooseVerif.Model.Codec GooseVerif.Gen

theorem exists_eight (b : List Byte) (h : 8 ≤ b.length) :
    ∃ b0 b1 b2 b3 b4 b5 b6 b7 rest, b = b0 :: b1 :: b2 :: b3 :: b4 :: b5 :: b6 :: b7 :: rest := by
  match b, h with
  | b0 :: b1 :: b2 :: b3 :: b4 :: b5 :: b6 :: b7 :: rest, _ => exact ⟨b0, b1, b2, b3, b4, b5, b6, b7, rest, rfl⟩

theorem exists_four (b : List Byte) (h : 4 ≤ b.length) :
    ∃ b0 b1 b2 b3 rest, b = b0 :: b1 :: b2 :: b3 :: rest := by
  match b, h with
  | b0 :: b1 :: b2 :: b3 :: rest, _ => exact ⟨b0, b1, b2, b3, rest, rfl⟩

theorem put64_cons (b0 b1 b2 b3 b4 b5 b6 b7 : Byte) (rest : List Byte) (v : BitVec 64) :
    uint64Put (b0 :: b1 :: b2 :: b3 :: b4 :: b5 :: b6 :: b7 :: rest) v =
      .ok (specByte v 0 :: specByte v 1 :: specByte v 2 :: specByte v 3 :: specByte v 4 ::
            specByte v 5 :: specByte v 6 :: specByte v 7 :: rest) := by
  simp [uint64Put, putLE, Prim.lePutUint64Bound, Prim.lePutUint64, specByte]

theorem get64_cons (b0 b1 b2 b3 b4 b5 b6 b7 : Byte) (rest : List Byte) :
    uint64Get (b0 :: b1 :: b2 :: b3 :: b4 :: b5 :: b6 :: b7 :: rest) =
      .ok (b0.setWidth 64 ||| (b1.setWidth 64 <<< 8) ||| (b2.setWidth 64 <<< 16) |||
           (b3.setWidth 64 <<< 24) ||| (b4.setWidth 64 <<< 32) ||| (b5.setWidth 64 <<< 40) |||
           (b6.setWidth 64 <<< 48) ||| (b7.setWidth 64 <<< 56)) := by
  simp [uint64Get, getLE, Prim.leUint64Bound, Prim.leUint64]

theorem put32_cons (b0 b1 b2 b3 : Byte) (rest : List Byte) (v : BitVec 32) :
    uint32Put (b0 :: b1 :: b2 :: b3 :: rest) v =
      .ok (specByte v 0 :: specByte v 1 :: specByte v 2 :: specByte v 3 :: rest) := by
  simp [uint32Put, putLE, Prim.lePutUint32Bound, Prim.lePutUint32, specByte]

theorem get32_cons (b0 b1 b2 b3 : Byte) (rest : List Byte) :
    uint32Get (b0 :: b1 :: b2 :: b3 :: rest) =
      .ok (b0.setWidth 32 ||| (b1.setWidth 32 <<< 8) ||| (b2.setWidth 32 <<< 16) |||
           (b3.setWidth 32 <<< 24)) := by
  simp [uint32Get, getLE, Prim.leUint32Bound, Prim.leUint32]

theorem bytes64_join (v : BitVec 64) :
    ((specByte v 0).setWidth 64 ||| ((specByte v 1).setWidth 64 <<< 8) |||
     ((specByte v 2).setWidth 64 <<< 16) ||| ((specByte v 3).setWidth 64 <<< 24) |||
     ((specByte v 4).setWidth 64 <<< 32) ||| ((specByte v 5).setWidth 64 <<< 40) |||
     ((specByte v 6).setWidth 64 <<< 48) ||| ((specByte v 7).setWidth 64 <<< 56)) = v := by
  unfold specByte
  ext i hi
  simp
  grind

theorem bytes32_join (v : BitVec 32) :
    ((specByte v 0).setWidth 32 ||| ((specByte v 1).setWidth 32 <<< 8) |||
     ((specByte v 2).setWidth 32 <<< 16) ||| ((specByte v 3).setWidth 32 <<< 24)) = v := by
  unfold specByte
  ext i hi
  simp
  grind

theorem byte_of_join64 (b0 b1 b2 b3 b4 b5 b6 b7 : Byte) :
    let v := (b0.setWidth 64 ||| (b1.setWidth 64 <<< 8) ||| (b2.setWidth 64 <<< 16) |||
           (b3.setWidth 64 <<< 24) ||| (b4.setWidth 64 <<< 32) ||| (b5.setWidth 64 <<< 40) |||
           (b6.setWidth 64 <<< 48) ||| (b7.setWidth 64 <<< 56))
    specByte v 0 = b0 ∧ specByte v 1 = b1 ∧ specByte v 2 = b2 ∧ specByte v 3 = b3 ∧
    specByte v 4 = b4 ∧ specByte v 5 = b5 ∧ specByte v 6 = b6 ∧ specByte v 7 = b7 := by
  intro v
  simp only [v, specByte]
  refine ⟨?_, ?_, ?_, ?_, ?_, ?_, ?_, ?_⟩ <;> (ext i hi; simp <;> grind)

theorem byte_of_join32 (b0 b1 b2 b3 : Byte) :
    let v := (b0.setWidth 32 ||| (b1.setWidth 32 <<< 8) ||| (b2.setWidth 32 <<< 16) |||
           (b3.setWidth 32 <<< 24))
    specByte v 0 = b0 ∧ specByte v 1 = b1 ∧ specByte v 2 = b2 ∧ specByte v 3 = b3 := by
  intro v
  simp only [v, specByte]
  refine ⟨?_, ?_, ?_, ?_⟩ <;> (ext i hi; simp <;> grind)

/-! 64-bit property lemmas -/

theorem put64_layout' (b : List Byte) (v : BitVec 64) (h : 8 ≤ b.length) :
    ∃ b', uint64Put b v = .ok b' ∧ b'.length = b.length ∧
      (∀ i, i < 8 → b'[i]? = some (specByte v i)) ∧
      (∀ i, 8 ≤ i → b'[i]? = b[i]?) := by
  obtain ⟨b0, b1, b2, b3, b4, b5, b6, b7, rest, rfl⟩ := exists_eight b h
  refine ⟨_, put64_cons .., by simp, ?_, ?_⟩
  · intro i hi
    match i, hi with
    | 0, _ | 1, _ | 2, _ | 3, _ | 4, _ | 5, _ | 6, _ | 7, _ => rfl
  · intro i hi
    obtain ⟨k, rfl⟩ : ∃ k, i = k + 8 := ⟨i - 8, by omega⟩
    simp

theorem get64_prefix_only' (b c : List Byte) (hb : 8 ≤ b.length) (hc : 8 ≤ c.length)
    (h : b.take 8 = c.take 8) : uint64Get b = uint64Get c := by
  obtain ⟨b0, b1, b2, b3, b4, b5, b6, b7, rest, rfl⟩ := exists_eight b hb
  obtain ⟨c0, c1, c2, c3, c4, c5, c6, c7, rest', rfl⟩ := exists_eight c hc
  simp at h
  obtain ⟨rfl, rfl, rfl, rfl, rfl, rfl, rfl, rfl⟩ := h
  rw [get64_cons, get64_cons]

theorem get64_put64' (b : List Byte) (v : BitVec 64) (h : 8 ≤ b.length) :
    ∃ b', uint64Put b v = .ok b' ∧ uint64Get b' = .ok v := by
  obtain ⟨b0, b1, b2, b3, b4, b5, b6, b7, rest, rfl⟩ := exists_eight b h
  refine ⟨_, put64_cons .., ?_⟩
  rw [get64_cons, bytes64_join]

theorem put64_get64' (b : List Byte) (h : 8 ≤ b.length) :
    ∃ v, uint64Get b = .ok v ∧ uint64Put b v = .ok b := by
  obtain ⟨b0, b1, b2, b3, b4, b5, b6, b7, rest, rfl⟩ := exists_eight b h
  refine ⟨_, get64_cons .., ?_⟩
  rw [put64_cons]
  obtain ⟨h0, h1, h2, h3, h4, h5, h6, h7⟩ := byte_of_join64 b0 b1 b2 b3 b4 b5 b6 b7
  rw [h0, h1, h2, h3, h4, h5, h6, h7]

theorem short64_refused' (b : List Byte) (v : BitVec 64) (h : b.length < 8) :
    uint64Put b v = .panic ∧ uint64Get b = .panic := by
  have h1 : ¬ (Prim.lePutUint64Bound < b.length) := by unfold Prim.lePutUint64Bound; omega
  have h2 : ¬ (Prim.leUint64Bound < b.length) := by unfold Prim.leUint64Bound; omega
  exact ⟨by simp only [uint64Put, putLE, if_neg h1], by simp only [uint64Get, getLE, if_neg h2]⟩

theorem put64_eq_spec' (b : List Byte) (v : BitVec 64) : uint64Put b v = specPut 8 b v := by
  by_cases h : 8 ≤ b.length
  · obtain ⟨b0, b1, b2, b3, b4, b5, b6, b7, rest, rfl⟩ := exists_eight b h
    rw [put64_cons]
    simp [specPut, List.range, List.range.loop]
  · rw [(short64_refused' b v (by omega)).1]
    simp only [specPut]; rw [if_neg h]

theorem get64_eq_spec' (b : List Byte) : uint64Get b = specGet 64 8 b := by
  by_cases h : 8 ≤ b.length
  · obtain ⟨b0, b1, b2, b3, b4, b5, b6, b7, rest, rfl⟩ := exists_eight b h
    rw [get64_cons]
    simp [specGet, List.range, List.range.loop]
  · rw [(short64_refused' b 0 (by omega)).2]
    simp only [specGet]; rw [if_neg h]

/-! 32-bit property lemmas -/

theorem put32_layout' (b : List Byte) (v : BitVec 32) (h : 4 ≤ b.length) :
    ∃ b', uint32Put b v = .ok b' ∧ b'.length = b.length ∧
      (∀ i, i < 4 → b'[i]? = some (specByte v i)) ∧
      (∀ i, 4 ≤ i → b'[i]? = b[i]?) := by
  obtain ⟨b0, b1, b2, b3, rest, rfl⟩ := exists_four b h
  refine ⟨_, put32_cons .., by simp, ?_, ?_⟩
  · intro i hi
    match i, hi with
    | 0, _ | 1, _ | 2, _ | 3, _ => rfl
  · intro i hi
    obtain ⟨k, rfl⟩ : ∃ k, i = k + 4 := ⟨i - 4, by omega⟩
    simp

theorem get32_prefix_only' (b c : List Byte) (hb : 4 ≤ b.length) (hc : 4 ≤ c.length)
    (h : b.take 4 = c.take 4) : uint32Get b = uint32Get c := by
  obtain ⟨b0, b1, b2, b3, rest, rfl⟩ := exists_four b hb
  obtain ⟨c0, c1, c2, c3, rest', rfl⟩ := exists_four c hc
  simp at h
  obtain ⟨rfl, rfl, rfl, rfl⟩ := h
  rw [get32_cons, get32_cons]

theorem get32_put32' (b : List Byte) (v : BitVec 32) (h : 4 ≤ b.length) :
    ∃ b', uint32Put b v = .ok b' ∧ uint32Get b' = .ok v := by
  obtain ⟨b0, b1, b2, b3, rest, rfl⟩ := exists_four b h
  refine ⟨_, put32_cons .., ?_⟩
  rw [get32_cons, bytes32_join]

theorem put32_get32' (b : List Byte) (h : 4 ≤ b.length) :
    ∃ v, uint32Get b = .ok v ∧ uint32Put b v = .ok b := by
  obtain ⟨b0, b1, b2, b3, rest, rfl⟩ := exists_four b h
  refine ⟨_, get32_cons .., ?_⟩
  rw [put32_cons]
  obtain ⟨h0, h1, h2, h3⟩ := byte_of_join32 b0 b1 b2 b3
  rw [h0, h1, h2, h3]

theorem short32_refused' (b : List Byte) (v : BitVec 32) (h : b.length < 4) :
    uint32Put b v = .panic ∧ uint32Get b = .panic := by
  have h1 : ¬ (Prim.lePutUint32Bound < b.length) := by unfold Prim.lePutUint32Bound; omega
  have h2 : ¬ (Prim.leUint32Bound < b.length) := by unfold Prim.leUint32Bound; omega
  exact ⟨by simp only [uint32Put, putLE, if_neg h1], by simp only [uint32Get, getLE, if_neg h2]⟩

theorem put32_eq_spec' (b : List Byte) (v : BitVec 32) : uint32Put b v = specPut 4 b v := by
  by_cases h : 4 ≤ b.length
  · obtain ⟨b0, b1, b2, b3, rest, rfl⟩ := exists_four b h
    rw [put32_cons]
    simp [specPut, List.range, List.range.loop]
  · rw [(short32_refused' b v (by omega)).1]
    simp only [specPut]; rw [if_neg h]

theorem get32_eq_spec' (b : List Byte) : uint32Get b = specGet 32 4 b := by
  by_cases h : 4 ≤ b.length
  · obtain ⟨b0, b1, b2, b3, rest, rfl⟩ := exists_four b h
    rw [get32_cons]
    simp [specGet, List.range, List.range.loop]
  · rw [(short32_refused' b 0 (by omega)).2]
    simp only [specGet]; rw [if_neg h]

/-! cross-width and arithmetic readings of the layout -/

theorem specByte_setWidth32 (v : BitVec 64) (i : Nat) (h : i < 4) :
    specByte (v.setWidth 32) i = specByte v i := by
  unfold specByte
  ext j hj
  simp
  grind

theorem get32_of_put64' (b : List Byte) (v : BitVec 64) (h : 8 ≤ b.length) :
    ∃ b', uint64Put b v = .ok b' ∧ uint32Get b' = .ok (v.setWidth 32) := by
  obtain ⟨b0, b1, b2, b3, b4, b5, b6, b7, rest, rfl⟩ := exists_eight b h
  refine ⟨_, put64_cons .., ?_⟩
  rw [get32_cons]
  rw [← specByte_setWidth32 v 0 (by omega), ← specByte_setWidth32 v 1 (by omega),
      ← specByte_setWidth32 v 2 (by omega), ← specByte_setWidth32 v 3 (by omega), bytes32_join]

theorem specByte_high_zero (v : BitVec 64) (hv : v.toNat < 2 ^ 32) (i : Nat) (h : 4 ≤ i) :
    specByte v i = 0 := by
  unfold specByte
  ext j hj
  simp
  rw [BitVec.getLsbD]
  apply Nat.testBit_lt_two_pow
  exact Nat.lt_of_lt_of_le hv (Nat.pow_le_pow_right (by omega) (by omega))

theorem put64_small' (b : List Byte) (v : BitVec 64) (h : 8 ≤ b.length) (hv : v.toNat < 2 ^ 32) :
    ∃ b', uint64Put b v = .ok b' ∧ ∀ i, 4 ≤ i → i < 8 → b'[i]? = some 0 := by
  obtain ⟨b', hp, _, hl, _⟩ := put64_layout' b v h
  exact ⟨b', hp, fun i h4 h8 => by rw [hl i h8, specByte_high_zero v hv i h4]⟩

/-- Little-endian as arithmetic: the value read is Σ byte_i · 256^i. -/
theorem get64_toNat (b0 b1 b2 b3 b4 b5 b6 b7 : Byte) (rest : List Byte) :
    ∃ v, uint64Get (b0 :: b1 :: b2 :: b3 :: b4 :: b5 :: b6 :: b7 :: rest) = .ok v ∧
      v.toNat = b0.toNat + 256 * (b1.toNat + 256 * (b2.toNat + 256 * (b3.toNat + 256 * (b4.toNat +
        256 * (b5.toNat + 256 * (b6.toNat + 256 * b7.toNat)))))) := by
  refine ⟨_, get64_cons .., ?_⟩
  have : (b0.setWidth 64 ||| (b1.setWidth 64 <<< 8) ||| (b2.setWidth 64 <<< 16) |||
           (b3.setWidth 64 <<< 24) ||| (b4.setWidth 64 <<< 32) ||| (b5.setWidth 64 <<< 40) |||
           (b6.setWidth 64 <<< 48) ||| (b7.setWidth 64 <<< 56)) =
         (b7 ++ b6 ++ b5 ++ b4 ++ b3 ++ b2 ++ b1 ++ b0).cast (by rfl) := by
    ext i hi
    simp
    grind
  rw [this]
  have hb (x : Nat) (y : Byte) : x <<< 8 ||| y.toNat = 256 * x + y.toNat := by
    rw [← Nat.shiftLeft_add_eq_or_of_lt y.isLt, Nat.shiftLeft_eq]; omega
  simp only [BitVec.toNat_cast, BitVec.toNat_append, hb]
  omega

theorem get32_toNat (b0 b1 b2 b3 : Byte) (rest : List Byte) :
    ∃ v, uint32Get (b0 :: b1 :: b2 :: b3 :: rest) = .ok v ∧
      v.toNat = b0.toNat + 256 * (b1.toNat + 256 * (b2.toNat + 256 * b3.toNat)) := by
  refine ⟨_, get32_cons .., ?_⟩
  have : (b0.setWidth 32 ||| (b1.setWidth 32 <<< 8) ||| (b2.setWidth 32 <<< 16) |||
           (b3.setWidth 32 <<< 24)) = (b3 ++ b2 ++ b1 ++ b0).cast (by rfl) := by
    ext i hi
    simp
    grind
  rw [this]
  have hb (x : Nat) (y : Byte) : x <<< 8 ||| y.toNat = 256 * x + y.toNat := by
    rw [← Nat.shiftLeft_add_eq_or_of_lt y.isLt, Nat.shiftLeft_eq]; omega
  simp only [BitVec.toNat_cast, BitVec.toNat_append, hb]
  omega

/-- The i-th byte written is digit i of the value in base 256. -/
theorem specByte_toNat {w : Nat} (v : BitVec w) (i : Nat) :
    (specByte v i).toNat = v.toNat / 256 ^ i % 256 := by
  simp [specByte, BitVec.toNat_setWidth, BitVec.toNat_ushiftRight, Nat.shiftRight_eq_div_pow, Nat.pow_mul]

end GooseVerif.Model.Prims
