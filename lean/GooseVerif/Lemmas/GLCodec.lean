/-
The reference interpreter's integer encoders (`UInt64Put`, `UInt32Put`, `UInt64Get`, `UInt32Get` of GL/Sem.lean, through
`bytesOfNat` / `natOfBytes`) compute the little-endian layout that `Model/Codec.lean` specifies and that `Props/C15.lean`
proves of the Go-side functions: the two sides of the C01 differential agree on the encoding primitives by a theorem, not
only on the sampled values.  Core Lean only.
-/
import GooseVerif.GL.Sem
import GooseVerif.Model.Codec

namespace GooseVerif.Lemmas.GLCodec
open GooseVerif GooseVerif.GL GooseVerif.Model.Codec

/-- Byte `i` written by the interpreter for the number `n` is byte `i` of the table-free specification. -/
theorem byte_agrees (w n i : Nat) (hn : n < 2 ^ w) :
    (n >>> (8 * i)) % 256 = (specByte (BitVec.ofNat w n) i).toNat := by
  simp [specByte, BitVec.toNat_setWidth, BitVec.toNat_ushiftRight, BitVec.toNat_ofNat, Nat.mod_eq_of_lt hn]

/-- `UInt64Put` / `UInt32Put` of the interpreter write exactly the bytes of `specPut`. -/
theorem bytesOfNat_eq_spec (w n k : Nat) (hn : n < 2 ^ w) :
    bytesOfNat n k = (List.range k).map (fun i => Val.u8 (specByte (BitVec.ofNat w n) i).toNat) := by
  unfold bytesOfNat
  apply List.map_congr_left
  intro i _
  rw [byte_agrees w n i hn]

end GooseVerif.Lemmas.GLCodec
