/-
Helper lemmas for the scoping theorem (model: `Model/Scope.lean`).

The simulation relation `Rel h stk Γ envs` relates, LEVEL BY LEVEL, Go's stack of scopes `stk`, the
translator's static environment `Γ` and the target environment, which is the concatenation
`envs.flatten` of one binding list per Go scope.  Inside a scope (`RelS`) the three lists have the same
names in the same order; an unwrapped name is bound to Go's value, a wrapped name to a location whose
cell holds Go's value; the locations of different bindings are different (`Fresh`).  Because the relation
is per level, leaving a block on the Go side (pop) and on the target side (the environment of `a;; b` is
the one before `a`) re-establishes the relation for the outer levels by dropping its first component;
hidden outer bindings are related all the time, so they are right again after the inner scope ends.
-/
import GooseVerif.Model.Scope

namespace GooseVerif.Model.Scope

/-! ### association lists -/

theorem look_append {α : Type} (x : String) (a b : List (String × α)) :
    look x (a ++ b) = match look x a with
      | some v => some v
      | none => look x b := by
  induction a with
  | nil => simp [look]
  | cons p a ih =>
    obtain ⟨y, v⟩ := p
    by_cases hy : y = x
    · simp [look, hy]
    · simp [look, hy, ih]

theorem look_mem {α : Type} {x : String} {v : α} {e : List (String × α)} (h : look x e = some v) :
    (x, v) ∈ e := by
  induction e with
  | nil => simp [look] at h
  | cons p e ih =>
    obtain ⟨y, w⟩ := p
    by_cases hy : y = x
    · simp [look, hy] at h
      simp [hy, h]
    · simp [look, hy] at h
      simp [ih h]

theorem Stmts.eq_nil_of_isNil {ss : Stmts} (h : ss.isNil = true) : ss = .nil := by
  cases ss with
  | nil => rfl
  | ret _ => simp [Stmts.isNil] at h
  | cons _ _ => simp [Stmts.isNil] at h

/-! ### the simulation relation -/

/-- No binding of `e` is the location `l`. -/
def Fresh (l : Nat) (e : Env) : Prop := ∀ y, (y, Val.loc l) ∉ e

theorem Fresh.cons_num {l : Nat} {e : Env} (x : String) (n : Nat) (h : Fresh l e) :
    Fresh l ((x, .num n) :: e) := by
  intro y hy
  simp at hy
  exact h y hy

theorem Fresh.tail {l : Nat} {e : Env} {p : String × Val} (h : Fresh l (p :: e)) : Fresh l e := by
  intro y hy
  exact h y (List.mem_cons_of_mem _ hy)

theorem Fresh.left {l : Nat} {a b : Env} (h : Fresh l (a ++ b)) : Fresh l a := by
  intro y hy
  exact h y (List.mem_append_left _ hy)

theorem Fresh.right {l : Nat} {a b : Env} (h : Fresh l (a ++ b)) : Fresh l b := by
  intro y hy
  exact h y (List.mem_append_right _ hy)

theorem Fresh.append {l : Nat} {a b : Env} (ha : Fresh l a) (hb : Fresh l b) : Fresh l (a ++ b) := by
  intro y hy
  rcases List.mem_append.mp hy with h | h
  · exact ha y h
  · exact hb y h

/-- One scope: Go's bindings, the static scope, the target bindings; `eo` is the target environment of
the enclosing scopes (for the distinctness of locations). -/
inductive RelS (h : Heap) (eo : Env) : Scope → SScope → Env → Prop where
  | nil : RelS h eo [] [] []
  | num {sc : Scope} {ssc : SScope} {esc : Env} (x : String) (n : Nat) :
      RelS h eo sc ssc esc → RelS h eo ((x, n) :: sc) ((x, false) :: ssc) ((x, .num n) :: esc)
  | loc {sc : Scope} {ssc : SScope} {esc : Env} (x : String) (n l : Nat) :
      RelS h eo sc ssc esc → h[l]? = some n → Fresh l (esc ++ eo) →
      RelS h eo ((x, n) :: sc) ((x, true) :: ssc) ((x, .loc l) :: esc)

/-- The stacks, level by level. -/
inductive Rel (h : Heap) : Stack → SEnv → List Env → Prop where
  | nil : Rel h [] [] []
  | cons {sc : Scope} {ssc : SScope} {esc : Env} {st : Stack} {Γ : SEnv} {envs : List Env} :
      RelS h envs.flatten sc ssc esc → Rel h st Γ envs → Rel h (sc :: st) (ssc :: Γ) (esc :: envs)

/-! ### locations are allocated cells -/

theorem lt_of_getElem? {h : Heap} {l n : Nat} (hl : h[l]? = some n) : l < h.length := by
  rcases Nat.lt_or_ge l h.length with hlt | hge
  · exact hlt
  · rw [List.getElem?_eq_none hge] at hl
    cases hl

theorem RelS.bound {h : Heap} {eo : Env} {sc : Scope} {ssc : SScope} {esc : Env}
    (r : RelS h eo sc ssc esc) : ∀ y l, (y, Val.loc l) ∈ esc → l < h.length := by
  induction r with
  | nil => intro y l hm; cases hm
  | num x n _ ih =>
    intro y l hm
    simp at hm
    exact ih y l hm
  | loc x n l' _ hl _ ih =>
    intro y l hm
    simp at hm
    rcases hm with ⟨_, rfl⟩ | hm
    · exact lt_of_getElem? hl
    · exact ih y l hm

theorem Rel.bound {h : Heap} {stk : Stack} {Γ : SEnv} {envs : List Env} (r : Rel h stk Γ envs) :
    ∀ y l, (y, Val.loc l) ∈ envs.flatten → l < h.length := by
  induction r with
  | nil => intro y l hm; simp at hm
  | cons rs _ ih =>
    intro y l hm
    rw [List.flatten_cons] at hm
    rcases List.mem_append.mp hm with hm | hm
    · exact rs.bound y l hm
    · exact ih y l hm

/-- The next cell to be allocated is not in the environment. -/
theorem Rel.fresh_length {h : Heap} {stk : Stack} {Γ : SEnv} {envs : List Env} (r : Rel h stk Γ envs) :
    Fresh h.length envs.flatten := by
  intro y hm
  exact Nat.lt_irrefl _ (r.bound y _ hm)

/-! ### allocation keeps the relation -/

theorem getElem?_grow {h : Heap} {l n : Nat} (m : Nat) (hl : h[l]? = some n) : (h ++ [m])[l]? = some n := by
  rw [List.getElem?_append_left (lt_of_getElem? hl)]
  exact hl

theorem RelS.grow {h : Heap} {eo : Env} {sc : Scope} {ssc : SScope} {esc : Env} (m : Nat)
    (r : RelS h eo sc ssc esc) : RelS (h ++ [m]) eo sc ssc esc := by
  induction r with
  | nil => exact .nil
  | num x n _ ih => exact .num x n ih
  | loc x n l _ hl hf ih => exact .loc x n l ih (getElem?_grow m hl) hf

theorem Rel.grow {h : Heap} {stk : Stack} {Γ : SEnv} {envs : List Env} (m : Nat)
    (r : Rel h stk Γ envs) : Rel (h ++ [m]) stk Γ envs := by
  induction r with
  | nil => exact .nil
  | cons rs _ ih => exact .cons (rs.grow m) ih

/-! ### a store to a location that a part of the environment does not mention -/

theorem RelS.set_frame {h : Heap} {eo : Env} {sc : Scope} {ssc : SScope} {esc : Env} (l m : Nat)
    (r : RelS h eo sc ssc esc) : Fresh l esc → RelS (h.set l m) eo sc ssc esc := by
  induction r with
  | nil => intro _; exact .nil
  | num x n _ ih => intro hf; exact .num x n (ih hf.tail)
  | loc x n l' _ hl hf' ih =>
    intro hf
    have hne : l ≠ l' := by
      intro he
      subst he
      exact hf x (List.mem_cons_self)
    refine .loc x n l' (ih hf.tail) ?_ hf'
    rw [List.getElem?_set_ne hne]
    exact hl

theorem Rel.set_frame {h : Heap} {stk : Stack} {Γ : SEnv} {envs : List Env} (l m : Nat)
    (r : Rel h stk Γ envs) : Fresh l envs.flatten → Rel (h.set l m) stk Γ envs := by
  induction r with
  | nil => intro _; exact .nil
  | cons rs _ ih =>
    intro hf
    rw [List.flatten_cons] at hf
    exact .cons (rs.set_frame l m hf.left) (ih hf.right)

/-- A location of an enclosing scope does not occur in the scope. -/
theorem RelS.fresh_of_outer {h : Heap} {eo : Env} {sc : Scope} {ssc : SScope} {esc : Env}
    (r : RelS h eo sc ssc esc) {y : String} {l : Nat} (hm : (y, Val.loc l) ∈ eo) : Fresh l esc := by
  induction r with
  | nil => intro z hz; cases hz
  | num x n _ ih => exact ih.cons_num x n
  | loc x n l' _ _ hf ih =>
    intro z hz
    simp at hz
    rcases hz with ⟨_, rfl⟩ | hz
    · exact hf y (List.mem_append_right _ hm)
    · exact ih z hz

/-! ### lookup -/

/-- What the three lookups in one scope give, by the static entry. -/
def LookS (h : Heap) (x : String) (sc : Scope) (esc : Env) : Option Bool → Prop
  | none => look x sc = none ∧ look x esc = none
  | some false => ∃ n, look x sc = some n ∧ look x esc = some (.num n)
  | some true => ∃ n l, look x sc = some n ∧ look x esc = some (.loc l) ∧ h[l]? = some n

theorem LookS.skip {h : Heap} {x y : String} {sc : Scope} {esc : Env} {w : Option Bool} (n : Nat) (v : Val)
    (hy : ¬ y = x) (hl : LookS h x sc esc w) : LookS h x ((y, n) :: sc) ((y, v) :: esc) w := by
  cases w with
  | none => simpa [LookS, look, hy] using hl
  | some b => cases b <;> simpa [LookS, look, hy] using hl

theorem RelS.lookup {h : Heap} {eo : Env} {sc : Scope} {ssc : SScope} {esc : Env} (x : String)
    (r : RelS h eo sc ssc esc) : LookS h x sc esc (look x ssc) := by
  induction r with
  | nil => simp [look, LookS]
  | num y n _ ih =>
    by_cases hy : y = x
    · simp [look, hy, LookS]
    · simp only [look, hy, if_false]
      exact ih.skip n _ hy
  | loc y n l _ hl _ ih =>
    by_cases hy : y = x
    · simp [look, hy, LookS, hl]
    · simp only [look, hy, if_false]
      exact ih.skip n _ hy

/-- What the lookups in the whole stacks give. -/
def LookR (h : Heap) (x : String) (stk : Stack) (env : Env) : Option Bool → Prop
  | none => True
  | some false => ∃ n, lookStk x stk = some n ∧ look x env = some (.num n)
  | some true => ∃ n l, lookStk x stk = some n ∧ look x env = some (.loc l) ∧ h[l]? = some n

theorem Rel.lookup {h : Heap} {stk : Stack} {Γ : SEnv} {envs : List Env} (x : String)
    (r : Rel h stk Γ envs) : LookR h x stk envs.flatten (lookStk x Γ) := by
  induction r with
  | nil => simp [lookStk, LookR]
  | @cons sc ssc esc st Γ envs rs _ ih =>
    have hs := rs.lookup x
    rw [List.flatten_cons, lookStk]
    cases hw : look x ssc with
    | none =>
      rw [hw] at hs
      obtain ⟨h1, h2⟩ := hs
      simp only []
      cases hΓ : lookStk x Γ with
      | none => trivial
      | some w =>
        rw [hΓ] at ih
        cases w with
        | false =>
          obtain ⟨n, h3, h4⟩ := ih
          exact ⟨n, by simp [lookStk, h1, h3], by simp [look_append, h2, h4]⟩
        | true =>
          obtain ⟨n, l, h3, h4, h5⟩ := ih
          exact ⟨n, l, by simp [lookStk, h1, h3], by simp [look_append, h2, h4], h5⟩
    | some w =>
      rw [hw] at hs
      cases w with
      | false =>
        obtain ⟨n, h1, h2⟩ := hs
        exact ⟨n, by simp [lookStk, h1], by simp [look_append, h2]⟩
      | true =>
        obtain ⟨n, l, h1, h2, h3⟩ := hs
        exact ⟨n, l, by simp [lookStk, h1], by simp [look_append, h2], h3⟩

/-! ### expressions -/

theorem sound_exp {h : Heap} {stk : Stack} {Γ : SEnv} {envs : List Env} (r : Rel h stk Γ envs) :
    ∀ (e : Exp) (t : T) (n : Nat), trE Γ e = .ok t → evalE stk e = some n →
      evalT envs.flatten h t = some (.num n, h) := by
  intro e
  induction e with
  | lit k =>
    intro t n ht hn
    simp [trE] at ht
    simp [evalE] at hn
    subst ht hn
    simp [evalT]
  | var x =>
    intro t n ht hn
    have hl := r.lookup x
    simp only [evalE] at hn
    simp only [trE] at ht
    cases hw : lookStk x Γ with
    | none => simp [hw] at ht
    | some w =>
      rw [hw] at hl
      cases w with
      | false =>
        simp [hw] at ht
        subst ht
        obtain ⟨n', h1, h2⟩ := hl
        rw [h1] at hn
        cases hn
        simp [evalT, h2]
      | true =>
        simp [hw] at ht
        subst ht
        obtain ⟨n', l, h1, h2, h3⟩ := hl
        rw [h1] at hn
        cases hn
        simp [evalT, h2, h3]
  | add a b iha ihb =>
    intro t n ht hn
    simp only [trE] at ht
    cases hta : trE Γ a with
    | error m => simp [hta] at ht
    | ok ta =>
      cases htb : trE Γ b with
      | error m => simp [hta, htb] at ht
      | ok tb =>
        simp [hta, htb] at ht
        subst ht
        simp only [evalE] at hn
        cases hea : evalE stk a with
        | none => simp [hea] at hn
        | some m =>
          cases heb : evalE stk b with
          | none => simp [hea, heb] at hn
          | some k =>
            simp [hea, heb] at hn
            subst hn
            simp [evalT, iha ta m hta hea, ihb tb k htb heb]

/-! ### assignment -/

theorem RelS.upd_none {h : Heap} {eo : Env} {sc : Scope} {ssc : SScope} {esc : Env} (x : String) (m : Nat)
    (r : RelS h eo sc ssc esc) : look x ssc = none → updScope x m sc = none := by
  induction r with
  | nil => intro _; rfl
  | num y n _ ih =>
    by_cases hy : y = x
    · simp [look, hy]
    · intro hl
      simp [look, hy] at hl
      simp [updScope, hy, ih hl]
  | loc y n l _ _ _ ih =>
    by_cases hy : y = x
    · simp [look, hy]
    · intro hl
      simp [look, hy] at hl
      simp [updScope, hy, ih hl]

/-- An assignment to a wrapped variable found in this scope: Go updates this scope, the target stores to
the variable's cell, and nothing else changes. -/
theorem RelS.upd {h : Heap} {eo : Env} {sc : Scope} {ssc : SScope} {esc : Env} (x : String) (m : Nat)
    (r : RelS h eo sc ssc esc) : look x ssc = some true →
      ∃ l sc', updScope x m sc = some sc' ∧ look x esc = some (.loc l) ∧ l < h.length ∧ Fresh l eo ∧
        RelS (h.set l m) eo sc' ssc esc := by
  induction r with
  | nil => intro hl; simp [look] at hl
  | @num sc ssc esc y n _ ih =>
    intro hl
    by_cases hy : y = x
    · simp [look, hy] at hl
    · simp [look, hy] at hl
      obtain ⟨l, sc', h1, h2, h3, h4, h5⟩ := ih hl
      exact ⟨l, (y, n) :: sc', by simp [updScope, hy, h1], by simp [look, hy, h2], h3, h4, .num y n h5⟩
  | @loc sc ssc esc y n l' rs hl' hf ih =>
    intro hl
    by_cases hy : y = x
    · have hlt := lt_of_getElem? hl'
      refine ⟨l', (y, m) :: sc, by simp [updScope, hy], by simp [look, hy], hlt, hf.right, ?_⟩
      refine .loc y m l' (rs.set_frame l' m hf.left) ?_ hf
      simp [hlt]
    · simp [look, hy] at hl
      obtain ⟨l, sc', h1, h2, h3, h4, h5⟩ := ih hl
      have hne : l ≠ l' := by
        intro he
        subst he
        exact hf x (List.mem_append_left _ (look_mem h2))
      refine ⟨l, (y, n) :: sc', by simp [updScope, hy, h1], by simp [look, hy, h2], h3, h4, ?_⟩
      refine .loc y n l' h5 ?_ hf
      rw [List.getElem?_set_ne hne]
      exact hl'

/-- An assignment to a name whose innermost declaration is wrapped. -/
theorem Rel.upd {h : Heap} {stk : Stack} {Γ : SEnv} {envs : List Env} (x : String) (m : Nat)
    (r : Rel h stk Γ envs) : lookStk x Γ = some true →
      ∃ l stk', updStk x m stk = some stk' ∧ look x envs.flatten = some (.loc l) ∧ l < h.length ∧
        Rel (h.set l m) stk' Γ envs := by
  induction r with
  | nil => intro hl; simp [lookStk] at hl
  | @cons sc ssc esc st Γ envs rs rt ih =>
    intro hl
    rw [lookStk] at hl
    rw [List.flatten_cons]
    cases hw : look x ssc with
    | some w =>
      simp [hw] at hl
      subst hl
      obtain ⟨l, sc', h1, h2, h3, h4, h5⟩ := rs.upd x m hw
      exact ⟨l, sc' :: st, by simp [updStk, h1], by simp [look_append, h2], h3, .cons h5 (rt.set_frame l m h4)⟩
    | none =>
      simp [hw] at hl
      obtain ⟨l, st', h1, h2, h3, h4⟩ := ih hl
      have hs := rs.lookup x
      rw [hw] at hs
      have hf : Fresh l esc := rs.fresh_of_outer (look_mem h2)
      exact ⟨l, sc :: st', by simp [updStk, rs.upd_none x m hw, h1], by simp [look_append, hs.2, h2], h3,
        .cons (rs.set_frame l m hf) h4⟩

/-! ### statements -/

/-- What the translation `t` of a statement list must do when Go's outcome is `out`: on normal
completion it evaluates (to a value nobody looks at) and the OUTER levels are related again; on
`return n` (only in the function body) its value is `n`. -/
def Post (top : Bool) (Γ : SEnv) (envs : List Env) (r : Option (Val × Heap)) : Out → Prop
  | .normal stk' => ∃ sc' st' v h', stk' = sc' :: st' ∧ r = some (v, h') ∧ Rel h' st' Γ envs
  | .returned n => top = true ∧ ∃ h', r = some (.num n, h')

/-- The statement of the simulation for a statement list (executed in the innermost scope `sc`). -/
def StmtsSound (ss : Stmts) : Prop :=
  ∀ (top : Bool) (ssc : SScope) (Γ : SEnv) (sc : Scope) (st : Stack) (esc : Env) (envs : List Env) (h : Heap)
    (t : T) (out : Out),
    trStmts true top (ssc :: Γ) ss = .ok t → Rel h (sc :: st) (ssc :: Γ) (esc :: envs) →
    execStmts (sc :: st) ss = some out → Post top Γ envs (evalT (esc ++ envs.flatten) h t) out

/-- … and for a statement that is not a declaration. -/
def StmtSound (s : Stmt) : Prop :=
  ∀ (Γ : SEnv) (stk : Stack) (envs : List Env) (h : Heap) (t : T) (out : Out),
    trStmt true Γ s = .ok (.anon t) → Rel h stk Γ envs → execStmt stk s = some out →
    ∃ stk' v h', out = .normal stk' ∧ evalT envs.flatten h t = some (v, h') ∧ Rel h' stk' Γ envs

/-- A block body, run in a fresh scope on both sides. -/
theorem sound_body {b : Stmts} (ih : StmtsSound b) {Γ : SEnv} {stk : Stack} {envs : List Env} {h : Heap}
    {t : T} {out : Out} (ht : trStmts true false ([] :: Γ) b = .ok t) (r : Rel h stk Γ envs)
    (hx : popOut (execStmts ([] :: stk) b) = some out) :
    ∃ stk' v h', out = .normal stk' ∧ evalT envs.flatten h t = some (v, h') ∧ Rel h' stk' Γ envs := by
  cases hb : execStmts ([] :: stk) b with
  | none => simp [hb, popOut] at hx
  | some o =>
    have hp := ih false [] Γ [] stk [] envs h t o ht (.cons .nil r) hb
    cases o with
    | returned n => simp [Post] at hp
    | normal stk1 =>
      obtain ⟨sc', st', v, h', h1, h2, h3⟩ := hp
      simp [hb, popOut] at hx
      subst hx h1
      exact ⟨st', v, h', rfl, by simpa using h2, h3⟩

theorem sound_assign (x : String) (e : Exp) : StmtSound (.assign x e) := by
  intro Γ stk envs h t out ht r hx
  simp only [trStmt] at ht
  cases hw : lookStk x Γ with
  | none => simp [hw] at ht
  | some w =>
    cases w with
    | false => simp [hw] at ht
    | true =>
      cases hte : trE Γ e with
      | error m => simp [hw, hte] at ht
      | ok te =>
        simp [hw, hte] at ht
        subst ht
        simp only [execStmt] at hx
        cases hev : evalE stk e with
        | none => simp [hev] at hx
        | some n =>
          obtain ⟨l, stk', h1, h2, h3, h4⟩ := r.upd x n hw
          simp [hev, h1] at hx
          subst hx
          exact ⟨stk', .unit, h.set l n, rfl, by simp [evalT, sound_exp r e te n hte hev, h2, h3], h4⟩

theorem sound_ite (c : Exp) (a b : Stmts) (iha : StmtsSound a) (ihb : StmtsSound b) :
    StmtSound (.ite c a b) := by
  intro Γ stk envs h t out ht r hx
  simp only [trStmt] at ht
  cases htc : trE Γ c with
  | error m => simp [htc] at ht
  | ok tc =>
    cases hta : trStmts true false ([] :: Γ) a with
    | error m => simp [htc, hta] at ht
    | ok ta =>
      cases htb : trStmts true false ([] :: Γ) b with
      | error m => simp [htc, hta, htb] at ht
      | ok tb =>
        simp [htc, hta, htb] at ht
        subst ht
        simp only [execStmt] at hx
        cases hev : evalE stk c with
        | none => simp [hev] at hx
        | some n =>
          have hc := sound_exp r c tc n htc hev
          by_cases hn : n = 0
          · simp [hev, hn] at hx
            obtain ⟨stk', v, h', h1, h2, h3⟩ := sound_body ihb htb r hx
            exact ⟨stk', v, h', h1, by simp [evalT, hc, hn, h2], h3⟩
          · simp [hev, hn] at hx
            obtain ⟨stk', v, h', h1, h2, h3⟩ := sound_body iha hta r hx
            exact ⟨stk', v, h', h1, by simp [evalT, hc, hn, h2], h3⟩

theorem sound_block (b : Stmts) (ih : StmtsSound b) : StmtSound (.block b) := by
  intro Γ stk envs h t out ht r hx
  simp only [trStmt] at ht
  cases htb : trStmts true false ([] :: Γ) b with
  | error m => simp [htb] at ht
  | ok tb =>
    simp [htb] at ht
    subst ht
    simp only [execStmt] at hx
    exact sound_body ih htb r hx

/-- A statement that is not a declaration, followed by the rest of its list. -/
theorem sound_cons_anon {s : Stmt} {rest : Stmts} (hs : StmtSound s) (hrest : StmtsSound rest)
    (hanon : ∀ Γ b, trStmt true Γ s = .ok b → ∃ t, b = .anon t) : StmtsSound (.cons s rest) := by
  intro top ssc Γ sc st esc envs h t out ht r hx
  simp only [trStmts] at ht
  cases hts : trStmt true (ssc :: Γ) s with
  | error m => simp [hts] at ht
  | ok b =>
    obtain ⟨ts, rfl⟩ := hanon _ b hts
    cases htr : trStmts true top (ssc :: Γ) rest with
    | error m => simp [hts, htr, Bind.scope] at ht
    | ok tr =>
      simp [hts, htr, Bind.scope] at ht
      simp only [execStmts] at hx
      cases hes : execStmt (sc :: st) s with
      | none => simp [hes] at hx
      | some o =>
        obtain ⟨stk1, v1, h1, ho, hev, r1⟩ := hs (ssc :: Γ) (sc :: st) (esc :: envs) h ts o hts r hes
        subst ho
        simp [hes] at hx
        rw [List.flatten_cons] at hev
        cases r1 with
        | @cons sc1 _ _ st1 _ _ rs1 rt1 =>
          by_cases hnil : rest.isNil = true
          · have := Stmts.eq_nil_of_isNil hnil
            subst this
            simp [Stmts.isNil, Bind.addTo] at ht
            subst ht
            simp [execStmts] at hx
            subst hx
            exact ⟨sc1, st1, v1, h1, rfl, hev, rt1⟩
          · simp [hnil, Bind.addTo] at ht
            subst ht
            have hp := hrest top ssc Γ sc1 st1 esc envs h1 tr out htr (.cons rs1 rt1) hx
            simpa [evalT, hev] using hp

theorem sound_cons_define (x : String) (e : Exp) {rest : Stmts} (hrest : StmtsSound rest) :
    StmtsSound (.cons (.define x e) rest) := by
  intro top ssc Γ sc st esc envs h t out ht r hx
  simp only [trStmts, trStmt] at ht
  cases hte : trE (ssc :: Γ) e with
  | error m => simp [hte] at ht
  | ok te =>
    cases htr : trStmts true top (((x, false) :: ssc) :: Γ) rest with
    | error m => simp [hte, htr, Bind.scope, bindStk] at ht
    | ok tr =>
      simp [hte, htr, Bind.scope, bindStk, Bind.addTo] at ht
      subst ht
      simp only [execStmts, execStmt] at hx
      cases hev : evalE (sc :: st) e with
      | none => simp [hev] at hx
      | some n =>
        simp [hev, bindStk] at hx
        have he := sound_exp r e te n hte hev
        rw [List.flatten_cons] at he
        cases r with
        | cons rs rt =>
          have hp := hrest top ((x, false) :: ssc) Γ ((x, n) :: sc) st ((x, .num n) :: esc) envs h tr out htr
            (.cons (.num x n rs) rt) hx
          simpa [evalT, he] using hp

theorem sound_cons_declare (x : String) (e : Exp) {rest : Stmts} (hrest : StmtsSound rest) :
    StmtsSound (.cons (.declare x e) rest) := by
  intro top ssc Γ sc st esc envs h t out ht r hx
  simp only [trStmts, trStmt] at ht
  cases hte : trE (ssc :: Γ) e with
  | error m => simp [hte] at ht
  | ok te =>
    cases htr : trStmts true top (((x, true) :: ssc) :: Γ) rest with
    | error m => simp [hte, htr, Bind.scope, bindStk] at ht
    | ok tr =>
      simp [hte, htr, Bind.scope, bindStk, Bind.addTo] at ht
      subst ht
      simp only [execStmts, execStmt] at hx
      cases hev : evalE (sc :: st) e with
      | none => simp [hev] at hx
      | some n =>
        simp [hev, bindStk] at hx
        have he := sound_exp r e te n hte hev
        have hfr := r.fresh_length
        rw [List.flatten_cons] at he hfr
        cases r with
        | cons rs rt =>
          have hcell : (h ++ [n])[h.length]? = some n := by simp
          have hp := hrest top ((x, true) :: ssc) Γ ((x, n) :: sc) st ((x, .loc h.length) :: esc) envs (h ++ [n])
            tr out htr (.cons (.loc x n h.length (rs.grow n) hcell hfr) (rt.grow n)) hx
          simpa [evalT, he] using hp

theorem sound_nil : StmtsSound .nil := by
  intro top ssc Γ sc st esc envs h t out ht r hx
  cases top with
  | true => simp [trStmts] at ht
  | false =>
    simp [trStmts] at ht
    simp [execStmts] at hx
    subst ht hx
    cases r with
    | cons rs rt => exact ⟨sc, st, .unit, h, rfl, by simp [evalT], rt⟩

theorem sound_ret (e : Exp) : StmtsSound (.ret e) := by
  intro top ssc Γ sc st esc envs h t out ht r hx
  cases top with
  | false => simp [trStmts] at ht
  | true =>
    simp [trStmts] at ht
    simp only [execStmts] at hx
    cases hev : evalE (sc :: st) e with
    | none => simp [hev] at hx
    | some n =>
      simp [hev] at hx
      subst hx
      have he := sound_exp r e t n ht hev
      rw [List.flatten_cons] at he
      exact ⟨rfl, h, he⟩

mutual
/-- The simulation, by one mutual structural induction over statements and statement lists. -/
theorem sound_stmts : (ss : Stmts) → StmtsSound ss
  | .nil => sound_nil
  | .ret e => sound_ret e
  | .cons (.define x e) rest => sound_cons_define x e (sound_stmts rest)
  | .cons (.declare x e) rest => sound_cons_declare x e (sound_stmts rest)
  | .cons (.assign x e) rest =>
    sound_cons_anon (sound_stmt (.assign x e)) (sound_stmts rest) (by
      intro Γ b hb
      simp only [trStmt] at hb
      split at hb
      · split at hb
        · cases hb
        · cases hb; exact ⟨_, rfl⟩
      · cases hb)
  | .cons (.block b) rest =>
    sound_cons_anon (sound_stmt (.block b)) (sound_stmts rest) (by
      intro Γ bd hb
      simp only [trStmt] at hb
      split at hb
      · cases hb
      · cases hb; exact ⟨_, rfl⟩)
  | .cons (.ite c a b) rest =>
    sound_cons_anon (sound_stmt (.ite c a b)) (sound_stmts rest) (by
      intro Γ bd hb
      simp only [trStmt] at hb
      split at hb
      · cases hb
      · split at hb
        · cases hb
        · split at hb
          · cases hb
          · cases hb; exact ⟨_, rfl⟩)
theorem sound_stmt : (s : Stmt) → StmtSound s
  | .define x e => by
    intro Γ stk envs h t out ht
    simp only [trStmt] at ht
    split at ht <;> cases ht
  | .declare x e => by
    intro Γ stk envs h t out ht
    simp only [trStmt] at ht
    split at ht <;> cases ht
  | .assign x e => sound_assign x e
  | .block b => sound_block b (sound_stmts b)
  | .ite c a b => sound_ite c a b (sound_stmts a) (sound_stmts b)
end

/-! ### which assignments the translator accepts -/

/-- The static environment after a statement (what `Bind.scope` computes from the translation). -/
def Stmt.scopeAfter : Stmt → SEnv → SEnv
  | .define x _, Γ => bindStk x false Γ
  | .declare x _, Γ => bindStk x true Γ
  | _, Γ => Γ

mutual
/-- Every assignment in the statement resolves, at its program point, to a pointer-wrapped (`var`)
declaration. -/
def Stmt.assignsWrapped (Γ : SEnv) : Stmt → Prop
  | .define _ _ => True
  | .declare _ _ => True
  | .assign x _ => lookStk x Γ = some true
  | .block b => Stmts.assignsWrapped ([] :: Γ) b
  | .ite _ t e => Stmts.assignsWrapped ([] :: Γ) t ∧ Stmts.assignsWrapped ([] :: Γ) e
def Stmts.assignsWrapped (Γ : SEnv) : Stmts → Prop
  | .nil => True
  | .ret _ => True
  | .cons s rest => Stmt.assignsWrapped Γ s ∧ Stmts.assignsWrapped (s.scopeAfter Γ) rest
end

theorem scope_of_trStmt {paren : Bool} {Γ : SEnv} {s : Stmt} {b : Bind} (h : trStmt paren Γ s = .ok b) :
    b.scope Γ = s.scopeAfter Γ := by
  cases s with
  | define x e =>
    simp only [trStmt] at h
    split at h
    · cases h
    · cases h; rfl
  | declare x e =>
    simp only [trStmt] at h
    split at h
    · cases h
    · cases h; rfl
  | assign x e =>
    simp only [trStmt] at h
    split at h
    · split at h
      · cases h
      · cases h; rfl
    · cases h
  | block b' =>
    simp only [trStmt] at h
    split at h
    · cases h
    · cases h; cases paren <;> rfl
  | ite c a b' =>
    simp only [trStmt] at h
    split at h
    · cases h
    · split at h
      · cases h
      · split at h
        · cases h
        · cases h; rfl

mutual
theorem assignsWrapped_stmts (paren : Bool) :
    (ss : Stmts) → ∀ (top : Bool) (Γ : SEnv) (t : T), trStmts paren top Γ ss = .ok t → Stmts.assignsWrapped Γ ss
  | .nil => by intros; simp [Stmts.assignsWrapped]
  | .ret e => by intros; simp [Stmts.assignsWrapped]
  | .cons s rest => by
    intro top Γ t ht
    simp only [trStmts] at ht
    cases hs : trStmt paren Γ s with
    | error m => simp [hs] at ht
    | ok b =>
      cases hr : trStmts paren top (b.scope Γ) rest with
      | error m => simp [hs, hr] at ht
      | ok r =>
        rw [scope_of_trStmt hs] at hr
        exact ⟨assignsWrapped_stmt paren s Γ b hs, assignsWrapped_stmts paren rest top _ r hr⟩
theorem assignsWrapped_stmt (paren : Bool) :
    (s : Stmt) → ∀ (Γ : SEnv) (b : Bind), trStmt paren Γ s = .ok b → Stmt.assignsWrapped Γ s
  | .define x e => by intros; simp [Stmt.assignsWrapped]
  | .declare x e => by intros; simp [Stmt.assignsWrapped]
  | .assign x e => by
    intro Γ b hb
    simp only [trStmt] at hb
    split at hb
    · next hw => exact hw
    · cases hb
  | .block b' => by
    intro Γ b hb
    simp only [trStmt] at hb
    cases hr : trStmts paren false ([] :: Γ) b' with
    | error m => simp [hr] at hb
    | ok r => exact assignsWrapped_stmts paren b' false _ r hr
  | .ite c a b' => by
    intro Γ b hb
    simp only [trStmt] at hb
    cases hc : trE Γ c with
    | error m => simp [hc] at hb
    | ok tc =>
      cases hra : trStmts paren false ([] :: Γ) a with
      | error m => simp [hc, hra] at hb
      | ok ra =>
        cases hrb : trStmts paren false ([] :: Γ) b' with
        | error m => simp [hc, hra, hrb] at hb
        | ok rb =>
          exact ⟨assignsWrapped_stmts paren a false _ ra hra, assignsWrapped_stmts paren b' false _ rb hrb⟩
end

end GooseVerif.Model.Scope
