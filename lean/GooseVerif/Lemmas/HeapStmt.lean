/-
Helper lemmas for the heap theorem, part 3: STATEMENTS.  The simulation by one mutual structural induction
over statements and statement lists, as in `Lemmas/Scope.lean`, now with heaps: on normal completion the
translation evaluates, the bijection has only grown (`Pre`), the heaps are related again and so are the
OUTER scope levels; on `return v` (function body only) the value is related to `v` and the heaps are related.
-/
import GooseVerif.Lemmas.HeapExp

namespace GooseVerif.Model.Heap

/-- What the translation `t` of a statement list must do when Go's outcome is `out`. -/
def Post (top : Bool) (R : List Nat) (Γ : SEnv) (envs : List Env) (res : Option (TVal × THeap)) : Out → Prop
  | .normal stk' G' => ∃ sc' st' tv H' R', stk' = sc' :: st' ∧ res = some (tv, H') ∧ Pre R R' ∧ HRel R' G' H' ∧
      Rel R' H' st' Γ envs
  | .returned v G' => top = true ∧ ∃ tv H' R', res = some (tv, H') ∧ Pre R R' ∧ VRel R' v tv ∧ HRel R' G' H'

/-- The statement of the simulation for a statement list (executed in the innermost scope `sc`). -/
def StmtsSound (ss : Stmts) : Prop :=
  ∀ (top : Bool) (ssc : SScope) (Γ : SEnv) (sc : Scope) (st : Stack) (esc : Env) (envs : List Env)
    (R : List Nat) (G : GHeap) (H : THeap) (t : T) (out : Out),
    trStmts true top (ssc :: Γ) ss = .ok t → Rel R H (sc :: st) (ssc :: Γ) (esc :: envs) → HRel R G H →
    execStmts (sc :: st) G ss = .ok out → Post top R Γ envs (evalT (esc ++ envs.flatten) H t) out

/-- … and for a statement that is not a declaration. -/
def StmtSound (s : Stmt) : Prop :=
  ∀ (Γ : SEnv) (stk : Stack) (envs : List Env) (R : List Nat) (G : GHeap) (H : THeap) (t : T) (out : Out),
    trStmt true Γ s = .ok (.anon t) → Rel R H stk Γ envs → HRel R G H → execStmt stk G s = .ok out →
    ∃ stk' G' tv H' R', out = .normal stk' G' ∧ evalT envs.flatten H t = some (tv, H') ∧ Pre R R' ∧
      HRel R' G' H' ∧ Rel R' H' stk' Γ envs

/-! ### assignment -/

theorem sound_assign (x : String) (e : Exp) : StmtSound (.assign x e) := by
  intro Γ stk envs R G H t out htr hrel hh hgo
  simp only [trStmt] at htr
  obtain ⟨⟨te, τe⟩, hte, htr⟩ := Except.bind'_ok htr
  match hw : lookStk x Γ with
  | none => simp [hw] at htr
  | some (false, σ) => simp [hw] at htr
  | some (true, σ) =>
    simp only [hw] at htr
    obtain ⟨_, hσ, htr2⟩ := Except.bind'_ok htr
    have hσ := expectTy_ok hσ
    simp at hσ htr2
    subst hσ htr2
    simp only [execStmt] at hgo
    obtain ⟨⟨v, G1⟩, h1, hgo⟩ := Res.bind_ok hgo
    obtain ⟨old, _, hgo⟩ := Res.bind_ok hgo
    obtain ⟨R1, H1, tv, e1, x1, r1, hty, hh1⟩ := sound_exp e R G H stk Γ envs te σ v G1 hte hrel hh h1
    have hrel1 := hrel.ext x1
    have hl := hrel1.lookup x
    rw [hw] at hl
    obtain ⟨v0, tv0, b0, _, hb0, hv0, hty0, hcell0, _⟩ := hl
    obtain ⟨b, stk', hu, hb, hblt, hbR, hrel2⟩ := hrel1.upd x σ v tv r1 hty hw
    rw [hb0] at hb
    simp at hb
    subst hb
    split at hgo
    · simp only [] at hgo
      obtain ⟨st', hst', hgo⟩ := Res.bind_ok hgo
      have hst' := ofOpt_ok hst'
      rw [hu] at hst'
      cases hst'
      simp at hgo
      subst hgo
      refine ⟨stk', G1, .unit, H1.set b0 (flatten tv), R1, rfl, ?_, x1.pre, hh1.set_other hbR _, hrel2⟩
      have hfl := flattenAs_of_VRel r1
      rw [hty] at hfl
      have hlen : (flatten tv).length = (flatten tv0).length := by
        rw [flatten_length_of_VRel r1, flatten_length_of_VRel hv0, hty, hty0]
      have hst := storeAt_whole hcell0 hlen
      simp [evalT, e1, hb0, asLoc, hfl, hst]
    · simp at hgo

/-! ### stores through pointers, into struct variables and into slices -/

/-- storing a related value of the field's type into one field of a related struct block -/
theorem field_update {R : List Nat} {f : Fld} {a b : Nat} {n : Option Nat} {w : BVal} (hw : PRel R n w)
    {v' : Val} {tv' : TVal} (hv : VRel R v' tv') (hty : v'.ty = f.ty) {s' : Nat × Nat × Option Nat}
    (hs : setField f a b n v' = .ok s') :
    ∃ c w', flattenAs f.ty tv' = some [c] ∧ [BVal.num a, .num b, w].set f.off c = [.num s'.1, .num s'.2.1, w'] ∧
      PRel R s'.2.2 w' := by
  cases f with
  | a =>
    cases v' <;> simp [Val.ty, Fld.ty] at hty
    next k =>
    simp [setField] at hs
    subst hs
    have := hv.num_inv
    subst this
    exact ⟨.num k, w, rfl, rfl, hw⟩
  | b =>
    cases v' <;> simp [Val.ty, Fld.ty] at hty
    next k =>
    simp [setField] at hs
    subst hs
    have := hv.num_inv
    subst this
    exact ⟨.num k, w, rfl, rfl, hw⟩
  | n =>
    cases v' <;> simp [Val.ty, Fld.ty] at hty
    next o =>
    simp [setField] at hs
    subst hs
    obtain ⟨c, rfl, hc⟩ := hv
    exact ⟨c, c, rfl, rfl, hc⟩

theorem sound_storeF (e : Exp) (f : Fld) (e' : Exp) : StmtSound (.storeF e f e') := by
  intro Γ stk envs R G H t out htr hrel hh hgo
  simp only [trStmt] at htr
  obtain ⟨te', hte', htr⟩ := tr_expect htr
  obtain ⟨⟨te, τe⟩, hte, htr⟩ := Except.bind'_ok htr
  simp only [execStmt] at hgo
  obtain ⟨⟨v', G1⟩, h1, hgo⟩ := Res.bind_ok hgo
  obtain ⟨⟨ve, G2⟩, h2, hgo⟩ := Res.bind_ok hgo
  simp only [] at h2 hgo
  obtain ⟨R1, H1, tv', e1, x1, r1, hty1, hh1⟩ := sound_exp e' R G H stk Γ envs te' f.ty v' G1 hte' hrel hh h1
  have hrel1 := hrel.ext x1
  cases τe with
  | ptrT =>
    obtain ⟨R2, H2, tve, e2, x2, r2, hty2, hh2⟩ := sound_exp e R1 G1 H1 stk Γ envs te .ptrT ve G2 hte hrel1 hh1 h2
    simp at htr
    subst htr
    cases ve <;> simp [Val.ty] at hty2
    next o =>
    cases o with
    | none => simp at hgo
    | some o =>
      simp only [] at hgo
      obtain ⟨s, hs, hgo⟩ := Res.bind_ok hgo
      obtain ⟨s', hs', hgo⟩ := Res.bind_ok hgo
      simp at hgo
      subst hgo
      obtain ⟨b, w, rfl, hb, hblk, hw⟩ := deref_ptrS hh2 r2 hs
      obtain ⟨c, w', hfl, hset, hw'⟩ := field_update hw (r1.mono x2.pre) hty1 hs'
      have hoff : f.off < [BVal.num s.1, .num s.2.1, w].length := by cases f <;> simp [Fld.off]
      have hst := storeAt_one c hblk hoff
      rw [hset] at hst
      refine ⟨stk, _, .unit, _, R2, rfl, ?_, (x1.trans x2).pre,
        hh2.set_obj hb (.str s'.1 s'.2.1 s'.2.2) _ ⟨w', rfl, hw'⟩,
        (hrel1.ext x2).set_obj (mem_of_getElem? hb) _⟩
      simp [evalT, e1, e2, asLoc, hfl, hst]
  | str =>
    cases e with
    | var x =>
      simp only [trE] at hte
      match hw : lookStk x Γ with
      | none => simp [hw] at hte
      | some (false, σ) => simp [hw] at htr
      | some (true, σ) =>
        -- the variable is `var`-declared: otherwise the guarded translator refuses
        simp [hw] at hte htr
        obtain ⟨_, rfl⟩ := hte
        subst htr
        have hl := hrel1.lookup x
        rw [hw] at hl
        obtain ⟨v0, tv0, b0, hv0s, hb0, hv0, hty0, hcell0, _⟩ := hl
        -- evaluating the variable does not change the heap and gives the variable's struct value
        simp only [evalE, hv0s, ofOpt, Res.bind] at h2
        simp at h2
        obtain ⟨rfl, rfl⟩ := h2
        cases v0 <;> simp [Val.ty] at hty0
        next a b n =>
        simp only [] at hgo
        obtain ⟨s', hs', hgo⟩ := Res.bind_ok hgo
        obtain ⟨st', hst', hgo⟩ := Res.bind_ok hgo
        have hst' := ofOpt_ok hst'
        simp at hgo
        subst hgo
        obtain ⟨w, rfl, hw0⟩ := hv0
        obtain ⟨c, w', hfl, hset, hw'⟩ := field_update hw0 r1 hty1 hs'
        have hnew : VRel R1 (.str s'.1 s'.2.1 s'.2.2) (.str (.num s'.1) (.num s'.2.1) w') := ⟨w', rfl, hw'⟩
        obtain ⟨b, stk', hu, hb, hblt, hbR, hrel2⟩ := hrel1.upd x .str _ _ hnew rfl hw
        rw [hb0] at hb
        simp at hb
        subst hb
        rw [hu] at hst'
        cases hst'
        have hoff : f.off < (flatten (.str (.num a) (.num b) w)).length := by cases f <;> simp [Fld.off, flatten]
        have hst := storeAt_one c hcell0 hoff
        simp only [flatten] at hst
        rw [hset] at hst
        refine ⟨st', G1, .unit, _, R1, rfl, ?_, x1.pre, hh1.set_other hbR _, hrel2⟩
        simp [evalT, e1, hb0, asLoc, hfl, hst, flatten]
    | lit _ => simp at htr
    | add _ _ => simp at htr
    | mk _ _ _ _ _ _ _ => simp at htr
    | sel _ _ => simp at htr
    | deref _ => simp at htr
    | newN => simp at htr
    | make _ => simp at htr
    | idx _ _ => simp at htr
    | len _ => simp at htr
    | sub _ _ _ => simp at htr
    | take _ _ => simp at htr
    | skip _ _ => simp at htr
  | u64 => simp at htr
  | ptrN => simp at htr
  | sl => simp at htr

theorem sound_storeP (e e' : Exp) : StmtSound (.storeP e e') := by
  intro Γ stk envs R G H t out htr hrel hh hgo
  simp only [trStmt] at htr
  obtain ⟨⟨te', τ'⟩, hte', htr⟩ := Except.bind'_ok htr
  obtain ⟨⟨te, τe⟩, hte, htr⟩ := Except.bind'_ok htr
  simp only [execStmt] at hgo
  obtain ⟨⟨v', G1⟩, h1, hgo⟩ := Res.bind_ok hgo
  obtain ⟨⟨ve, G2⟩, h2, hgo⟩ := Res.bind_ok hgo
  simp only [] at h2 hgo
  obtain ⟨R1, H1, tv', e1, x1, r1, hty1, hh1⟩ := sound_exp e' R G H stk Γ envs te' τ' v' G1 hte' hrel hh h1
  have hrel1 := hrel.ext x1
  obtain ⟨R2, H2, tve, e2, x2, r2, hty2, hh2⟩ := sound_exp e R1 G1 H1 stk Γ envs te τe ve G2 hte hrel1 hh1 h2
  have r1' := r1.mono x2.pre
  cases τe with
  | ptrT =>
    simp only [] at htr
    obtain ⟨_, hσ, htr2⟩ := Except.bind'_ok htr
    have hσ := expectTy_ok hσ
    simp at hσ htr2
    subst hσ htr2
    cases ve with
    | ptrS o =>
      cases v' with
      | str a b n =>
        cases o with
        | none => simp at hgo
        | some o =>
          simp only [] at hgo
          obtain ⟨s, hs, hgo⟩ := Res.bind_ok hgo
          simp at hgo
          subst hgo
          obtain ⟨bk, w, rfl, hb, hblk, _⟩ := deref_ptrS hh2 r2 hs
          obtain ⟨w', rfl, hw'⟩ := r1'
          have hst := storeAt_whole (cells := [.num a, .num b, w']) hblk rfl
          refine ⟨stk, _, .unit, _, R2, rfl, ?_, (x1.trans x2).pre,
            hh2.set_obj hb (.str a b n) _ ⟨w', rfl, hw'⟩, (hrel1.ext x2).set_obj (mem_of_getElem? hb) _⟩
          simp [evalT, e1, e2, asLoc, flattenAs, hst]
      | _ => simp [Val.ty] at hty1
    | _ => simp [Val.ty] at hty2
  | ptrN =>
    simp only [] at htr
    obtain ⟨_, hσ, htr2⟩ := Except.bind'_ok htr
    have hσ := expectTy_ok hσ
    simp at hσ htr2
    subst hσ htr2
    cases ve with
    | ptrN o =>
      cases v' with
      | num k =>
        simp only [] at hgo
        obtain ⟨c, hc, hgo⟩ := Res.bind_ok hgo
        simp at hgo
        subst hgo
        obtain ⟨bk, hb, rfl⟩ := r2
        obtain ⟨b', blk, h3, h4, h5⟩ := hh2.obj o _ (getCell_ok hc)
        rw [hb] at h3
        cases h3
        simp [ObjRel] at h5
        subst h5
        have := r1'.num_inv
        subst this
        have hst := storeAt_whole (cells := [.num k]) h4 rfl
        refine ⟨stk, _, .unit, _, R2, rfl, ?_, (x1.trans x2).pre,
          hh2.set_obj hb (.cell k) [.num k] (by simp [ObjRel]), (hrel1.ext x2).set_obj (mem_of_getElem? hb) _⟩
        simp [evalT, e1, e2, asLoc, flattenAs, hst]
      | _ => simp [Val.ty] at hty1
    | _ => simp [Val.ty] at hty2
  | u64 => simp at htr
  | str => simp at htr
  | sl => simp at htr

theorem sound_setIdx (s i e' : Exp) : StmtSound (.setIdx s i e') := by
  intro Γ stk envs R G H t out htr hrel hh hgo
  simp only [trStmt] at htr
  obtain ⟨te', hte', htr⟩ := tr_expect htr
  obtain ⟨ts, hts, htr⟩ := tr_expect htr
  obtain ⟨ti, hti, htr⟩ := tr_expect htr
  simp at htr
  subst htr
  simp only [execStmt] at hgo
  obtain ⟨x, G0, h0, hgo⟩ := go_num hgo
  obtain ⟨k, G1, h1, hgo⟩ := go_num hgo
  obtain ⟨o, off, l, c, G2, h2, hgo⟩ := go_sl hgo
  simp only [] at h1 h2 hgo
  obtain ⟨R0, H0, tv0, e0, x0, r0, _, hh0⟩ := sound_exp e' R G H stk Γ envs te' .u64 _ G0 hte' hrel hh h0
  obtain ⟨R1, H1, tv1, e1, x1, r1, _, hh1⟩ := sound_exp i R0 G0 H0 stk Γ envs ti .u64 _ G1 hti (hrel.ext x0) hh0 h1
  obtain ⟨R2, H2, tv2, e2, x2, r2, _, hh2⟩ :=
    sound_exp s R1 G1 H1 stk Γ envs ts .sl _ G2 hts ((hrel.ext x0).ext x1) hh1 h2
  have r0 := r0.num_inv
  have r1 := r1.num_inv
  subst r0 r1
  by_cases hk : k < l
  · simp only [hk, if_true] at hgo
    obtain ⟨vs, hvs, hgo⟩ := Res.bind_ok hgo
    by_cases hlt : off + k < vs.length
    · simp [hlt] at hgo
      subst hgo
      have hle : l ≤ c := by obtain ⟨_, _, hle, _⟩ := r2; exact hle
      obtain ⟨b, rfl, hb, hblk⟩ := slice_block hh2 r2 (by omega) hvs
      have hst := storeAt_one (.num x) hblk (by simpa using hlt)
      refine ⟨stk, _, .unit, _, R2, rfl, ?_, ((x0.trans x1).trans x2).pre,
        hh2.set_obj hb (.arr (vs.set (off + k) x)) ((vs.map BVal.num).set (off + k) (.num x)) (by simp [ObjRel]),
        (((hrel.ext x0).ext x1).ext x2).set_obj (mem_of_getElem? hb) _⟩
      simp [evalT, e0, e1, e2, asNumT, asSlT, hk, BVal.addOff, asLoc, flattenAs, hst]
    · simp [hlt] at hgo
  · simp [hk] at hgo

/-! ### blocks and conditionals -/

/-- A block body, run in a fresh scope on both sides. -/
theorem sound_body {b : Stmts} (ih : StmtsSound b) {Γ : SEnv} {stk : Stack} {envs : List Env} {R : List Nat}
    {G : GHeap} {H : THeap} {t : T} {out : Out} (ht : trStmts true false ([] :: Γ) b = .ok t)
    (r : Rel R H stk Γ envs) (hh : HRel R G H) (hx : popOut (execStmts ([] :: stk) G b) = .ok out) :
    ∃ stk' G' tv H' R', out = .normal stk' G' ∧ evalT envs.flatten H t = some (tv, H') ∧ Pre R R' ∧
      HRel R' G' H' ∧ Rel R' H' stk' Γ envs := by
  cases hb : execStmts ([] :: stk) G b with
  | panic => simp [hb, popOut] at hx
  | bad => simp [hb, popOut] at hx
  | ok o =>
    have hp := ih false [] Γ [] stk [] envs R G H t o ht (.cons .nil r) hh hb
    cases o with
    | returned v G' => simp [Post] at hp
    | normal stk1 G1 =>
      obtain ⟨sc', st', tv, H', R', h1, h2, h3, h4, h5⟩ := hp
      simp [hb, popOut] at hx
      subst hx h1
      exact ⟨st', G1, tv, H', R', rfl, by simpa using h2, h3, h4, h5⟩

theorem sound_block (b : Stmts) (ih : StmtsSound b) : StmtSound (.block b) := by
  intro Γ stk envs R G H t out htr hrel hh hgo
  simp only [trStmt] at htr
  obtain ⟨tb, htb, htr⟩ := Except.bind'_ok htr
  simp at htr
  subst htr
  simp only [execStmt] at hgo
  exact sound_body ih htb hrel hh hgo

theorem sound_ite (c : Exp) (a b : Stmts) (iha : StmtsSound a) (ihb : StmtsSound b) : StmtSound (.ite c a b) := by
  intro Γ stk envs R G H t out htr hrel hh hgo
  simp only [trStmt] at htr
  obtain ⟨tc, htc, htr⟩ := tr_expect htr
  obtain ⟨ta, hta, htr⟩ := Except.bind'_ok htr
  obtain ⟨tb, htb, htr⟩ := Except.bind'_ok htr
  simp at htr
  subst htr
  simp only [execStmt] at hgo
  obtain ⟨n, G1, h1, hgo⟩ := go_num hgo
  simp only [] at hgo
  obtain ⟨R1, H1, tv1, e1, x1, r1, _, hh1⟩ := sound_exp c R G H stk Γ envs tc .u64 _ G1 htc hrel hh h1
  have r1 := r1.num_inv
  subst r1
  by_cases hn : n = 0
  · simp only [hn, if_true] at hgo
    obtain ⟨stk', G', tv, H', R', h2, h3, h4, h5, h6⟩ := sound_body ihb htb (hrel.ext x1) hh1 hgo
    exact ⟨stk', G', tv, H', R', h2, by simp [evalT, e1, asNumT, hn, h3], x1.pre.trans h4, h5, h6⟩
  · simp only [hn, if_false] at hgo
    obtain ⟨stk', G', tv, H', R', h2, h3, h4, h5, h6⟩ := sound_body iha hta (hrel.ext x1) hh1 hgo
    exact ⟨stk', G', tv, H', R', h2, by simp [evalT, e1, asNumT, hn, h3], x1.pre.trans h4, h5, h6⟩

/-! ### statement lists -/

theorem Post.pre {top : Bool} {R R1 : List Nat} {Γ : SEnv} {envs : List Env} {res : Option (TVal × THeap)} {out : Out}
    (a : Pre R R1) (h : Post top R1 Γ envs res out) : Post top R Γ envs res out := by
  cases out with
  | normal stk' G' =>
    obtain ⟨sc', st', tv, H', R', h1, h2, h3, h4, h5⟩ := h
    exact ⟨sc', st', tv, H', R', h1, h2, a.trans h3, h4, h5⟩
  | returned v G' =>
    obtain ⟨h0, tv, H', R', h1, h2, h3, h4⟩ := h
    exact ⟨h0, tv, H', R', h1, a.trans h2, h3, h4⟩

/-- A statement that is not a declaration, followed by the rest of its list. -/
theorem sound_cons_anon {s : Stmt} {rest : Stmts} (hs : StmtSound s) (hrest : StmtsSound rest)
    (hanon : ∀ Γ b, trStmt true Γ s = .ok b → ∃ t, b = .anon t) : StmtsSound (.cons s rest) := by
  intro top ssc Γ sc st esc envs R G H t out htr hrel hh hgo
  simp only [trStmts] at htr
  obtain ⟨b, hts, htr⟩ := Except.bind'_ok htr
  obtain ⟨ts, rfl⟩ := hanon _ b hts
  obtain ⟨tr, htrest, htr⟩ := Except.bind'_ok htr
  simp [Bind.scope] at htrest
  simp at htr
  simp only [execStmts] at hgo
  cases hes : execStmt (sc :: st) G s with
  | panic => simp [hes] at hgo
  | bad => simp [hes] at hgo
  | ok o =>
    obtain ⟨stk1, G1, tv1, H1, R1, ho, hev, hpre, hh1, r1⟩ := hs (ssc :: Γ) (sc :: st) (esc :: envs) R G H ts o hts hrel hh hes
    subst ho
    simp [hes] at hgo
    rw [List.flatten_cons] at hev
    cases r1 with
    | @cons sc1 _ _ st1 _ _ rs1 rt1 =>
      by_cases hnil : rest.isNil = true
      · have := Stmts.eq_nil_of_isNil hnil
        subst this
        simp [Stmts.isNil, Bind.addTo] at htr
        subst htr
        simp [execStmts] at hgo
        subst hgo
        exact ⟨sc1, st1, tv1, H1, R1, rfl, hev, hpre, hh1, rt1⟩
      · simp [hnil, Bind.addTo] at htr
        subst htr
        have hp := hrest top ssc Γ sc1 st1 esc envs R1 G1 H1 tr out htrest (.cons rs1 rt1) hh1 hgo
        have hp := hp.pre hpre
        simpa [evalT, hev] using hp

theorem sound_cons_define (x : String) (e : Exp) {rest : Stmts} (hrest : StmtsSound rest) :
    StmtsSound (.cons (.define x e) rest) := by
  intro top ssc Γ sc st esc envs R G H t out htr hrel hh hgo
  simp only [trStmts, trStmt] at htr
  obtain ⟨b, hts, htr⟩ := Except.bind'_ok htr
  obtain ⟨⟨te, τ⟩, hte, hts⟩ := Except.bind'_ok hts
  simp at hts
  subst hts
  obtain ⟨tr, htrest, htr⟩ := Except.bind'_ok htr
  simp [Bind.scope, bindStk] at htrest
  simp [Bind.addTo] at htr
  subst htr
  simp only [execStmts, execStmt] at hgo
  cases hev : evalE (sc :: st) G e with
  | panic => simp [hev, Res.bind] at hgo
  | bad => simp [hev, Res.bind] at hgo
  | ok r =>
    obtain ⟨v, G1⟩ := r
    simp [hev, Res.bind, bindStk] at hgo
    obtain ⟨R1, H1, tv, e1, x1, r1, hty, hh1⟩ := sound_exp e R G H (sc :: st) (ssc :: Γ) (esc :: envs) te τ v G1 hte hrel hh hev
    rw [List.flatten_cons] at e1
    cases hrel.ext x1 with
    | cons rs rt =>
      have hp := hrest top ((x, false, τ) :: ssc) Γ ((x, v) :: sc) st ((x, tv) :: esc) envs R1 G1 H1 tr out htrest
        (.cons (.val x v tv τ rs r1 hty) rt) hh1 hgo
      have hp := hp.pre x1.pre
      simpa [evalT, e1] using hp

theorem sound_cons_declare (x : String) (e : Exp) {rest : Stmts} (hrest : StmtsSound rest) :
    StmtsSound (.cons (.declare x e) rest) := by
  intro top ssc Γ sc st esc envs R G H t out htr hrel hh hgo
  simp only [trStmts, trStmt] at htr
  obtain ⟨b, hts, htr⟩ := Except.bind'_ok htr
  obtain ⟨⟨te, τ⟩, hte, hts⟩ := Except.bind'_ok hts
  simp at hts
  subst hts
  obtain ⟨tr, htrest, htr⟩ := Except.bind'_ok htr
  simp [Bind.scope, bindStk] at htrest
  simp [Bind.addTo] at htr
  subst htr
  simp only [execStmts, execStmt] at hgo
  cases hev : evalE (sc :: st) G e with
  | panic => simp [hev, Res.bind] at hgo
  | bad => simp [hev, Res.bind] at hgo
  | ok r =>
    obtain ⟨v, G1⟩ := r
    simp [hev, Res.bind, bindStk] at hgo
    obtain ⟨R1, H1, tv, e1, x1, r1, hty, hh1⟩ := sound_exp e R G H (sc :: st) (ssc :: Γ) (esc :: envs) te τ v G1 hte hrel hh hev
    rw [List.flatten_cons] at e1
    have hrel1 := hrel.ext x1
    have hfr := hrel1.fresh_length hh1.bound
    rw [List.flatten_cons] at hfr
    have hnotin : H1.length ∉ R1 := fun hm => Nat.lt_irrefl _ (hh1.bound _ hm)
    cases hrel1.ext (Ext.cell R1 H1 (flatten tv)) with
    | cons rs rt =>
      have hcell : (H1 ++ [flatten tv])[H1.length]? = some (flatten tv) := by simp
      have hp := hrest top ((x, true, τ) :: ssc) Γ ((x, v) :: sc) st ((x, .base (.loc H1.length 0)) :: esc) envs R1 G1
        (H1 ++ [flatten tv]) tr out htrest
        (.cons (.cell x v tv τ H1.length rs r1 hty hnotin hcell hfr) rt) (hh1.grow _) hgo
      have hp := hp.pre x1.pre
      simpa [evalT, e1] using hp

theorem sound_nil : StmtsSound .nil := by
  intro top ssc Γ sc st esc envs R G H t out htr hrel hh hgo
  cases top with
  | true => simp [trStmts] at htr
  | false =>
    simp [trStmts] at htr
    simp [execStmts] at hgo
    subst htr hgo
    cases hrel with
    | cons rs rt => exact ⟨sc, st, .unit, H, R, rfl, by simp [evalT], Pre.refl R, hh, rt⟩

theorem sound_ret (e : Exp) : StmtsSound (.ret e) := by
  intro top ssc Γ sc st esc envs R G H t out htr hrel hh hgo
  cases top with
  | false => simp [trStmts] at htr
  | true =>
    simp only [trStmts, if_true] at htr
    obtain ⟨⟨te, τ⟩, hte, htr⟩ := Except.bind'_ok htr
    simp at htr
    subst htr
    simp only [execStmts] at hgo
    obtain ⟨⟨v, G1⟩, hev, hgo⟩ := Res.bind_ok hgo
    simp at hgo
    subst hgo
    obtain ⟨R1, H1, tv, e1, x1, r1, _, hh1⟩ := sound_exp e R G H (sc :: st) (ssc :: Γ) (esc :: envs) te τ v G1 hte hrel hh hev
    rw [List.flatten_cons] at e1
    exact ⟨rfl, tv, H1, R1, e1, x1.pre, r1, hh1⟩

/-- the statements that are not declarations translate to anonymous bindings -/
theorem anon_of_tr {Γ : SEnv} {s : Stmt} {b : Bind} (h : trStmt true Γ s = .ok b)
    (hs : ∀ x e, s ≠ .define x e ∧ s ≠ .declare x e) : ∃ t, b = .anon t := by
  cases s with
  | define x e => exact absurd rfl (hs x e).1
  | declare x e => exact absurd rfl (hs x e).2
  | assign x e =>
    simp only [trStmt] at h
    obtain ⟨r, _, h⟩ := Except.bind'_ok h
    split at h
    · obtain ⟨_, _, h⟩ := Except.bind'_ok h
      simp at h
      exact ⟨_, h.symm⟩
    · simp at h
    · simp at h
  | storeF e f e' =>
    simp only [trStmt] at h
    obtain ⟨r', _, h⟩ := Except.bind'_ok h
    obtain ⟨_, _, h⟩ := Except.bind'_ok h
    obtain ⟨r, _, h⟩ := Except.bind'_ok h
    split at h
    · simp at h; exact ⟨_, h.symm⟩
    · split at h
      · split at h
        · simp at h
        · simp at h; exact ⟨_, h.symm⟩
      · simp at h
    · simp at h
  | storeP e e' =>
    simp only [trStmt] at h
    obtain ⟨r', _, h⟩ := Except.bind'_ok h
    obtain ⟨r, _, h⟩ := Except.bind'_ok h
    split at h
    · obtain ⟨_, _, h⟩ := Except.bind'_ok h
      simp at h
      exact ⟨_, h.symm⟩
    · obtain ⟨_, _, h⟩ := Except.bind'_ok h
      simp at h
      exact ⟨_, h.symm⟩
    · simp at h
  | setIdx s i e' =>
    simp only [trStmt] at h
    obtain ⟨_, _, h⟩ := tr_expect h
    obtain ⟨_, _, h⟩ := tr_expect h
    obtain ⟨_, _, h⟩ := tr_expect h
    simp at h
    exact ⟨_, h.symm⟩
  | block b' =>
    simp only [trStmt] at h
    obtain ⟨_, _, h⟩ := Except.bind'_ok h
    simp at h
    exact ⟨_, h.symm⟩
  | ite c a b' =>
    simp only [trStmt] at h
    obtain ⟨_, _, h⟩ := tr_expect h
    obtain ⟨_, _, h⟩ := Except.bind'_ok h
    obtain ⟨_, _, h⟩ := Except.bind'_ok h
    simp at h
    exact ⟨_, h.symm⟩

mutual
/-- The simulation, by one mutual structural induction over statements and statement lists. -/
theorem sound_stmts : (ss : Stmts) → StmtsSound ss
  | .nil => sound_nil
  | .ret e => sound_ret e
  | .cons (.define x e) rest => sound_cons_define x e (sound_stmts rest)
  | .cons (.declare x e) rest => sound_cons_declare x e (sound_stmts rest)
  | .cons (.assign x e) rest =>
    sound_cons_anon (sound_stmt (.assign x e)) (sound_stmts rest) (fun _ _ h => anon_of_tr h (by intros; simp))
  | .cons (.storeF e f e') rest =>
    sound_cons_anon (sound_stmt (.storeF e f e')) (sound_stmts rest) (fun _ _ h => anon_of_tr h (by intros; simp))
  | .cons (.storeP e e') rest =>
    sound_cons_anon (sound_stmt (.storeP e e')) (sound_stmts rest) (fun _ _ h => anon_of_tr h (by intros; simp))
  | .cons (.setIdx s i e') rest =>
    sound_cons_anon (sound_stmt (.setIdx s i e')) (sound_stmts rest) (fun _ _ h => anon_of_tr h (by intros; simp))
  | .cons (.block b) rest =>
    sound_cons_anon (sound_stmt (.block b)) (sound_stmts rest) (fun _ _ h => anon_of_tr h (by intros; simp))
  | .cons (.ite c a b) rest =>
    sound_cons_anon (sound_stmt (.ite c a b)) (sound_stmts rest) (fun _ _ h => anon_of_tr h (by intros; simp))
theorem sound_stmt : (s : Stmt) → StmtSound s
  | .define x e => by
    intro Γ stk envs R G H t out ht
    simp only [trStmt] at ht
    obtain ⟨_, _, ht⟩ := Except.bind'_ok ht
    simp at ht
  | .declare x e => by
    intro Γ stk envs R G H t out ht
    simp only [trStmt] at ht
    obtain ⟨_, _, ht⟩ := Except.bind'_ok ht
    simp at ht
  | .assign x e => sound_assign x e
  | .storeF e f e' => sound_storeF e f e'
  | .storeP e e' => sound_storeP e e'
  | .setIdx s i e' => sound_setIdx s i e'
  | .block b => sound_block b (sound_stmts b)
  | .ite c a b => sound_ite c a b (sound_stmts a) (sound_stmts b)
end

end GooseVerif.Model.Heap
