/-
Helper lemmas for C05 (comment sanitising and the lexer's comment/string scanners).
-/
import GooseVerif.Model.Sanitize
import GooseVerif.GL.Lex

namespace GooseVerif.Lemmas.Sanitize
open GooseVerif.Model.Sanitize GooseVerif.GL

/-! ### `replace2` and `hasPair` -/

theorem replace2_nil (a b : Char) (rep : List Char) : replace2 a b rep [] = [] := by
  simp [replace2]

theorem replace2_single (a b : Char) (rep : List Char) (x : Char) :
    replace2 a b rep [x] = [x] := by
  simp [replace2]

theorem replace2_hit (a b : Char) (rep rest : List Char) :
    replace2 a b rep (a :: b :: rest) = rep ++ replace2 a b rep rest := by
  simp [replace2]

theorem replace2_miss (a b : Char) (rep rest : List Char) (x y : Char) (h : ¬(x = a ∧ y = b)) :
    replace2 a b rep (x :: y :: rest) = x :: replace2 a b rep (y :: rest) := by
  simp only [replace2, h, if_false]

theorem hasPair_cons2 (p q x y : Char) (l : List Char) :
    hasPair p q (x :: y :: l) = ((x == p && y == q) || hasPair p q (y :: l)) := by
  simp [hasPair]

/-- The replacement starts with the first pattern character, so the head is unchanged. -/
theorem head_replace2 (a s b : Char) (l : List Char) :
    (replace2 a b [a, s, b] l).head? = l.head? := by
  match l with
  | [] => simp [replace2]
  | [x] => simp [replace2]
  | x :: y :: rest =>
    by_cases h : x = a ∧ y = b
    · rw [h.1, h.2, replace2_hit]; simp
    · rw [replace2_miss _ _ _ _ _ _ h]; simp

/-- `hasPair` on a cons only looks at the head of the tail. -/
theorem hasPair_cons (p q x : Char) (l : List Char) :
    hasPair p q (x :: l) = ((x == p && l.head? == some q) || hasPair p q l) := by
  match l with
  | [] => simp [hasPair]
  | [y] => simp [hasPair]
  | y :: z :: r => rw [hasPair_cons2]; simp

/-- After `ReplaceAll a b → a s b` (with `s` different from both) the pattern is gone. -/
theorem hasPair_replace2_self (a s b : Char) (hsa : s ≠ a) (hsb : s ≠ b) (hab : a ≠ b)
    (l : List Char) : hasPair a b (replace2 a b [a, s, b] l) = false := by
  induction l using replace2.induct a b with
  | case1 => simp [replace2, hasPair]
  | case2 x => simp [replace2, hasPair]
  | case3 x y rest h ih =>
    rw [h.1, h.2, replace2_hit]
    have hba : b ≠ a := fun e => hab e.symm
    simp only [List.cons_append, List.nil_append, hasPair_cons2]
    rw [hasPair_cons, ih]
    simp [hsa, hsb, hba]
  | case4 x y rest h ih =>
    rw [replace2_miss _ _ _ _ _ _ h, hasPair_cons, ih, head_replace2]
    simp only [List.head?_cons, Bool.or_false]
    by_cases hx : x = a
    · have : y ≠ b := fun e => h ⟨hx, e⟩
      simp [this]
    · simp [hx]

/-- Replacing `a b → a s b` does not create a pair `p q` when `s` is neither `p` nor `q`. -/
theorem hasPair_replace2_other (p q a s b : Char) (hsp : s ≠ p) (hsq : s ≠ q)
    (l : List Char) (h : hasPair p q l = false) :
    hasPair p q (replace2 a b [a, s, b] l) = false := by
  induction l using replace2.induct a b with
  | case1 => simp [replace2, hasPair]
  | case2 x => simp [replace2, hasPair]
  | case3 x y rest hxy ih =>
    rw [hxy.1, hxy.2] at h
    rw [hxy.1, hxy.2, replace2_hit]
    rw [hasPair_cons2, hasPair_cons] at h
    simp only [Bool.or_eq_false_iff] at h
    obtain ⟨_, h2, h3⟩ := h
    simp only [List.cons_append, List.nil_append, hasPair_cons2]
    rw [hasPair_cons, ih h3, head_replace2]
    simp [hsp, hsq, h2]
  | case4 x y rest hxy ih =>
    rw [hasPair_cons] at h
    simp only [Bool.or_eq_false_iff] at h
    rw [replace2_miss _ _ _ _ _ _ hxy, hasPair_cons, ih h.2, head_replace2, h.1]
    rfl

/-- `ReplaceAll` is the identity when the pattern does not occur. -/
theorem replace2_id (a b : Char) (rep l : List Char) (h : hasPair a b l = false) :
    replace2 a b rep l = l := by
  induction l using replace2.induct a b with
  | case1 => simp [replace2]
  | case2 x => simp [replace2]
  | case3 x y rest hxy ih =>
    rw [hxy.1, hxy.2, hasPair_cons2] at h
    simp at h
  | case4 x y rest hxy ih =>
    rw [hasPair_cons] at h
    simp only [Bool.or_eq_false_iff] at h
    rw [replace2_miss _ _ _ _ _ _ hxy, ih h.2]

/-- Only `s` is inserted: any filter that drops `s` sees the same text. -/
theorem filter_replace2 (f : Char → Bool) (a s b : Char) (hs : f s = false) (l : List Char) :
    (replace2 a b [a, s, b] l).filter f = l.filter f := by
  induction l using replace2.induct a b with
  | case1 => simp [replace2]
  | case2 x => simp [replace2]
  | case3 x y rest hxy ih =>
    rw [hxy.1, hxy.2, replace2_hit]
    simp [List.filter_cons, hs, ih]
  | case4 x y rest hxy ih =>
    rw [replace2_miss _ _ _ _ _ _ hxy]
    simp only [List.filter_cons, ih]

theorem count_replace2 (x a s b : Char) (hs : s ≠ x) (l : List Char) :
    (replace2 a b [a, s, b] l).count x = l.count x := by
  rw [List.count_eq_length_filter, List.count_eq_length_filter]
  rw [filter_replace2]
  simp [hs]

theorem inStringAfter_replace2 (a s b : Char) (hs : s ≠ '"') (l : List Char) :
    ∀ m, inStringAfter m (replace2 a b [a, s, b] l) = inStringAfter m l := by
  induction l using replace2.induct a b with
  | case1 => simp [replace2]
  | case2 x => simp [replace2]
  | case3 x y rest hxy ih =>
    intro m
    rw [hxy.1, hxy.2, replace2_hit]
    simp [inStringAfter, hs, ih]
  | case4 x y rest hxy ih =>
    intro m
    rw [replace2_miss _ _ _ _ _ _ hxy]
    simp only [inStringAfter, ih]

/-! ### the lexer's comment scanner -/

theorem skipComment_str_step (fuel depth : Nat) (x : Char) (cs : List Char) :
    skipComment (fuel + 1) depth true (x :: cs) =
      skipComment fuel depth (if x = '"' then false else true) cs := by
  by_cases h : x = '"' <;> simp [skipComment, h]

/-- Outside a string, a character that is not a quote and does not start `(*` or `*)` is skipped. -/
theorem skipComment_plain_step (fuel depth : Nat) (x : Char) (cs : List Char)
    (hq : x ≠ '"') (ho : ¬(x = '(' ∧ cs.head? = some '*')) (hc : ¬(x = '*' ∧ cs.head? = some ')')) :
    skipComment (fuel + 1) depth false (x :: cs) = skipComment fuel depth false cs := by
  simp only [skipComment]
  split
  · exact absurd rfl hq
  · exact absurd ⟨rfl, rfl⟩ ho
  · exact absurd ⟨rfl, rfl⟩ hc
  · rfl

theorem skipComment_quote_step (fuel depth : Nat) (cs : List Char) :
    skipComment (fuel + 1) depth false ('"' :: cs) = skipComment fuel depth true cs := by
  simp [skipComment]

theorem skipComment_close (fuel : Nat) (rest : List Char) :
    skipComment (fuel + 1) 1 false ('*' :: ')' :: rest) = some rest := by
  simp [skipComment]

/-- One step of the scanner on a character `x` followed by `cs`, when `x` and the head of `cs`
form neither delimiter: the mode toggles on a quote and nothing else happens. -/
theorem skipComment_step (fuel depth : Nat) (m : Bool) (x : Char) (cs : List Char)
    (ho : ¬(x = '(' ∧ cs.head? = some '*')) (hc : ¬(x = '*' ∧ cs.head? = some ')')) :
    skipComment (fuel + 1) depth m (x :: cs) =
      skipComment fuel depth (if x = '"' then !m else m) cs := by
  cases m with
  | true => rw [skipComment_str_step]; by_cases h : x = '"' <;> simp [h]
  | false =>
    by_cases h : x = '"'
    · rw [h, skipComment_quote_step]; simp
    · rw [skipComment_plain_step _ _ _ _ h ho hc]; simp [h]

/-- A text `t` without `(*` and `*)` is skipped character by character, in whatever mode, as long
as its last character does not combine with what follows (`u` starts with neither `*` nor `)`). -/
theorem skipComment_through (t u : List Char)
    (ho : hasPair '(' '*' t = false) (hc : hasPair '*' ')' t = false)
    (hu1 : u.head? ≠ some '*') (hu2 : u.head? ≠ some ')') :
    ∀ (n depth : Nat) (m : Bool),
      skipComment (t.length + n) depth m (t ++ u) = skipComment n depth (inStringAfter m t) u := by
  induction t with
  | nil => intro n depth m; simp [inStringAfter]
  | cons x t ih =>
    intro n depth m
    rw [hasPair_cons] at ho hc
    simp only [Bool.or_eq_false_iff] at ho hc
    have e : (x :: t).length + n = (t.length + n) + 1 := by simp; omega
    rw [e, List.cons_append, skipComment_step, ih ho.2 hc.2]
    · rfl
    · intro ⟨hx, hh⟩
      cases t with
      | nil => exact hu1 (by simpa using hh)
      | cons y t => have := ho.1; simp [hx] at this; simp at hh; exact this hh
    · intro ⟨hx, hh⟩
      cases t with
      | nil => exact hu2 (by simpa using hh)
      | cons y t => have := hc.1; simp [hx] at this; simp at hh; exact this hh

/-- A comment body without delimiters and with balanced quotes, followed by the ` *)` goose
prints, is skipped exactly up to and including that `*)`. -/
theorem skipComment_body (t rest : List Char)
    (ho : hasPair '(' '*' t = false) (hc : hasPair '*' ')' t = false)
    (hq : inStringAfter false t = false) (n : Nat) :
    skipComment (t.length + 2 + n) 1 false (t ++ [' ', '*', ')'] ++ rest) = some rest := by
  have e : t.length + 2 + n = t.length + (n + 2) := by omega
  rw [e, List.append_assoc, skipComment_through t _ ho hc (by simp) (by simp), hq]
  simp only [List.cons_append, List.nil_append]
  rw [skipComment_plain_step _ _ _ _ (by decide) (by simp) (by simp), skipComment_close]

/-- With an odd number of quotes the scanner is still in string mode when the text ends: the rest
of the file is scanned in string mode. Without a further quote it never terminates. -/
theorem skipComment_open_string (l : List Char) (hq : '"' ∉ l) :
    ∀ fuel depth, skipComment fuel depth true l = none := by
  induction l with
  | nil => intro fuel depth; cases fuel <;> simp [skipComment]
  | cons x l ih =>
    intro fuel depth
    cases fuel with
    | zero => simp [skipComment]
    | succ fuel =>
      have hx : x ≠ '"' := fun e => hq (by simp [e])
      rw [skipComment_str_step]; simp only [hx, if_false]
      exact ih (fun h => hq (by simp [h])) fuel depth

theorem inStringAfter_no_quote (l : List Char) (hq : '"' ∉ l) (m : Bool) :
    inStringAfter m l = m := by
  induction l with
  | nil => rfl
  | cons x l ih =>
    have hx : x ≠ '"' := fun e => hq (by simp [e])
    simp only [inStringAfter, hx, if_false]
    exact ih (fun h => hq (by simp [h]))

/-! ### the lexer's string scanner -/

theorem readString_no_quote (s rest : List Char) (hq : '"' ∉ s) (hr : rest.head? ≠ some '"') :
    ∀ (n : Nat) (acc : List Char),
      readString (s.length + 1 + n) acc (s ++ ['"'] ++ rest) =
        some (String.ofList (acc.reverse ++ s), rest) := by
  induction s with
  | nil =>
    intro n acc
    have e : ([] : List Char).length + 1 + n = n + 1 := by simp; omega
    rw [e]
    simp only [List.nil_append, List.cons_append, List.append_nil]
    unfold readString
    simp only [beq_self_eq_true, if_true]
    split
    · exact absurd rfl hr
    · rfl
  | cons x s ih =>
    intro n acc
    have hx : x ≠ '"' := fun e => hq (by simp [e])
    have e : (x :: s).length + 1 + n = (s.length + 1 + n) + 1 := by simp; omega
    rw [e]
    simp only [List.cons_append]
    simp only [readString, beq_iff_eq, hx, if_false]
    have := ih (fun h => hq (by simp [h])) n (x :: acc)
    simp only [List.cons_append, List.nil_append, List.reverse_cons, List.append_assoc] at this ⊢
    exact this

/-- `skipComment_body` for any sufficient fuel. -/
theorem skipComment_body_ge (t rest : List Char)
    (ho : hasPair '(' '*' t = false) (hc : hasPair '*' ')' t = false)
    (hq : inStringAfter false t = false) (fuel : Nat) (hf : t.length + 2 ≤ fuel) :
    skipComment fuel 1 false (t ++ [' ', '*', ')'] ++ rest) = some rest := by
  obtain ⟨n, rfl⟩ : ∃ n, fuel = t.length + 2 + n := ⟨fuel - (t.length + 2), by omega⟩
  exact skipComment_body t rest ho hc hq n

/-- The same with the space goose prints after the opening `(*`. -/
theorem skipComment_body_sp (t rest : List Char)
    (ho : hasPair '(' '*' t = false) (hc : hasPair '*' ')' t = false)
    (hq : inStringAfter false t = false) (fuel : Nat) (hf : t.length + 3 ≤ fuel) :
    skipComment fuel 1 false (' ' :: (t ++ [' ', '*', ')']) ++ rest) = some rest := by
  have := skipComment_body_ge (' ' :: t) rest (by rw [hasPair_cons, ho]; simp)
    (by rw [hasPair_cons, hc]; simp) (by simpa [inStringAfter] using hq) fuel (by simp; omega)
  simpa using this

/-! ### the top-level lexer on a comment and on a string literal -/

theorem lexAux_comment (fuel : Nat) (cs' : List Char) (acc : List Tok) :
    lexAux (fuel + 1) ('(' :: '*' :: cs') acc =
      match skipComment (cs'.length + 1) 1 false cs' with
      | some rest => lexAux fuel rest acc
      | none => .error .unterminatedComment := by
  rfl

theorem lexAux_string (fuel : Nat) (cs : List Char) (acc : List Tok) :
    lexAux (fuel + 1) ('"' :: cs) acc =
      match readString (cs.length + 1) [] cs with
      | some (s, rest) => lexAux fuel rest (.str (bytesView s) :: acc)
      | none => .error .unterminatedString := by
  rfl

/-! ### indentation of continuation lines -/

theorem inStringAfter_append (l1 l2 : List Char) :
    ∀ m, inStringAfter m (l1 ++ l2) = inStringAfter (inStringAfter m l1) l2 := by
  induction l1 with
  | nil => intro m; rfl
  | cons x l1 ih => intro m; simp only [List.cons_append, inStringAfter, ih]

theorem inStringAfter_spaces (k : Nat) (m : Bool) :
    inStringAfter m (List.replicate k ' ') = m := by
  induction k with
  | zero => rfl
  | succ k ih => simp [List.replicate_succ, inStringAfter, ih]

theorem head_spaces_append (k : Nat) (q : Char) (hq : q ≠ ' ') (l : List Char)
    (h : (List.replicate k ' ' ++ l).head? = some q) : l.head? = some q := by
  cases k with
  | zero => simpa using h
  | succ k => simp [List.replicate_succ] at h; exact absurd h.symm hq

theorem hasPair_spaces_append (p q : Char) (hp : p ≠ ' ') (k : Nat) (l : List Char) :
    hasPair p q (List.replicate k ' ' ++ l) = hasPair p q l := by
  induction k with
  | zero => simp
  | succ k ih =>
    have hp' : ' ' ≠ p := fun e => hp e.symm
    rw [List.replicate_succ, List.cons_append, hasPair_cons, ih]; simp [hp']

theorem head_append_spaces (q : Char) (hq : q ≠ ' ') (l : List Char) (m : Nat) :
    ((l ++ List.replicate m ' ').head? == some q) = (l.head? == some q) := by
  cases l with
  | nil =>
    cases m with
    | zero => simp
    | succ m =>
      have hq' : ' ' ≠ q := fun e => hq e.symm
      simp [List.replicate_succ, hq']
  | cons x l => simp

theorem hasPair_append_spaces (p q : Char) (hp : p ≠ ' ') (hq : q ≠ ' ') (m : Nat) (l : List Char) :
    hasPair p q (l ++ List.replicate m ' ') = hasPair p q l := by
  induction l with
  | nil =>
    have := hasPair_spaces_append p q hp m []
    simpa using this
  | cons x l ih =>
    rw [List.cons_append, hasPair_cons, hasPair_cons, ih, head_append_spaces q hq]

theorem indentLines_no_newline (k : Nat) (s : List Char) (hs : '\n' ∉ s) : indentLines k s = s := by
  induction s with
  | nil => rfl
  | cons x s ih =>
    have hx : x ≠ '\n' := fun e => hs (by simp [e])
    simp only [indentLines, hx, false_and, if_false]
    rw [ih (fun h => hs (by simp [h]))]

theorem head_indentLines (k : Nat) (l : List Char) : (indentLines k l).head? = l.head? := by
  cases l with
  | nil => rfl
  | cons x l =>
    simp only [indentLines]
    split
    · rename_i h; simp [h.1]
    · rfl

/-- Indentation only adds spaces, so it creates no pair of two non-space characters. -/
theorem hasPair_indentLines (p q : Char) (hp : p ≠ ' ') (hq : q ≠ ' ') (k : Nat) (l : List Char)
    (h : hasPair p q l = false) : hasPair p q (indentLines k l) = false := by
  induction l with
  | nil => rfl
  | cons x l ih =>
    rw [hasPair_cons] at h
    simp only [Bool.or_eq_false_iff] at h
    simp only [indentLines]
    split
    · rw [hasPair_cons, hasPair_spaces_append p q hp, ih h.2]
      simp only [Bool.or_false]
      rename_i hx
      cases hh : ('\n' == p && (List.replicate k ' ' ++ indentLines k l).head? == some q) with
      | false => rfl
      | true =>
        simp only [Bool.and_eq_true, beq_iff_eq] at hh
        have := head_spaces_append k q hq _ hh.2
        rw [head_indentLines] at this
        have h1 := h.1
        simp [hx.1, this] at h1
        exact absurd hh.1 h1
    · rw [hasPair_cons, ih h.2, head_indentLines, h.1]; rfl

theorem inStringAfter_indentLines (k : Nat) (l : List Char) :
    ∀ m, inStringAfter m (indentLines k l) = inStringAfter m l := by
  induction l with
  | nil => intro m; rfl
  | cons x l ih =>
    intro m
    simp only [indentLines]
    split
    · rename_i hx
      simp only [inStringAfter, inStringAfter_append, inStringAfter_spaces, ih, hx.1]
    · simp only [inStringAfter, ih]

theorem filter_indentLines (f : Char → Bool) (hf : f ' ' = false) (k : Nat) (l : List Char) :
    (indentLines k l).filter f = l.filter f := by
  induction l with
  | nil => rfl
  | cons x l ih =>
    simp only [indentLines]
    split
    · rename_i hx
      have : (List.replicate k ' ').filter f = [] := by
        simp [hf]
      simp only [List.filter_cons, List.filter_append, this, List.nil_append, ih, hx.1]
    · simp only [List.filter_cons, ih]

/-- Indenting a text followed by a non-empty, newline-free tail leaves the tail alone and puts at
most some spaces in front of it. -/
theorem indentLines_append (k : Nat) (s : List Char) (hs : '\n' ∉ s) (hne : s ≠ []) (t : List Char) :
    ∃ m, indentLines k (t ++ s) = indentLines k t ++ List.replicate m ' ' ++ s := by
  induction t with
  | nil => exact ⟨0, by simp [indentLines_no_newline k s hs, indentLines]⟩
  | cons x t ih =>
    obtain ⟨m, hm⟩ := ih
    cases t with
    | nil =>
      by_cases hx : x = '\n'
      · refine ⟨k, ?_⟩
        have hh : s.head? ≠ some '\n' := by
          intro h
          cases s with
          | nil => simp at h
          | cons y s => simp at h; exact hs (by simp [h])
        simp [indentLines, hx, hne, hh, indentLines_no_newline k s hs]
      · refine ⟨0, ?_⟩
        simp [indentLines, hx, indentLines_no_newline k s hs]
    | cons y t =>
      refine ⟨m, ?_⟩
      simp only [List.cons_append] at hm ⊢
      simp only [indentLines] at hm ⊢
      simp only [ne_eq, reduceCtorEq, not_false_eq_true, true_and, List.head?_cons,
        Option.some.injEq] at hm ⊢
      rw [hm]
      split <;> simp

/-! ### `sanitize` -/

theorem sanitize_no_open (c : List Char) : hasPair '(' '*' (sanitize c) = false :=
  hasPair_replace2_other '(' '*' '*' ' ' ')' (by decide) (by decide) _
    (hasPair_replace2_self '(' ' ' '*' (by decide) (by decide) (by decide) c)

theorem sanitize_no_close (c : List Char) : hasPair '*' ')' (sanitize c) = false :=
  hasPair_replace2_self '*' ' ' ')' (by decide) (by decide) (by decide) _

theorem sanitize_id (c : List Char) (h1 : hasPair '(' '*' c = false)
    (h2 : hasPair '*' ')' c = false) : sanitize c = c := by
  unfold sanitize
  rw [replace2_id _ _ _ c h1, replace2_id _ _ _ c h2]

theorem filter_sanitize (f : Char → Bool) (hf : f ' ' = false) (c : List Char) :
    (sanitize c).filter f = c.filter f := by
  unfold sanitize
  rw [filter_replace2 f _ _ _ hf, filter_replace2 f _ _ _ hf]

theorem count_sanitize (x : Char) (hx : x ≠ ' ') (c : List Char) :
    (sanitize c).count x = c.count x := by
  have hx' : ' ' ≠ x := fun e => hx e.symm
  unfold sanitize
  rw [count_replace2 x _ _ _ hx', count_replace2 x _ _ _ hx']

theorem inStringAfter_sanitize (c : List Char) (m : Bool) :
    inStringAfter m (sanitize c) = inStringAfter m c := by
  unfold sanitize
  rw [inStringAfter_replace2 _ _ _ (by decide), inStringAfter_replace2 _ _ _ (by decide)]

theorem not_mem_sanitize (x : Char) (hx : x ≠ ' ') (c : List Char) (h : x ∉ c) : x ∉ sanitize c := by
  rw [← List.count_eq_zero] at h ⊢
  rw [count_sanitize x hx, h]

/-- More fuel never changes a successful scan. -/
theorem skipComment_mono (r : List Char) (k : Nat) : ∀ (fuel depth : Nat) (m : Bool) (l : List Char),
    skipComment fuel depth m l = some r → skipComment (fuel + k) depth m l = some r := by
  intro fuel depth m l
  fun_induction skipComment fuel depth m l with
  | case1 => intro h; simp at h
  | case2 => intro h; simp at h
  | case3 fuel depth c cs hc ih =>
    intro h
    have e : fuel + 1 + k = (fuel + k) + 1 := by omega
    rw [e, skipComment_str_step]; simp only [beq_iff_eq] at hc; simp only [hc, if_true]
    exact ih h
  | case4 fuel depth c cs hc ih =>
    intro h
    have e : fuel + 1 + k = (fuel + k) + 1 := by omega
    rw [e, skipComment_str_step]; simp only [beq_iff_eq] at hc; simp only [hc, if_false]
    exact ih h
  | case5 fuel depth cs ih =>
    intro h
    have e : fuel + 1 + k = (fuel + k) + 1 := by omega
    rw [e, skipComment_quote_step]; exact ih h
  | case6 fuel depth cs' ih =>
    intro h
    have e : fuel + 1 + k = (fuel + k) + 1 := by omega
    rw [e]; simp only [skipComment]; exact ih h
  | case7 fuel depth cs' hd =>
    intro h
    have e : fuel + 1 + k = (fuel + k) + 1 := by omega
    rw [e]; simp only [skipComment, hd, if_true]; exact h
  | case8 fuel depth cs' hd ih =>
    intro h
    have e : fuel + 1 + k = (fuel + k) + 1 := by omega
    rw [e]; simp only [skipComment, hd, if_false]; exact ih h
  | case9 fuel depth c cs h1 h2 h3 ih =>
    intro h
    have e : fuel + 1 + k = (fuel + k) + 1 := by omega
    rw [e]
    rw [skipComment_plain_step _ _ _ _ (fun e => h1 e) ?_ ?_]
    · exact ih h
    · intro ⟨hx, hh⟩
      cases cs with
      | nil => simp at hh
      | cons y cs => simp at hh; exact h2 cs hx (by rw [hh])
    · intro ⟨hx, hh⟩
      cases cs with
      | nil => simp at hh
      | cons y cs => simp at hh; exact h3 cs hx (by rw [hh])

/-- A text in string mode at its end, followed by quote-free text, is never closed. -/
theorem skipComment_odd (t u : List Char)
    (ho : hasPair '(' '*' t = false) (hc : hasPair '*' ')' t = false)
    (hu1 : u.head? ≠ some '*') (hu2 : u.head? ≠ some ')') (hu : '"' ∉ u) :
    ∀ (fuel depth : Nat) (m : Bool), inStringAfter m t = true →
      skipComment fuel depth m (t ++ u) = none := by
  intro fuel depth m hm
  cases hr : skipComment fuel depth m (t ++ u) with
  | none => rfl
  | some r =>
    exfalso
    have h1 := skipComment_mono r t.length fuel depth m (t ++ u) hr
    have e : fuel + t.length = t.length + fuel := by omega
    rw [e, skipComment_through t u ho hc hu1 hu2, hm, skipComment_open_string u hu] at h1
    simp at h1

/-- The indented block body is again "delimiter-free text, then the closing ` *)`". -/
theorem block_body (k : Nat) (c : List Char) :
    ∃ t, indentLines k (sanitize c ++ [' ', '*', ')']) = t ++ [' ', '*', ')'] ∧
      hasPair '(' '*' t = false ∧ hasPair '*' ')' t = false ∧
      (∀ m, inStringAfter m t = inStringAfter m c) ∧
      (∀ f : Char → Bool, f ' ' = false → t.filter f = c.filter f) := by
  obtain ⟨m, hm⟩ := indentLines_append k [' ', '*', ')'] (by decide) (by simp) (sanitize c)
  refine ⟨indentLines k (sanitize c) ++ List.replicate m ' ', hm, ?_, ?_, ?_, ?_⟩
  · rw [hasPair_append_spaces _ _ (by decide) (by decide)]
    exact hasPair_indentLines _ _ (by decide) (by decide) k _ (sanitize_no_open c)
  · rw [hasPair_append_spaces _ _ (by decide) (by decide)]
    exact hasPair_indentLines _ _ (by decide) (by decide) k _ (sanitize_no_close c)
  · intro b
    rw [inStringAfter_append, inStringAfter_spaces, inStringAfter_indentLines,
      inStringAfter_sanitize]
  · intro f hf
    have : (List.replicate m ' ').filter f = [] := by simp [hf]
    rw [List.filter_append, this, List.append_nil, filter_indentLines f hf, filter_sanitize f hf]

end GooseVerif.Lemmas.Sanitize
