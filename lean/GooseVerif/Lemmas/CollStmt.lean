/-
Helper lemmas for the collections theorem, part 3: STATEMENTS.  The simulation by one mutual structural
induction over statements and statement lists (as in `Lemmas/HeapStmt.lean`).  For accepted programs the
scopes outside the current one never change (assignments go to cells in the heap), so on normal completion
the translation evaluates to some value with the translated heap, and on `return v` (function body only) to
`toT v` with the translated heap.  The two loops are `loop_sim` applied to the induction hypothesis of the body.
-/
import GooseVerif.Lemmas.CollExp

set_option linter.unusedSimpArgs false

namespace GooseVerif.Model.Coll
open GooseVerif.Model.Heap (look lookStk bindStk Res ofOpt Res.bind_ok ofOpt_ok)

/-- What the translation `t` of a statement list (started in the scopes `sc :: st`) must do when Go's outcome is `out`. -/
def Post (top : Bool) (st : Stack) (res : Option (TVal × THeap)) : Out → Prop
  | .normal stk' G' => ∃ sc' tv, stk' = sc' :: st ∧ res = some (tv, heapT G')
  | .returned v G' => top = true ∧ res = some (toT v, heapT G')

def StmtsSound (ss : Stmts) : Prop :=
  ∀ (grow : Nat → Nat → Nat) (ord : List (Nat × Nat) → List (Nat × Nat)) (top : Bool) (ssc : SScope) (Γ : SEnv)
    (sc : Scope) (st : Stack) (G : GHeap) (t : T) (out : Out),
    trStmts top (ssc :: Γ) ss = .ok t → FlagsOK (sc :: st) (ssc :: Γ) →
    execStmts grow ord (sc :: st) G ss = .ok out →
    Post top st (evalT grow ord (envOf (sc :: st)) (heapT G) t) out

/-- … and for a statement that binds no name: the stack is as before. -/
def StmtSound (s : Stmt) : Prop :=
  ∀ (grow : Nat → Nat → Nat) (ord : List (Nat × Nat) → List (Nat × Nat)) (Γ : SEnv) (stk : Stack) (G : GHeap)
    (t : T) (out : Out),
    trStmt Γ s = .ok (.anon t) → FlagsOK stk Γ → execStmt grow ord stk G s = .ok out →
    ∃ G' tv, out = .normal stk G' ∧ evalT grow ord (envOf stk) (heapT G) t = some (tv, heapT G')

/-! ### assignment and the stores -/

theorem sound_assign (x : String) (r : RExp) : StmtSound (.assign x r) := by
  intro grow ord Γ stk G t out htr hfl hgo
  simp only [trStmt] at htr
  obtain ⟨⟨te, τe⟩, hte, htr⟩ := bindE_ok htr
  match hw : lookStk x Γ with
  | none => simp [hw] at htr
  | some (false, σ) => simp [hw] at htr
  | some (true, σ) =>
    simp only [hw] at htr
    obtain ⟨_, _, htr2⟩ := bindE_ok htr
    simp at htr2
    subst htr2
    simp only [execStmt] at hgo
    obtain ⟨⟨v, G1⟩, h1, hgo⟩ := Res.bind_ok hgo
    obtain ⟨b, hb, hgo⟩ := go_opt hgo
    have e1 := sound_rexp r grow ord Γ stk G te τe v G1 hte hfl h1
    have hlk := hfl.lookup x
    have henv := look_envOf x stk
    rw [hb] at hlk henv
    rw [hw] at hlk
    cases b with
    | val w => simp [Bnd.isCell] at hlk
    | cell o =>
      dsimp only at hgo
      obtain ⟨old, hold, hgo⟩ := go_opt hgo
      simp at hgo
      subst hgo
      refine ⟨G1.set o (.cell v), .unit, rfl, ?_⟩
      simp [evalT, e1, henv, Bnd.toT, asRef, hold, Obj.mapCell]

theorem sound_mapSet (m k e : Exp) : StmtSound (.mapSet m k e) := by
  intro grow ord Γ stk G t out htr hfl hgo
  simp only [trStmt] at htr
  obtain ⟨te, hte, htr⟩ := tr_expect htr
  obtain ⟨⟨tm, τm⟩, htm, htr⟩ := bindE_ok htr
  obtain ⟨tk, htk, htr⟩ := tr_expect htr
  have ht : t = .mapInsert tm tk te := by
    cases τm <;> simp at htr
    exact htr.symm
  subst ht
  simp only [execStmt] at hgo
  obtain ⟨x, G0, h0, hgo⟩ := go_num hgo
  dsimp only at hgo
  obtain ⟨key, G1, h1, hgo⟩ := go_num hgo
  dsimp only at hgo
  obtain ⟨o, G2, h2, hgo⟩ := go_map hgo
  dsimp only at hgo
  obtain ⟨es, hes, hgo⟩ := go_opt hgo
  simp at hgo
  subst hgo
  have e0 := sound_exp e grow ord Γ stk G te .u64 _ G0 hte hfl h0
  have e1 := sound_exp k grow ord Γ stk G0 tk .u64 _ G1 htk hfl h1
  have e2 := sound_exp m grow ord Γ stk G1 tm τm _ G2 htm hfl h2
  refine ⟨_, .unit, rfl, ?_⟩
  simp [evalT, e0, e1, e2, hes, Obj.mapCell]

theorem sound_delete (m k : Exp) : StmtSound (.delete m k) := by
  intro grow ord Γ stk G t out htr hfl hgo
  simp only [trStmt] at htr
  obtain ⟨⟨tm, τm⟩, htm, htr⟩ := bindE_ok htr
  obtain ⟨tk, htk, htr⟩ := tr_expect htr
  have ht : t = .mapDelete tm tk := by
    cases τm <;> simp at htr
    exact htr.symm
  subst ht
  simp only [execStmt] at hgo
  obtain ⟨key, G1, h1, hgo⟩ := go_num hgo
  dsimp only at hgo
  obtain ⟨o, G2, h2, hgo⟩ := go_map hgo
  dsimp only at hgo
  obtain ⟨es, hes, hgo⟩ := go_opt hgo
  simp at hgo
  subst hgo
  have e1 := sound_exp k grow ord Γ stk G tk .u64 _ G1 htk hfl h1
  have e2 := sound_exp m grow ord Γ stk G1 tm τm _ G2 htm hfl h2
  refine ⟨_, .unit, rfl, ?_⟩
  simp [evalT, e1, e2, hes, Obj.mapCell]

theorem sound_setIdx (s i e : Exp) : StmtSound (.setIdx s i e) := by
  intro grow ord Γ stk G t out htr hfl hgo
  simp only [trStmt] at htr
  obtain ⟨te, hte, htr⟩ := tr_expect htr
  obtain ⟨ts, hts, htr⟩ := tr_expect htr
  obtain ⟨ti, hti, htr⟩ := tr_expect htr
  simp at htr
  subst htr
  simp only [execStmt] at hgo
  obtain ⟨x, G0, h0, hgo⟩ := go_num hgo
  dsimp only at hgo
  obtain ⟨k, G1, h1, hgo⟩ := go_num hgo
  dsimp only at hgo
  obtain ⟨p, l, c, G2, h2, hgo⟩ := go_sl hgo
  dsimp only at hgo
  have e0 := sound_exp e grow ord Γ stk G te .u64 _ G0 hte hfl h0
  have e1 := sound_exp i grow ord Γ stk G0 ti .u64 _ G1 hti hfl h1
  have e2 := sound_exp s grow ord Γ stk G1 ts .sl _ G2 hts hfl h2
  by_cases hk : k < l
  · simp only [hk, if_true] at hgo
    obtain ⟨G3, h3, hgo⟩ := go_opt hgo
    simp at hgo
    subst hgo
    refine ⟨G3, .unit, rfl, ?_⟩
    simp [evalT, e0, e1, e2, hk, h3]
  · simp [hk] at hgo

theorem sound_copy (d s : Exp) : StmtSound (.copy d s) := by
  intro grow ord Γ stk G t out htr hfl hgo
  simp only [trStmt] at htr
  obtain ⟨⟨tc, τc⟩, htc, htr⟩ := bindE_ok htr
  simp at htr
  subst htr
  simp only [execStmt] at hgo
  obtain ⟨⟨v, G1⟩, h1, hgo⟩ := Res.bind_ok hgo
  simp at hgo
  subst hgo
  exact ⟨G1, toT v, rfl, sound_rexp (.copy d s) grow ord Γ stk G tc τc v G1 htc hfl h1⟩

/-! ### blocks, conditionals, loops -/

/-- a nested statement list in a fresh scope: it completes normally, the heap is translated -/
theorem sound_body {b : Stmts} (ih : StmtsSound b) {grow : Nat → Nat → Nat} {ord : List (Nat × Nat) → List (Nat × Nat)}
    {Γ : SEnv} {stk : Stack} {G : GHeap} {t : T} {out : Out} {sc : Scope} {ssc : SScope}
    (htr : trStmts false (ssc :: Γ) b = .ok t) (hfl : FlagsOK stk Γ) (hs : flagsS sc = sflagsS ssc)
    (hgo : execStmts grow ord (sc :: stk) G b = .ok out) :
    ∃ sc' G' tv, out = .normal (sc' :: stk) G' ∧
      evalT grow ord (envOf (sc :: stk)) (heapT G) t = some (tv, heapT G') := by
  have hp := ih grow ord false ssc Γ sc stk G t out htr (hfl.push hs) hgo
  cases out with
  | normal stk' G' =>
    obtain ⟨sc', tv, h1, h2⟩ := hp
    exact ⟨sc', G', tv, by rw [h1], h2⟩
  | returned v G' => simp [Post] at hp

theorem sound_block (b : Stmts) (ih : StmtsSound b) : StmtSound (.block b) := by
  intro grow ord Γ stk G t out htr hfl hgo
  simp only [trStmt] at htr
  obtain ⟨tb, htb, htr⟩ := bindE_ok htr
  simp at htr
  subst htr
  simp only [execStmt] at hgo
  cases hx : execStmts grow ord ([] :: stk) G b with
  | panic => simp [hx, popOut] at hgo
  | bad => simp [hx, popOut] at hgo
  | ok o =>
    obtain ⟨sc', G', tv, ho, hev⟩ := sound_body ih htb hfl (by rfl) hx
    subst ho
    simp [hx, popOut] at hgo
    subst hgo
    rw [envOf_nil_cons] at hev
    exact ⟨G', tv, rfl, hev⟩

theorem sound_ite (c : Exp) (a b : Stmts) (iha : StmtsSound a) (ihb : StmtsSound b) : StmtSound (.ite c a b) := by
  intro grow ord Γ stk G t out htr hfl hgo
  simp only [trStmt] at htr
  obtain ⟨tc, htc, htr⟩ := tr_expect htr
  obtain ⟨ta, hta, htr⟩ := bindE_ok htr
  obtain ⟨tb, htb, htr⟩ := bindE_ok htr
  simp at htr
  subst htr
  simp only [execStmt] at hgo
  obtain ⟨bb, G1, h1, hgo⟩ := go_bool hgo
  dsimp only at hgo
  have e1 := sound_exp c grow ord Γ stk G tc .bool _ G1 htc hfl h1
  cases bb with
  | true =>
    simp only [if_true] at hgo
    cases hx : execStmts grow ord ([] :: stk) G1 a with
    | panic => simp [hx, popOut] at hgo
    | bad => simp [hx, popOut] at hgo
    | ok o =>
      obtain ⟨sc', G', tv, ho, hev⟩ := sound_body iha hta hfl (by rfl) hx
      subst ho
      simp [hx, popOut] at hgo
      subst hgo
      rw [envOf_nil_cons] at hev
      exact ⟨G', tv, rfl, by simp [evalT, e1, hev]⟩
  | false =>
    simp only [Bool.false_eq_true, if_false] at hgo
    cases hx : execStmts grow ord ([] :: stk) G1 b with
    | panic => simp [hx, popOut] at hgo
    | bad => simp [hx, popOut] at hgo
    | ok o =>
      obtain ⟨sc', G', tv, ho, hev⟩ := sound_body ihb htb hfl (by rfl) hx
      subst ho
      simp [hx, popOut] at hgo
      subst hgo
      rw [envOf_nil_cons] at hev
      exact ⟨G', tv, rfl, by simp [evalT, e1, hev]⟩

theorem loopScope_flags (k v : Option String) (a b : Nat) : flagsS (loopScope k v a b) = sflagsS (loopSScope k v) := by
  cases k <;> cases v <;> rfl

theorem envOf_loopScope (k v : Option String) (a b : Nat) (stk : Stack) :
    envOf (loopScope k v a b :: stk) = bind2 k v (.base (.num a)) (.base (.num b)) (envOf stk) := by
  cases k <;> cases v <;> simp [envOf, loopScope, bind2, bindO, scopeT, Bnd.toT, toT]

theorem bodyOut_ok {r : Res Out} {G' : GHeap} (h : bodyOut r = .ok G') : ∃ stk', r = .ok (.normal stk' G') := by
  cases r with
  | panic => simp [bodyOut] at h
  | bad => simp [bodyOut] at h
  | ok o =>
    cases o with
    | normal stk' G1 =>
      simp [bodyOut] at h
      subst h
      exact ⟨stk', rfl⟩
    | returned v G1 => simp [bodyOut] at h

theorem sound_rangeMap (k v : Option String) (m : Exp) (body : Stmts) (ih : StmtsSound body) :
    StmtSound (.rangeMap k v m body) := by
  intro grow ord Γ stk G t out htr hfl hgo
  simp only [trStmt] at htr
  obtain ⟨tm, τm, htm, htr⟩ := tr_expectMap htr
  obtain ⟨tb, htb, htr⟩ := bindE_ok htr
  simp at htr
  subst htr
  simp only [execStmt] at hgo
  obtain ⟨o, G1, h1, hgo⟩ := go_map hgo
  dsimp only at hgo
  obtain ⟨es, hes, hgo⟩ := go_opt hgo
  obtain ⟨G', hloop, hgo⟩ := Res.bind_ok hgo
  simp at hgo
  subst hgo
  have e1 := sound_exp m grow ord Γ stk G tm τm _ G1 htm hfl h1
  have hsim := loop_sim
    (fun (kv : Nat × Nat) (G1 : GHeap) =>
        (bodyOut (execStmts grow ord (loopScope k v kv.1 kv.2 :: stk) G1 body)).bind fun G2 =>
        if getMap G2 o = some es then Res.ok G2 else Res.bad)
    (fun (kv : Nat × Nat) (H1 : THeap) =>
        (evalT grow ord (bind2 k v (.base (.num kv.1)) (.base (.num kv.2)) (envOf stk)) H1 tb).bind fun q => some q.2)
    (ord es)
    (by
      intro a _ Ga Gb hf
      obtain ⟨G2, hb, hf⟩ := Res.bind_ok hf
      split at hf
      · simp at hf
        subst hf
        obtain ⟨stk', hx⟩ := bodyOut_ok hb
        obtain ⟨sc', G3, tv, ho, hev⟩ := sound_body ih htb hfl (loopScope_flags k v a.1 a.2) hx
        simp at ho
        obtain ⟨_, rfl⟩ := ho
        rw [envOf_loopScope] at hev
        simp [hev]
      · simp at hf)
    G1 G' hloop
  refine ⟨G', .unit, rfl, ?_⟩
  simp [evalT, e1, hes, hsim]

theorem sound_rangeSlice (i x : Option String) (s : Exp) (body : Stmts) (ih : StmtsSound body) :
    StmtSound (.rangeSlice i x s body) := by
  intro grow ord Γ stk G t out htr hfl hgo
  simp only [trStmt] at htr
  obtain ⟨ts, hts, htr⟩ := tr_expect htr
  obtain ⟨tb, htb, htr⟩ := bindE_ok htr
  simp at htr
  subst htr
  simp only [execStmt] at hgo
  obtain ⟨p, l, c, G1, h1, hgo⟩ := go_sl hgo
  dsimp only at hgo
  obtain ⟨G', hloop, hgo⟩ := Res.bind_ok hgo
  simp at hgo
  subst hgo
  have e1 := sound_exp s grow ord Γ stk G ts .sl _ G1 hts hfl h1
  have hsim := loop_sim
    (fun (j : Nat) (G1 : GHeap) =>
        (ofOpt (elemAt G1 p j)).bind fun xv =>
        bodyOut (execStmts grow ord (loopScope i x j xv :: stk) G1 body))
    (fun (j : Nat) (H1 : THeap) =>
        (elemAt H1 p j).bind fun xv =>
        (evalT grow ord (bind2 i x (.base (.num j)) (.base (.num xv)) (envOf stk)) H1 tb).bind fun q => some q.2)
    (List.range l)
    (by
      intro j _ Ga Gb hf
      obtain ⟨xv, hxv, hf⟩ := go_opt hf
      obtain ⟨stk', hx⟩ := bodyOut_ok hf
      obtain ⟨sc', G3, tv, ho, hev⟩ := sound_body ih htb hfl (loopScope_flags i x j xv) hx
      simp at ho
      obtain ⟨_, rfl⟩ := ho
      rw [envOf_loopScope] at hev
      simp [hxv, hev])
    G1 G' hloop
  refine ⟨G', .unit, rfl, ?_⟩
  simp [evalT, e1, hsim]

/-! ### statement lists -/

/-- A statement that binds no name, followed by the rest of its list. -/
theorem sound_cons_anon {s : Stmt} {rest : Stmts} (hs : StmtSound s) (hrest : StmtsSound rest)
    (hanon : ∀ Γ b, trStmt Γ s = .ok b → ∃ t, b = .anon t) : StmtsSound (.cons s rest) := by
  intro grow ord top ssc Γ sc st G t out htr hfl hgo
  simp only [trStmts] at htr
  obtain ⟨b, hts, htr⟩ := bindE_ok htr
  obtain ⟨ts, rfl⟩ := hanon _ b hts
  obtain ⟨tr, htrest, htr⟩ := bindE_ok htr
  simp [Bind.scope] at htrest
  simp at htr
  simp only [execStmts] at hgo
  cases hes : execStmt grow ord (sc :: st) G s with
  | panic => simp [hes] at hgo
  | bad => simp [hes] at hgo
  | ok o =>
    obtain ⟨G1, tv1, ho, hev⟩ := hs grow ord (ssc :: Γ) (sc :: st) G ts o hts hfl hes
    subst ho
    simp [hes] at hgo
    by_cases hnil : rest.isNil = true
    · have hn : rest = .nil := by
        cases rest with
        | nil => rfl
        | ret _ => simp [Stmts.isNil] at hnil
        | cons _ _ => simp [Stmts.isNil] at hnil
      subst hn
      simp [Stmts.isNil, Bind.addTo] at htr
      subst htr
      simp [execStmts] at hgo
      subst hgo
      exact ⟨sc, tv1, rfl, hev⟩
    · simp [hnil, Bind.addTo] at htr
      subst htr
      have hp := hrest grow ord top ssc Γ sc st G1 tr out htrest hfl hgo
      simpa [evalT, hev] using hp

theorem sound_cons_define (x : String) (r : RExp) {rest : Stmts} (hrest : StmtsSound rest) :
    StmtsSound (.cons (.define x r) rest) := by
  intro grow ord top ssc Γ sc st G t out htr hfl hgo
  simp only [trStmts, trStmt] at htr
  obtain ⟨b, hts, htr⟩ := bindE_ok htr
  obtain ⟨⟨te, τ⟩, hte, hts⟩ := bindE_ok hts
  simp at hts
  subst hts
  obtain ⟨tr, htrest, htr⟩ := bindE_ok htr
  simp [Bind.scope, bindStk] at htrest
  simp [Bind.addTo] at htr
  subst htr
  simp only [execStmts, execStmt] at hgo
  cases hev : evalR grow (sc :: st) G r with
  | panic => simp [hev, Res.bind] at hgo
  | bad => simp [hev, Res.bind] at hgo
  | ok q =>
    obtain ⟨v, G1⟩ := q
    simp [hev, Res.bind, bindStk] at hgo
    have e1 := sound_rexp r grow ord (ssc :: Γ) (sc :: st) G te τ v G1 hte hfl hev
    have hfl' := hfl.bind x (.val v) τ
    simp only [bindStk, Bnd.isCell] at hfl'
    have hp := hrest grow ord top ((x, false, τ) :: ssc) Γ ((x, .val v) :: sc) st G1 tr out htrest hfl' hgo
    have henv : envOf (((x, Bnd.val v) :: sc) :: st) = (x, toT v) :: envOf (sc :: st) := by
      simp [envOf, scopeT, Bnd.toT]
    rw [henv] at hp
    simpa [evalT, e1] using hp

theorem sound_cons_declare (x : String) (r : RExp) {rest : Stmts} (hrest : StmtsSound rest) :
    StmtsSound (.cons (.declare x r) rest) := by
  intro grow ord top ssc Γ sc st G t out htr hfl hgo
  simp only [trStmts, trStmt] at htr
  obtain ⟨b, hts, htr⟩ := bindE_ok htr
  obtain ⟨⟨te, τ⟩, hte, hts⟩ := bindE_ok hts
  simp at hts
  subst hts
  obtain ⟨tr, htrest, htr⟩ := bindE_ok htr
  simp [Bind.scope, bindStk] at htrest
  simp [Bind.addTo] at htr
  subst htr
  simp only [execStmts, execStmt] at hgo
  cases hev : evalR grow (sc :: st) G r with
  | panic => simp [hev, Res.bind] at hgo
  | bad => simp [hev, Res.bind] at hgo
  | ok q =>
    obtain ⟨v, G1⟩ := q
    simp [hev, Res.bind, bindStk] at hgo
    have e1 := sound_rexp r grow ord (ssc :: Γ) (sc :: st) G te τ v G1 hte hfl hev
    have hfl' := hfl.bind x (.cell G1.length) τ
    simp only [bindStk, Bnd.isCell] at hfl'
    have hp := hrest grow ord top ((x, true, τ) :: ssc) Γ ((x, .cell G1.length) :: sc) st (G1 ++ [.cell v]) tr out
      htrest hfl' hgo
    have henv : envOf (((x, Bnd.cell G1.length) :: sc) :: st) = (x, .base (.loc G1.length 0)) :: envOf (sc :: st) := by
      simp [envOf, scopeT, Bnd.toT]
    rw [henv] at hp
    simpa [evalT, e1, Obj.mapCell] using hp

theorem flags_bindStkO (x : Option String) (v : Val) (τ : Ty) {sc : Scope} {st : Stack} {ssc : SScope} {Γ : SEnv}
    (h : FlagsOK (sc :: st) (ssc :: Γ)) :
    ∃ sc' ssc', bindStkO x (.val v) (sc :: st) = sc' :: st ∧ bindSO x (false, τ) (ssc :: Γ) = ssc' :: Γ ∧
      FlagsOK (sc' :: st) (ssc' :: Γ) ∧ envOf (sc' :: st) = bindO x (toT v) (envOf (sc :: st)) := by
  cases x with
  | none => exact ⟨sc, ssc, rfl, rfl, h, rfl⟩
  | some n =>
    refine ⟨(n, .val v) :: sc, (n, false, τ) :: ssc, rfl, rfl, ?_, ?_⟩
    · have := h.bind n (.val v) τ
      simpa [bindStk, Bnd.isCell] using this
    · simp [envOf, scopeT, Bnd.toT, bindO]

theorem sound_cons_lookup2 (v ok : Option String) (m k : Exp) {rest : Stmts} (hrest : StmtsSound rest) :
    StmtsSound (.cons (.lookup2 v ok m k) rest) := by
  intro grow ord top ssc Γ sc st G t out htr hfl hgo
  simp only [trStmts, trStmt] at htr
  obtain ⟨b, hts, htr⟩ := bindE_ok htr
  obtain ⟨tm, τm, htm, hts⟩ := tr_expectMap hts
  obtain ⟨tk, htk, hts⟩ := tr_expect hts
  simp at hts
  subst hts
  obtain ⟨tr, htrest, htr⟩ := bindE_ok htr
  simp only [Bind.scope] at htrest
  simp [Bind.addTo] at htr
  subst htr
  simp only [execStmts, execStmt] at hgo
  cases hes : (evalE (sc :: st) G k).bind (fun r1 => (asNum r1.1).bind fun key =>
      (evalE (sc :: st) r1.2 m).bind fun r2 => (asMap r2.1).bind fun o =>
      (ofOpt (getMap r2.2 o)).bind fun es =>
      Res.ok (Out.normal (bindStkO ok (.val (.bool (mapFind es key).isSome))
                     (bindStkO v (.val (.num ((mapFind es key).getD 0))) (sc :: st))) r2.2)) with
  | panic => simp [hes] at hgo
  | bad => simp [hes] at hgo
  | ok o =>
    simp only [hes] at hgo
    obtain ⟨key, G1, h1, hes⟩ := go_num hes
    dsimp only at hes
    obtain ⟨mo, G2, h2, hes⟩ := go_map hes
    dsimp only at hes
    obtain ⟨es, hget, hes⟩ := go_opt hes
    simp at hes
    subst hes
    dsimp only at hgo
    have e1 := sound_exp k grow ord (ssc :: Γ) (sc :: st) G tk .u64 _ G1 htk hfl h1
    have e2 := sound_exp m grow ord (ssc :: Γ) (sc :: st) G1 tm τm _ G2 htm hfl h2
    obtain ⟨sc1, ssc1, hb1, hs1, hfl1, henv1⟩ := flags_bindStkO v (.num ((mapFind es key).getD 0)) .u64 hfl
    rw [hb1] at hgo
    rw [hs1] at htrest
    obtain ⟨sc2, ssc2, hb2, hs2, hfl2, henv2⟩ := flags_bindStkO ok (.bool (mapFind es key).isSome) .bool hfl1
    rw [hb2] at hgo
    rw [hs2] at htrest
    have hp := hrest grow ord top ssc2 Γ sc2 st G2 tr out htrest hfl2 hgo
    rw [henv2, henv1] at hp
    have hev : evalT grow ord (envOf (sc :: st)) (heapT G) (.mapGet tm tk) =
        some (.pair (.num ((mapFind es key).getD 0)) (.bool (mapFind es key).isSome), heapT G2) := by
      simp only [evalT, e1, e2, Option.bind_some, asNumT_toT_num, asRef_toT_map, getMap_heapT, hget]
      cases mapFind es key <;> rfl
    have hlet : evalT grow ord (envOf (sc :: st)) (heapT G) (.let2 v ok (.mapGet tm tk) tr) =
        evalT grow ord (bindO ok (toT (.bool (mapFind es key).isSome))
          (bindO v (toT (.num ((mapFind es key).getD 0))) (envOf (sc :: st)))) (heapT G2) tr := by
      rw [evalT, hev]
      simp [asPair, bind2, toT]
    rw [hlet]
    exact hp

theorem sound_nil : StmtsSound .nil := by
  intro grow ord top ssc Γ sc st G t out htr hfl hgo
  cases top with
  | true => simp [trStmts] at htr
  | false =>
    simp [trStmts] at htr
    simp [execStmts] at hgo
    subst htr hgo
    exact ⟨sc, .unit, rfl, by simp [evalT]⟩

theorem sound_ret (e : Exp) : StmtsSound (.ret e) := by
  intro grow ord top ssc Γ sc st G t out htr hfl hgo
  cases top with
  | false => simp [trStmts] at htr
  | true =>
    simp only [trStmts, if_true] at htr
    obtain ⟨⟨te, τ⟩, hte, htr⟩ := bindE_ok htr
    simp at htr
    subst htr
    simp only [execStmts] at hgo
    obtain ⟨⟨v, G1⟩, hev, hgo⟩ := Res.bind_ok hgo
    simp at hgo
    subst hgo
    exact ⟨rfl, sound_exp e grow ord (ssc :: Γ) (sc :: st) G te τ v G1 hte hfl hev⟩

/-- the statements that bind no name translate to anonymous bindings -/
theorem anon_of_tr {Γ : SEnv} {s : Stmt} {b : Bind} (h : trStmt Γ s = .ok b)
    (hs : (∀ x r, s ≠ .define x r ∧ s ≠ .declare x r) ∧ ∀ v ok m k, s ≠ .lookup2 v ok m k) : ∃ t, b = .anon t := by
  cases s with
  | define x r => exact absurd rfl (hs.1 x r).1
  | declare x r => exact absurd rfl (hs.1 x r).2
  | lookup2 v ok m k => exact absurd rfl (hs.2 v ok m k)
  | assign x r =>
    simp only [trStmt] at h
    obtain ⟨q, _, h⟩ := bindE_ok h
    split at h
    · obtain ⟨_, _, h⟩ := bindE_ok h
      simp at h
      exact ⟨_, h.symm⟩
    · simp at h
    · simp at h
  | mapSet m k e =>
    simp only [trStmt] at h
    obtain ⟨_, _, h⟩ := tr_expect h
    obtain ⟨⟨tm, τm⟩, _, h⟩ := bindE_ok h
    obtain ⟨_, _, h⟩ := tr_expect h
    cases τm <;> simp at h
    exact ⟨_, h.symm⟩
  | delete m k =>
    simp only [trStmt] at h
    obtain ⟨⟨tm, τm⟩, _, h⟩ := bindE_ok h
    obtain ⟨_, _, h⟩ := tr_expect h
    cases τm <;> simp at h
    exact ⟨_, h.symm⟩
  | setIdx s i e =>
    simp only [trStmt] at h
    obtain ⟨_, _, h⟩ := tr_expect h
    obtain ⟨_, _, h⟩ := tr_expect h
    obtain ⟨_, _, h⟩ := tr_expect h
    simp at h
    exact ⟨_, h.symm⟩
  | copy d s =>
    simp only [trStmt] at h
    obtain ⟨_, _, h⟩ := bindE_ok h
    simp at h
    exact ⟨_, h.symm⟩
  | rangeMap k v m body =>
    simp only [trStmt] at h
    obtain ⟨_, _, _, h⟩ := tr_expectMap h
    obtain ⟨_, _, h⟩ := bindE_ok h
    simp at h
    exact ⟨_, h.symm⟩
  | rangeSlice i x s body =>
    simp only [trStmt] at h
    obtain ⟨_, _, h⟩ := tr_expect h
    obtain ⟨_, _, h⟩ := bindE_ok h
    simp at h
    exact ⟨_, h.symm⟩
  | block b' =>
    simp only [trStmt] at h
    obtain ⟨_, _, h⟩ := bindE_ok h
    simp at h
    exact ⟨_, h.symm⟩
  | ite c a b' =>
    simp only [trStmt] at h
    obtain ⟨_, _, h⟩ := tr_expect h
    obtain ⟨_, _, h⟩ := bindE_ok h
    obtain ⟨_, _, h⟩ := bindE_ok h
    simp at h
    exact ⟨_, h.symm⟩

/-- the declarations are not translated to an anonymous binding -/
theorem not_anon_define (Γ : SEnv) (x : String) (r : RExp) (t : T) : trStmt Γ (.define x r) ≠ .ok (.anon t) := by
  intro h
  simp only [trStmt] at h
  obtain ⟨_, _, h⟩ := bindE_ok h
  simp at h

theorem not_anon_declare (Γ : SEnv) (x : String) (r : RExp) (t : T) : trStmt Γ (.declare x r) ≠ .ok (.anon t) := by
  intro h
  simp only [trStmt] at h
  obtain ⟨_, _, h⟩ := bindE_ok h
  simp at h

theorem not_anon_lookup2 (Γ : SEnv) (v ok : Option String) (m k : Exp) (t : T) :
    trStmt Γ (.lookup2 v ok m k) ≠ .ok (.anon t) := by
  intro h
  simp only [trStmt] at h
  obtain ⟨_, _, _, h⟩ := tr_expectMap h
  obtain ⟨_, _, h⟩ := tr_expect h
  simp at h

mutual
/-- The simulation, by one mutual structural induction over statements and statement lists. -/
theorem sound_stmts : (ss : Stmts) → StmtsSound ss
  | .nil => sound_nil
  | .ret e => sound_ret e
  | .cons (.define x r) rest => sound_cons_define x r (sound_stmts rest)
  | .cons (.declare x r) rest => sound_cons_declare x r (sound_stmts rest)
  | .cons (.lookup2 v ok m k) rest => sound_cons_lookup2 v ok m k (sound_stmts rest)
  | .cons (.assign x r) rest =>
    sound_cons_anon (sound_stmt (.assign x r)) (sound_stmts rest) (fun _ _ h => anon_of_tr h (by constructor <;> intros <;> simp))
  | .cons (.mapSet m k e) rest =>
    sound_cons_anon (sound_stmt (.mapSet m k e)) (sound_stmts rest) (fun _ _ h => anon_of_tr h (by constructor <;> intros <;> simp))
  | .cons (.delete m k) rest =>
    sound_cons_anon (sound_stmt (.delete m k)) (sound_stmts rest) (fun _ _ h => anon_of_tr h (by constructor <;> intros <;> simp))
  | .cons (.setIdx s i e) rest =>
    sound_cons_anon (sound_stmt (.setIdx s i e)) (sound_stmts rest) (fun _ _ h => anon_of_tr h (by constructor <;> intros <;> simp))
  | .cons (.copy d s) rest =>
    sound_cons_anon (sound_stmt (.copy d s)) (sound_stmts rest) (fun _ _ h => anon_of_tr h (by constructor <;> intros <;> simp))
  | .cons (.rangeMap k v m body) rest =>
    sound_cons_anon (sound_stmt (.rangeMap k v m body)) (sound_stmts rest) (fun _ _ h => anon_of_tr h (by constructor <;> intros <;> simp))
  | .cons (.rangeSlice i x s body) rest =>
    sound_cons_anon (sound_stmt (.rangeSlice i x s body)) (sound_stmts rest) (fun _ _ h => anon_of_tr h (by constructor <;> intros <;> simp))
  | .cons (.block b) rest =>
    sound_cons_anon (sound_stmt (.block b)) (sound_stmts rest) (fun _ _ h => anon_of_tr h (by constructor <;> intros <;> simp))
  | .cons (.ite c a b) rest =>
    sound_cons_anon (sound_stmt (.ite c a b)) (sound_stmts rest) (fun _ _ h => anon_of_tr h (by constructor <;> intros <;> simp))
theorem sound_stmt : (s : Stmt) → StmtSound s
  | .define x r => fun _ _ Γ _ _ t _ ht => absurd ht (not_anon_define Γ x r t)
  | .declare x r => fun _ _ Γ _ _ t _ ht => absurd ht (not_anon_declare Γ x r t)
  | .lookup2 v ok m k => fun _ _ Γ _ _ t _ ht => absurd ht (not_anon_lookup2 Γ v ok m k t)
  | .assign x r => sound_assign x r
  | .mapSet m k e => sound_mapSet m k e
  | .delete m k => sound_delete m k
  | .setIdx s i e => sound_setIdx s i e
  | .copy d s => sound_copy d s
  | .rangeMap k v m body => sound_rangeMap k v m body (sound_stmts body)
  | .rangeSlice i x s body => sound_rangeSlice i x s body (sound_stmts body)
  | .block b => sound_block b (sound_stmts b)
  | .ite c a b => sound_ite c a b (sound_stmts a) (sound_stmts b)
end

end GooseVerif.Model.Coll
