/-
Helper lemmas for `Model/Conc.lean`, part 6: a CHECKED reachability argument for the Go semantics.  A finite set
`S` of configurations that contains the initial one and is closed under every enabled step (`closedB`, a
decidable check over finitely many labels) contains every configuration any schedule reaches
(`closed_reach`); so "no schedule deadlocks / gets stuck / returns anything but v" for a concrete program is
proved by `decide` on the set the explorer computed.

Only finitely many labels matter: thread ids below the number of threads, and choices up to the largest
number of parked waiters (`maxW`): larger choices all behave alike (`gstep_ch`).
-/
import GooseVerif.Lemmas.ConcPool

namespace GooseVerif.Model.Conc
open GooseVerif.Model.Core (W BinOp CmpOp Exp Cond look)

/-- The largest number of waiters parked on one condition variable. -/
def maxW : Heap → Nat
  | [] => 0
  | .cond _ ws :: h => max ws.length (maxW h)
  | _ :: h => maxW h

theorem maxW_ge {h : Heap} {a l : Nat} {ws : List Nat} (hg : h[a]? = some (.cond l ws)) : ws.length ≤ maxW h := by
  induction h generalizing a with
  | nil => simp at hg
  | cons o h ih =>
    cases a with
    | zero =>
      simp at hg; subst hg
      simp only [maxW]; exact Nat.le_max_left _ _
    | succ a =>
      simp at hg
      have := ih hg
      cases o <;> simp only [maxW] <;> first | exact this | exact Nat.le_trans this (Nat.le_max_right _ _)

/-- Choices beyond the number of waiters all behave alike. -/
theorem gstep_ch {h : Heap} {m : Nat} (hm : maxW h ≤ m) (i : Nat) {ch ch' : Nat} (h1 : m ≤ ch) (h2 : m ≤ ch')
    (t : Thread) : gstep h i ch t = gstep h i ch' t := by
  unfold gstep
  cases t.st with
  | done _ => rfl
  | parked _ _ => rfl
  | relock _ => rfl
  | run =>
    simp only []
    cases t.cur with
    | nil => rfl
    | cons s rest =>
      simp only []
      cases s <;> try rfl
      rename_i c
      simp only [gstepStmt]
      cases look c t.env with
      | none => rfl
      | some b =>
        cases b <;> try rfl
        rename_i ca
        simp only []
        cases hh : h[ca]? with
        | none => rfl
        | some o =>
          cases o <;> try rfl
          rename_i l ws
          simp only []
          have hw := maxW_ge hh
          by_cases he : ws.isEmpty = true
          · simp [he]
          · have c1 : ¬ ch < ws.length := by omega
            have c2 : ¬ ch' < ws.length := by omega
            simp [he, c1, c2]

theorem gcstep_ch {c : GCfg} {m : Nat} (hm : maxW c.heap ≤ m) (i : Nat) {ch ch' : Nat} (h1 : m ≤ ch) (h2 : m ≤ ch') :
    gcstep c (i, ch) = gcstep c (i, ch') := by
  unfold gcstep poolStep
  cases mainDone Thread.doneV c with
  | some _ => rfl
  | none =>
    simp only []
    cases c.threads[i]? with
    | none => rfl
    | some t => simp only [gstep_ch hm i h1 h2 t]

/-- The labels that matter in `c`. -/
def labelsB (c : GCfg) : List Label := labelsOf (maxW c.heap + 1) c

theorem mem_labelsOf {α : Type} {n : Nat} {c : Cfg α} {i ch : Nat} (hi : i < c.threads.length) (hc : ch < n) :
    (i, ch) ∈ labelsOf n c := by
  simp only [labelsOf, List.mem_flatMap, List.mem_range, List.mem_map]
  exact ⟨i, hi, ch, hc, rfl⟩

/-- Every label acts like one of `labelsB` (or is not enabled at all). -/
theorem label_norm (c : GCfg) (lab : Label) :
    gcstep c lab = .blocked ∨ ∃ lab' ∈ labelsB c, gcstep c lab = gcstep c lab' := by
  obtain ⟨i, ch⟩ := lab
  by_cases hi : i < c.threads.length
  · by_cases hc : ch < maxW c.heap + 1
    · exact .inr ⟨(i, ch), mem_labelsOf hi hc, rfl⟩
    · refine .inr ⟨(i, maxW c.heap), mem_labelsOf hi (Nat.lt_succ_self _), ?_⟩
      exact gcstep_ch (Nat.le_refl _) i (by omega) (Nat.le_refl _)
  · left
    unfold gcstep poolStep
    cases mainDone Thread.doneV c with
    | some _ => rfl
    | none =>
      simp only []
      rw [List.getElem?_eq_none (by omega)]

/-- `S` is closed under every step. -/
def closedB (S : List GCfg) : Bool :=
  S.all fun c => (labelsB c).all fun lab =>
    match gcstep c lab with
    | .ok c' => S.contains c'
    | _ => true

theorem closed_step {S : List GCfg} (hcl : closedB S = true) {c c' : GCfg} {lab : Label} (hc : c ∈ S)
    (hs : gcstep c lab = .ok c') : c' ∈ S := by
  rcases label_norm c lab with hb | ⟨lab', hmem, heq⟩
  · rw [hb] at hs; cases hs
  · rw [heq] at hs
    simp only [closedB, List.all_eq_true] at hcl
    have := hcl c hc lab' hmem
    simp only [hs] at this
    simpa using this

theorem closed_reach {S : List GCfg} (hcl : closedB S = true) : ∀ (sched : List Label) {c c' : GCfg}, c ∈ S →
    grun c sched = some c' → c' ∈ S := by
  intro sched
  induction sched with
  | nil => intro c c' hc hr; simp [grun, poolRun] at hr; subst hr; exact hc
  | cons lab rest ih =>
    intro c c' hc hr
    simp only [grun, poolRun] at hr
    cases hs : poolStep gstep Thread.doneV c lab with
    | blocked => simp [hs] at hr
    | stuck => simp [hs] at hr
    | ok c1 =>
      simp only [hs] at hr
      exact ih (closed_step hcl hc hs) hr

/-! ### deadlock, stuck, returned values -/

/-- Deadlock: the main thread has not returned and no label is enabled. -/
def GDeadlock (c : GCfg) : Prop := mainDone Thread.doneV c = none ∧ ∀ lab, gcstep c lab = .blocked

/-- Some thread has no rule to apply (Go: a fatal error or a panic). -/
def GStuck (c : GCfg) : Prop := ∃ lab, gcstep c lab = .stuck

def deadlockB (c : GCfg) : Bool :=
  (mainDone Thread.doneV c).isNone && (labelsB c).all fun lab =>
    match gcstep c lab with
    | .blocked => true
    | _ => false

def stuckB (c : GCfg) : Bool :=
  (labelsB c).any fun lab =>
    match gcstep c lab with
    | .stuck => true
    | _ => false

theorem deadlockB_of {c : GCfg} (h : GDeadlock c) : deadlockB c = true := by
  simp only [deadlockB, Bool.and_eq_true, List.all_eq_true]
  refine ⟨by simp [h.1], fun lab _ => by rw [h.2 lab]⟩

theorem stuckB_of {c : GCfg} (h : GStuck c) : stuckB c = true := by
  obtain ⟨lab, hs⟩ := h
  rcases label_norm c lab with hb | ⟨lab', hmem, heq⟩
  · rw [hb] at hs; cases hs
  · simp only [stuckB, List.any_eq_true]
    exact ⟨lab', hmem, by rw [← heq, hs]⟩

/-- The configurations the memoised explorer has visited. -/
def reachSet (nch fuel : Nat) (c : GCfg) : List GCfg :=
  (exploreGo gcstep Thread.doneV nch (fun (s : List GCfg) c => s.contains c) (fun s c => c :: s) fuel [c]
    { seen := [], outs := [], count := 0 }).1.seen

/-- The check: `S` contains the initial configuration, is closed, and none of its members is deadlocked or
stuck; every returned value satisfies `okV`. -/
def safeB (S : List GCfg) (c0 : GCfg) (okV : W → Bool) : Bool :=
  S.contains c0 && closedB S && S.all fun c =>
    !deadlockB c && !stuckB c && (match mainDone Thread.doneV c with | some v => okV v | none => true)

/-- **Soundness of the check**: over ALL schedules, no deadlock, no stuck thread, only allowed values. -/
theorem safe_sound {S : List GCfg} {c0 : GCfg} {okV : W → Bool} (h : safeB S c0 okV = true) (sched : List Label) (c : GCfg)
    (hr : grun c0 sched = some c) :
    ¬ GDeadlock c ∧ ¬ GStuck c ∧ ∀ v, mainDone Thread.doneV c = some v → okV v = true := by
  simp only [safeB, Bool.and_eq_true, List.all_eq_true] at h
  obtain ⟨⟨h0, hcl⟩, hall⟩ := h
  have hc : c ∈ S := closed_reach hcl sched (by simpa using h0) hr
  have := hall c hc
  simp only [Bool.not_eq_true'] at this
  obtain ⟨⟨hd, hst⟩, hv⟩ := this
  refine ⟨fun hdl => ?_, fun hs => ?_, fun v hm => ?_⟩
  · rw [deadlockB_of hdl] at hd; cases hd
  · rw [stuckB_of hs] at hst; cases hst
  · rw [hm] at hv; exact hv

/-- The general form: an invariant `P` checked on a closed set holds in every reachable configuration. -/
def invB (S : List GCfg) (c0 : GCfg) (P : GCfg → Bool) : Bool := S.contains c0 && closedB S && S.all P

theorem inv_sound {S : List GCfg} {c0 : GCfg} {P : GCfg → Bool} (h : invB S c0 P = true) (sched : List Label) (c : GCfg)
    (hr : grun c0 sched = some c) : P c = true := by
  simp only [invB, Bool.and_eq_true, List.all_eq_true] at h
  obtain ⟨⟨h0, hcl⟩, hall⟩ := h
  exact hall c (closed_reach hcl sched (by simpa using h0) hr)

end GooseVerif.Model.Conc
