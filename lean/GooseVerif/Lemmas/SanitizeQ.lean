/-
Lemmas about the quote repair of `AddComment` (`fixQuotes`): it creates no comment delimiter and
always leaves the lexer's string mode off at the end of the comment.
-/
import GooseVerif.Lemmas.Sanitize

namespace GooseVerif.Lemmas.Sanitize
open GooseVerif.Model.Sanitize GooseVerif.GL

/-- the string mode after `l` is the start mode flipped once per quote -/
theorem inStringAfter_parity (l : List Char) : ∀ m, inStringAfter m l = (m != (l.count '"' % 2 == 1)) := by
  induction l with
  | nil => intro m; simp [inStringAfter]
  | cons x xs ih =>
    intro m
    by_cases hx : x = '"'
    · subst hx
      simp only [inStringAfter, if_true, ih, List.count_cons_self]
      generalize xs.count '"' = n
      rcases Nat.mod_two_eq_zero_or_one n with h | h
      · have h2 : (n + 1) % 2 = 1 := by omega
        cases m <;> simp [h, h2]
      · have h2 : (n + 1) % 2 = 0 := by omega
        cases m <;> simp [h, h2]
    · have hne : (x == '"') = false := by simpa using hx
      simp only [inStringAfter, hx, if_false, ih, List.count_cons, hne]
      simp

def unquote (x : Char) : Char := if x = '"' then '\'' else x

theorem count_map_unquote (l : List Char) : (l.map unquote).count '"' = 0 := by
  induction l with
  | nil => rfl
  | cons x xs ih =>
    by_cases hx : x = '"'
    · subst hx; simpa [unquote] using ih
    · have : (unquote x == '"') = false := by simp [unquote, hx]
      simp only [List.map_cons, List.count_cons, this, ih]; simp

theorem hasPair_map_unquote (a b : Char) (ha : a ≠ '\'') (hb : b ≠ '\'') (ha' : a ≠ '"') (hb' : b ≠ '"') :
    ∀ l : List Char, hasPair a b (l.map unquote) = hasPair a b l := by
  intro l
  induction l with
  | nil => rfl
  | cons x xs ih =>
    cases xs with
    | nil => simp [hasPair]
    | cons y ys =>
      simp only [List.map_cons, hasPair] at ih ⊢
      rw [ih]
      have h1 : (unquote x == a) = (x == a) := by
        by_cases hx : x = '"'
        · subst hx
          have e1 : ('\'' == a) = false := by simpa using Ne.symm ha
          have e2 : ('"' == a) = false := by simpa using Ne.symm ha'
          simp [unquote, e1, e2]
        · simp [unquote, hx]
      have h2 : (unquote y == b) = (y == b) := by
        by_cases hy : y = '"'
        · subst hy
          have e1 : ('\'' == b) = false := by simpa using Ne.symm hb
          have e2 : ('"' == b) = false := by simpa using Ne.symm hb'
          simp [unquote, e1, e2]
        · simp [unquote, hy]
      rw [h1, h2]

theorem fixQuotes_eq (c : List Char) :
    fixQuotes c = if c.count '"' % 2 = 1 then c.map unquote else c := rfl

theorem hasPair_fixQuotes (a b : Char) (ha : a ≠ '\'') (hb : b ≠ '\'') (ha' : a ≠ '"') (hb' : b ≠ '"') (c : List Char) :
    hasPair a b (fixQuotes c) = hasPair a b c := by
  rw [fixQuotes_eq]; split
  · exact hasPair_map_unquote a b ha hb ha' hb' c
  · rfl

theorem inStringAfter_fixQuotes (c : List Char) : inStringAfter false (fixQuotes c) = false := by
  rw [fixQuotes_eq]; split
  · rw [inStringAfter_parity, count_map_unquote]; rfl
  · rename_i h
    rw [inStringAfter_parity]
    simp [h]

theorem length_fixQuotes (c : List Char) : (fixQuotes c).length = c.length := by
  rw [fixQuotes_eq]; split <;> simp

end GooseVerif.Lemmas.Sanitize

namespace GooseVerif.Lemmas.Sanitize
open GooseVerif.Model.Sanitize GooseVerif.GL

theorem sanitizeQ_no_open (c : List Char) : hasPair '(' '*' (sanitizeQ c) = false := by
  unfold sanitizeQ
  rw [hasPair_fixQuotes _ _ (by decide) (by decide) (by decide) (by decide)]
  exact sanitize_no_open c

theorem sanitizeQ_no_close (c : List Char) : hasPair '*' ')' (sanitizeQ c) = false := by
  unfold sanitizeQ
  rw [hasPair_fixQuotes _ _ (by decide) (by decide) (by decide) (by decide)]
  exact sanitize_no_close c

theorem sanitizeQ_string_mode (c : List Char) : inStringAfter false (sanitizeQ c) = false :=
  inStringAfter_fixQuotes _

/-- The indented block body with the quote repair: delimiter-free text with the string mode off,
then the closing ` *)`. -/
theorem block_bodyQ (k : Nat) (c : List Char) :
    ∃ t, indentLines k (sanitizeQ c ++ [' ', '*', ')']) = t ++ [' ', '*', ')'] ∧
      hasPair '(' '*' t = false ∧ hasPair '*' ')' t = false ∧ inStringAfter false t = false := by
  obtain ⟨m, hm⟩ := indentLines_append k [' ', '*', ')'] (by decide) (by simp) (sanitizeQ c)
  refine ⟨indentLines k (sanitizeQ c) ++ List.replicate m ' ', hm, ?_, ?_, ?_⟩
  · rw [hasPair_append_spaces _ _ (by decide) (by decide)]
    exact hasPair_indentLines _ _ (by decide) (by decide) k _ (sanitizeQ_no_open c)
  · rw [hasPair_append_spaces _ _ (by decide) (by decide)]
    exact hasPair_indentLines _ _ (by decide) (by decide) k _ (sanitizeQ_no_close c)
  · rw [inStringAfter_append, inStringAfter_spaces, inStringAfter_indentLines]
    exact sanitizeQ_string_mode c

end GooseVerif.Lemmas.Sanitize
