/-
Helper lemmas for the functions theorem, part 4: function BODIES, the table of emitted definitions, and the
induction on FUEL that closes the knot between the two call oracles (`apply_sim`).
-/
import GooseVerif.Lemmas.FunStmt

set_option linter.unusedSimpArgs false
set_option linter.unusedSectionVars false

namespace GooseVerif.Model.Fun
open GooseVerif.Model.Heap (look)
open GooseVerif.Model.Coll (Obj getCell getArr Cmp bindE bindE_ok)

/-- A function body: `return vs` is the tuple of the results, falling off the end is `#()`. -/
theorem body_sim {P : Pkg} {apG : GOracle} {apT : TOracle} (hap : OracleRel P apG apT) {env : Env} {G : GHeap} {body : Stmts} {tb : T}
    (ht : trStmts false P (selfOf env) (senv env) body .returned = .ok tb) (he : EnvOK P env) (hG : HeapOK G) :
    SimR P (runBody apG P env G body) (evalT apT (envT P env) tb (heapT P G)) := by
  have h := sound_stmts hap body env G .returned tb ht he hG
  unfold runBody
  cases hx : execStmts apG P env G body with
  | ok o =>
    rw [hx] at h
    cases o with
    | normal e' g' =>
      obtain ⟨tv, h1, h2, h3⟩ := h
      have := h2 rfl
      subst this
      exact ⟨h1, ValsOK_nil P, h3⟩
    | returned vs g' =>
      obtain ⟨_, h1, h2, h3⟩ := h
      exact ⟨h1, h2, h3⟩
  | fuel =>
    rw [hx] at h
    exact h
  | bad => trivial

/-- The table of emitted definitions has, under the name of every declaration, its translation. -/
theorem findT_of_findFn {P0 : Pkg} {g : String} {d : FuncDecl} : (ds : Pkg) → {tds : TPkg} → trDecls false P0 ds = .ok tds →
    findFn g ds = some d →
    d.named = false ∧ d.name = g ∧ ∃ tb, trBody false P0 d.name [] d.allParams d.body = .ok tb ∧
      findT g tds = some (trParams d.allParams, tb)
  | [], _, _, hf => by simp [findFn] at hf
  | d0 :: r, tds, ht, hf => by
    simp only [trDecls] at ht
    obtain ⟨td, htd, ht⟩ := bindE_ok ht
    obtain ⟨tr, htr, ht⟩ := bindE_ok ht
    cases ht
    simp only [findFn] at hf
    unfold trDeclX at htd
    by_cases hnamed : d0.named = true
    · simp [hnamed] at htd
    · simp only [hnamed, Bool.false_eq_true, if_false] at htd
      obtain ⟨tb, htb, htd⟩ := bindE_ok htd
      cases htd
      by_cases hname : d0.name = g
      · simp only [hname, if_true, Option.some.injEq] at hf
        subst hf
        refine ⟨by simpa using hnamed, hname, tb, htb, ?_⟩
        simp only [findT, hname, if_true]
      · simp only [hname, if_false] at hf
        obtain ⟨h1, h2, tb', h3, h4⟩ := findT_of_findFn r htr hf
        refine ⟨h1, h2, tb', h3, ?_⟩
        simp only [findT, hname, if_false]
        exact h4

/-- The two semantics of calls agree at every fuel: induction on the fuel, the bodies by `sound_stmts`. -/
theorem apply_sim {P : Pkg} {TP : TPkg} (hP : tr P = .ok TP) : (n : Nat) → OracleRel P (apply P n) (applyT TP n)
  | 0 => by
    intro fv args G _ _ _
    simp only [apply, applyT]
    rfl
  | n + 1 => by
    have ih := apply_sim hP n
    intro fv args G hfv hargs hG
    cases fv with
    | fn g =>
      simp only [apply, toT, applyT]
      cases hf : findFn g P with
      | none => exact SimG.bad
      | some d =>
        obtain ⟨hnamed, hname, tb, htb, hfT⟩ := findT_of_findFn P hP hf
        simp only [hnamed, Bool.false_eq_true, if_false, hfT]
        cases hb : bindPs d.allParams args (.top d.name) with
        | none => exact SimG.bad
        | some env =>
          have hbt := bindTs_params (P := P) hb
          simp only [envT, hname] at hbt
          simp only [hbt]
          have hs := senv_bindPs hb
          simp only [senv, selfOf] at hs
          apply body_sim ih _ (EnvOK_bindPs hb (by simp [EnvOK]) hargs) hG
          rw [hs.1, hs.2]
          exact htb
    | clo ps body env0 =>
      simp only [apply, toT, applyT]
      simp only [ValOK] at hfv
      obtain ⟨he0, tb, htb⟩ := hfv
      cases hb : bindPs ps args env0 with
      | none => exact SimG.bad
      | some env =>
        have hbt := bindTs_params (P := P) hb
        simp only [hbt]
        have hs := senv_bindPs hb
        have hD : trBodyD P (selfOf env0) (senv env0) ps body = tb := by
          simp only [trBodyD, htb]
        rw [hD]
        apply body_sim ih _ (EnvOK_bindPs hb he0 hargs) hG
        rw [hs.1, hs.2]
        exact htb
    | num _ => exact SimG.bad
    | bool _ => exact SimG.bad
    | str _ => exact SimG.bad
    | bytes _ => exact SimG.bad
    | strct _ _ => exact SimG.bad
    | ptr _ => exact SimG.bad

end GooseVerif.Model.Fun
