/-
Helper lemmas for the functions theorem, part 3: STATEMENTS, function bodies, and the induction on FUEL.

`StepQ` says what a statement that completes normally does in terms of the `coq.Binding` goose makes of it: its
expression evaluates to some value, binding that value (`Bind.extT`) gives the translated new environment, and the
static environment goose continues with (`Bind.scope`) is the one of the new run-time environment.  `OutQ` relates the
outcome of a statement LIST with the value of the expression goose makes of it under a usage: `return vs` is the tuple
of the results, normal completion of a function body is `#()`.  `StmtsSound` is proved by structural induction over
statement lists (the three cases of `ifStmt` as in `Model/Core.lean`), for an arbitrary pair of related call oracles;
`apply_sim` then closes the knot by induction on the fuel: the oracles of level `n + 1` run bodies with the oracles of
level `n`.
-/
import GooseVerif.Lemmas.FunExp

set_option linter.unusedSimpArgs false
set_option linter.unusedSectionVars false

namespace GooseVerif.Model.Fun
open GooseVerif.Model.Heap (look)
open GooseVerif.Model.Coll (Obj getCell getArr Cmp bindE bindE_ok)

/-! ### bindings -/

def Bind.expr : Bind → T
  | .letIn _ _ e => e
  | .letN _ e => e
  | .anon e => e

/-- the environment after the binding, given the value of its expression -/
def Bind.extT (b : Bind) (tv : TVal) (tenv : TEnv) : Option TEnv :=
  match b with
  | .letIn x _ _ => some (if x = "_" then tenv else .cons x tv tenv)
  | .letN xs _ => (unpair xs.length tv).bind fun vs => bindTs xs vs tenv
  | .anon _ => some tenv

theorem evalT_addTo_false (ap : TOracle) (b : Bind) (r : T) (tenv : TEnv) (H : THeap) :
    evalT ap tenv (b.addTo false r) H = (evalT ap tenv b.expr H).bind fun q =>
      match b.extT q.1 tenv with
      | some tenv' => evalT ap tenv' r q.2
      | none => .bad := by
  cases b with
  | letIn x w e => simp only [Bind.addTo, evalT, Bind.expr, Bind.extT]
  | letN xs e =>
    simp only [Bind.addTo, evalT, Bind.expr, Bind.extT]
    congr 1
    funext q
    cases unpair xs.length q.1 with
    | none => rfl
    | some vs =>
      simp only [ofOpt_some, res_ok_bind, Option.bind]
      cases bindTs xs vs tenv <;> rfl
  | anon e => simp only [Bind.addTo, evalT, Bind.expr, Bind.extT]

theorem addTo_true (b : Bind) (r : T) : b.addTo true r = b.expr := by
  cases b <;> rfl

/-! ### sequencing on the Go side -/

/-- continue with `k` after normal completion -/
def thenStmts (r : Res Out) (k : Env → GHeap → Res Out) : Res Out :=
  match r with
  | .ok (.normal e g) => k e g
  | r => r

theorem execStmts_cons (ap : GOracle) (P : Pkg) (env : Env) (G : GHeap) (s : Stmt) (rest : Stmts) :
    execStmts ap P env G (.cons s rest) = thenStmts (execStmt ap P env G s) (fun e g => execStmts ap P e g rest) := by
  simp only [execStmts, thenStmts]
  cases execStmt ap P env G s with
  | ok o => cases o <;> rfl
  | fuel => rfl
  | bad => rfl

theorem thenStmts_bind {α : Type} (r : Res α) (f : α → Res Out) (k : Env → GHeap → Res Out) :
    thenStmts (r.bind f) k = r.bind fun a => thenStmts (f a) k := by
  cases r <;> rfl

theorem leave_normal_or {env : Env} {r : Res Out} {e : Env} {g : GHeap} (h : leave env r = .ok (.normal e g)) :
    ∃ e', r = .ok (.normal e' g) ∧ e = env := by
  cases r with
  | ok o =>
    cases o with
    | normal e' g' =>
      simp only [leave] at h
      cases h
      exact ⟨e', rfl, rfl⟩
    | returned vs g' => simp [leave] at h
  | fuel => simp [leave] at h
  | bad => simp [leave] at h

/-! ### a list that ends in `return` does not complete normally -/

mutual
theorem endsWithReturn_not_normal (ap : GOracle) (P : Pkg) : (ss : Stmts) → endsWithReturn ss = true →
    ∀ env G e g, execStmts ap P env G ss ≠ .ok (.normal e g)
  | .nil, h => by simp [endsWithReturn] at h
  | .cons s .nil, h => by
    intro env G e g hx
    simp only [endsWithReturn] at h
    rw [execStmts_cons] at hx
    cases hs : execStmt ap P env G s with
    | ok o =>
      cases o with
      | normal e' g' => exact endsWithReturnS_not_normal ap P s h env G e' g' hs
      | returned vs g' => simp [hs, thenStmts] at hx
    | fuel => simp [hs, thenStmts] at hx
    | bad => simp [hs, thenStmts] at hx
  | .cons s (.cons s' rest), h => by
    intro env G e g hx
    simp only [endsWithReturn] at h
    rw [execStmts_cons] at hx
    cases hs : execStmt ap P env G s with
    | ok o =>
      cases o with
      | normal e' g' =>
        simp only [hs, thenStmts] at hx
        exact endsWithReturn_not_normal ap P (.cons s' rest) h e' g' e g hx
      | returned vs g' => simp [hs, thenStmts] at hx
    | fuel => simp [hs, thenStmts] at hx
    | bad => simp [hs, thenStmts] at hx
theorem endsWithReturnS_not_normal (ap : GOracle) (P : Pkg) : (s : Stmt) → endsWithReturnS s = true →
    ∀ env G e g, execStmt ap P env G s ≠ .ok (.normal e g)
  | .ret es, _ => by
    intro env G e g hx
    simp only [execStmt] at hx
    cases h1 : evalEs ap P env es G <;> simp [h1] at hx
  | .ite c thn els, h => by
    intro env G e g hx
    simp only [endsWithReturnS, Bool.and_eq_true] at h
    simp only [execStmt] at hx
    cases h1 : evalE ap P env c G with
    | ok p =>
      simp only [h1, res_ok_bind] at hx
      cases h2 : asBool p.1 with
      | ok b =>
        simp only [h2, res_ok_bind] at hx
        cases b with
        | true =>
          simp only [if_true] at hx
          obtain ⟨e', hn, _⟩ := leave_normal_or hx
          exact endsWithReturn_not_normal ap P thn h.1 env p.2 e' g hn
        | false =>
          simp only [Bool.false_eq_true, if_false] at hx
          obtain ⟨e', hn, _⟩ := leave_normal_or hx
          exact endsWithReturn_not_normal ap P els h.2 env p.2 e' g hn
      | fuel => simp [h2] at hx
      | bad => simp [h2] at hx
    | fuel => simp [h1] at hx
    | bad => simp [h1] at hx
  | .define _ _, h => by simp [endsWithReturnS] at h
  | .declare _ _ _, h => by simp [endsWithReturnS] at h
  | .assign _ _, h => by simp [endsWithReturnS] at h
  | .defineN _ _, h => by simp [endsWithReturnS] at h
  | .setP _ _ _, h => by simp [endsWithReturnS] at h
  | .setV _ _ _, h => by simp [endsWithReturnS] at h
  | .expr _, h => by simp [endsWithReturnS] at h
end

/-! ### statements -/

section stmts
variable (P : Pkg) (apG : GOracle) (apT : TOracle)

/-- normal completion of a statement, in terms of its binding -/
def StepQ (b : Bind) (env : Env) : Out → Res (TVal × THeap) → Prop
  | .normal env' G', rt => ∃ tv, rt = .ok (tv, heapT P G') ∧ b.extT tv (envT P env) = some (envT P env') ∧
      senv env' = b.scope (senv env) ∧ selfOf env' = selfOf env ∧ EnvOK P env' ∧ HeapOK G'
  | .returned _ _, _ => False

/-- the outcome of a statement list under a usage -/
def OutQ (u : Usage) : Out → Res (TVal × THeap) → Prop
  | .normal _ G', rt => ∃ tv, rt = .ok (tv, heapT P G') ∧ (u = .returned → tv = .unit) ∧ HeapOK G'
  | .returned vs G', rt => u = .returned ∧ rt = .ok (tupleV (vs.map (toT P)), heapT P G') ∧ ValsOK P vs ∧ HeapOK G'

def StmtsSound (ss : Stmts) : Prop :=
  ∀ env G u t, trStmts false P (selfOf env) (senv env) ss u = .ok t → EnvOK P env → HeapOK G →
    SimG (OutQ P u) (execStmts apG P env G ss) (evalT apT (envT P env) t (heapT P G))

/-- a statement other than `if` and `return`: it completes normally, as its binding says -/
def SimpleSound (s : Stmt) : Prop :=
  ∀ env G u b fin, trInBlock false P (selfOf env) (senv env) s u = .ok (b, fin) → EnvOK P env → HeapOK G →
    fin = (u == .loc) ∧ SimG (StepQ P b env) (execStmt apG P env G s) (evalT apT (envT P env) b.expr (heapT P G))

variable {P apG apT}
variable (hap : OracleRel P apG apT)
include hap

theorem simple_define (x : String) (e : Exp) : SimpleSound P apG apT (.define x e) := by
  intro env G u b fin ht he hG
  simp only [trInBlock] at ht
  obtain ⟨t, hte, ht⟩ := bindE_ok ht
  cases ht
  refine ⟨rfl, ?_⟩
  simp only [execStmt, Bind.expr]
  refine Sim.bindG0 (sound_exp hap e env G t hte he hG) (fun p hp => ?_)
  refine ⟨toT P p.1, rfl, ?_, ?_, ?_, ?_, hp.2⟩
  · by_cases hx : x = "_" <;> simp [Bind.extT, hx, envT]
  · by_cases hx : x = "_" <;> simp [Bind.scope, hx, senv]
  · by_cases hx : x = "_" <;> simp [hx, selfOf]
  · by_cases hx : x = "_"
    · simp only [hx, if_true]; exact he
    · simp only [hx, if_false, EnvOK]; exact ⟨hp.1, he⟩

theorem simple_declare (x : String) (ty : Ty) (e : Exp) : SimpleSound P apG apT (.declare x ty e) := by
  intro env G u b fin ht he hG
  simp only [trInBlock] at ht
  split at ht
  · cases ht
  · obtain ⟨t, hte, ht⟩ := bindE_ok ht
    cases ht
    refine ⟨rfl, ?_⟩
    simp only [execStmt, Bind.expr, evalT]
    refine Sim.bindG (sound_exp hap e env G t hte he hG) (fun p hp => ?_)
    by_cases hty : p.1.hasTy ty = true
    · simp only [hty, if_true]
      refine ⟨.loc p.2.length, ?_, ?_, ?_, ?_, ?_, HeapOK_append_cell hp.2 (hasTy_fo hty)⟩
      · simp [Obj.mapCell]
      · by_cases hx : x = "_" <;> simp [Bind.extT, hx, envT]
      · by_cases hx : x = "_" <;> simp [Bind.scope, hx, senv]
      · by_cases hx : x = "_" <;> simp [hx, selfOf]
      · by_cases hx : x = "_"
        · simp only [hx, if_true]; exact he
        · simp only [hx, if_false, EnvOK]; exact he
    · simp only [hty]
      exact SimG.bad

theorem simple_assign (x : String) (e : Exp) : SimpleSound P apG apT (.assign x e) := by
  intro env G u b fin ht he hG
  simp only [trInBlock, look_senv] at ht
  obtain ⟨t, hte, ht⟩ := bindE_ok ht
  cases hl : lookE x env with
  | none => simp [hl] at ht
  | some bd =>
    cases bd with
    | val v => simp [hl] at ht
    | cell ty o =>
      simp [hl] at ht
      obtain ⟨hb, hfin⟩ := ht
      subst hb
      refine ⟨hfin.symm, ?_⟩
      simp only [execStmt, Bind.expr, evalT, lookT_envT, hl, ofOpt_some, res_ok_bind, asLocT]
      refine Sim.bindG (sound_exp hap e env G t hte he hG) (fun p hp => ?_)
      simp only [res_ok_bind]
      apply sim_getCell P o hp.2
      intro v0 _ _
      by_cases hty : p.1.hasTy ty = true
      · simp only [hty, if_true]
        refine ⟨.unit, ?_, rfl, rfl, rfl, he, HeapOK_set_cell hp.2 (hasTy_fo hty)⟩
        simp [Obj.mapCell]
      · simp only [hty]
        exact SimG.bad

theorem simple_defineN (xs : List String) (e : Exp) : SimpleSound P apG apT (.defineN xs e) := by
  intro env G u b fin ht he hG
  simp only [trInBlock] at ht
  split at ht
  · cases ht
  · obtain ⟨t, hte, ht⟩ := bindE_ok ht
    cases ht
    refine ⟨rfl, ?_⟩
    simp only [execStmt, Bind.expr]
    refine Sim.bindG0 (sound_evalC hap e hte he hG) (fun p hp => ?_)
    by_cases hk : 2 ≤ xs.length
    · simp only [hk, if_true]
      cases hb : bindPs xs p.1 env with
      | none => exact SimG.bad
      | some env' =>
        simp only [ofOpt_some, res_ok_bind]
        have hlen := bindPs_length hb
        have hs := senv_bindPs hb
        refine ⟨_, rfl, ?_, hs.1, hs.2, EnvOK_bindPs hb he hp.1, hp.2⟩
        have hne : p.1.map (toT P) ≠ [] := by
          intro h0
          have h1 : (p.1.map (toT P)).length = 0 := by rw [h0]; rfl
          rw [List.length_map] at h1
          omega
        have hu := unpair_tupleV (p.1.map (toT P)) hne
        simp only [List.length_map] at hu
        simp only [Bind.extT, hlen, hu, Option.bind]
        exact bindTs_bindPs hb
    · simp only [hk]
      exact SimG.bad

theorem simple_setP (f : Fld) (p e : Exp) : SimpleSound P apG apT (.setP f p e) := by
  intro env G u b fin ht he hG
  simp only [trInBlock] at ht
  obtain ⟨te, hte, ht⟩ := bindE_ok ht
  obtain ⟨tp, htp, ht⟩ := bindE_ok ht
  cases ht
  refine ⟨rfl, ?_⟩
  simp only [execStmt, Bind.expr, evalT]
  refine Sim.bindG (sound_exp hap e env G te hte he hG) (fun p1 hp1 => ?_)
  apply sim_asNum P
  intro x
  refine Sim.bindG (sound_exp hap p env p1.2 tp htp he hp1.2) (fun p2 hp2 => ?_)
  apply sim_asPtr P
  intro o
  apply sim_getStrct P
  intro s _
  refine ⟨.unit, ?_, rfl, rfl, rfl, he, HeapOK_set_cell hp2.2 rfl⟩
  simp [Obj.mapCell, toT]

theorem simple_setV (f : Fld) (v : String) (e : Exp) : SimpleSound P apG apT (.setV f v e) := by
  intro env G u b fin ht he hG
  simp only [trInBlock, look_senv] at ht
  obtain ⟨te, hte, ht⟩ := bindE_ok ht
  cases hl : lookE v env with
  | none => simp [hl] at ht
  | some bd =>
    cases bd with
    | val w => simp [hl] at ht
    | cell ty o =>
      simp [hl] at ht
      obtain ⟨hb, hfin⟩ := ht
      subst hb
      refine ⟨hfin.symm, ?_⟩
      simp only [execStmt, Bind.expr, evalT, lookT_envT, hl, ofOpt_some, res_ok_bind, asLocT]
      refine Sim.bindG (sound_exp hap e env G te hte he hG) (fun p1 hp1 => ?_)
      apply sim_asNum P
      intro x
      simp only [res_ok_bind]
      cases ty with
      | strct =>
        apply sim_getStrct P
        intro s _
        refine ⟨.unit, ?_, rfl, rfl, rfl, he, HeapOK_set_cell hp1.2 rfl⟩
        simp [Obj.mapCell, toT]
      | u64 => exact SimG.bad
      | bool => exact SimG.bad
      | str => exact SimG.bad
      | bytes => exact SimG.bad
      | ptr => exact SimG.bad
      | fn => exact SimG.bad

theorem simple_expr (e : Exp) : SimpleSound P apG apT (.expr e) := by
  intro env G u b fin ht he hG
  simp only [trInBlock] at ht
  obtain ⟨t, hte, ht⟩ := bindE_ok ht
  cases ht
  refine ⟨rfl, ?_⟩
  simp only [execStmt, Bind.expr]
  refine Sim.bindG0 (sound_evalC hap e hte he hG) (fun p hp => ?_)
  exact ⟨_, rfl, rfl, rfl, rfl, he, hp.2⟩

/-! ### `return` -/

omit hap in
/-- the value of `return e1, …, ek`: `#()`, the value, or the tuple -/
theorem sim_tupleOf {r : Res (List Val × GHeap)} {ts : Ts} {tenv : TEnv} {H : THeap}
    (hs : SimEs P r (evalTs apT tenv ts H)) : SimR P r (evalT apT tenv (tupleOf ts) H) := by
  cases ts with
  | nil =>
    simp only [evalTs] at hs
    simp only [tupleOf, evalT]
    cases r with
    | ok p =>
      obtain ⟨h1, h2⟩ := hs
      simp only [Res.ok.injEq, Prod.mk.injEq] at h1
      refine ⟨?_, h2⟩
      show Res.ok (TVal.unit, H) = Res.ok (tupleV (p.1.map (toT P)), heapT P p.2)
      rw [← h1.1, h1.2]
      rfl
    | fuel => cases hs
    | bad => trivial
  | cons t ts' =>
    cases ts' with
    | nil =>
      simp only [evalTs, res_ok_bind] at hs
      simp only [tupleOf]
      cases hq : evalT apT tenv t H with
      | ok q =>
        simp only [hq, res_ok_bind] at hs
        cases r with
        | ok p =>
          obtain ⟨h1, h2⟩ := hs
          simp only [Res.ok.injEq, Prod.mk.injEq] at h1
          refine ⟨?_, h2⟩
          show Res.ok q = Res.ok (tupleV (p.1.map (toT P)), heapT P p.2)
          rw [← h1.1, ← h1.2]
          rfl
        | fuel => simp [SimG] at hs
        | bad => trivial
      | fuel =>
        simp only [hq, res_fuel_bind] at hs
        cases r with
        | ok p => simp [SimG] at hs
        | fuel => rfl
        | bad => trivial
      | bad =>
        simp only [hq, res_bad_bind] at hs
        cases r with
        | ok p => simp [SimG] at hs
        | fuel => simp [SimG] at hs
        | bad => trivial
    | cons t2 ts2 =>
      simp only [tupleOf, evalT]
      cases r with
      | ok p =>
        obtain ⟨h1, h2⟩ := hs
        rw [h1]
        exact ⟨rfl, h2⟩
      | fuel =>
        have : evalTs apT tenv (.cons t (.cons t2 ts2)) H = .fuel := hs
        rw [this]
        rfl
      | bad => trivial

/-! ### statement lists -/

theorem sound_nil_stmts : StmtsSound P apG apT .nil := by
  intro env G u t ht he hG
  simp only [trStmts] at ht
  cases ht
  simp only [execStmts, evalT]
  exact ⟨.unit, rfl, fun _ => rfl, hG⟩

theorem sound_cons_ret (es : Exps) (rest : Stmts) : StmtsSound P apG apT (.cons (.ret es) rest) := by
  intro env G u t ht he hG
  simp only [trStmts] at ht
  rw [execStmts_cons]
  simp only [execStmt, thenStmts_bind]
  simp only [thenStmts]
  by_cases hn : rest.isNil = true
  · simp only [hn, if_true] at ht
    obtain ⟨bf, hbf, ht⟩ := bindE_ok ht
    cases u with
    | returned =>
      simp only [trInBlock] at hbf
      obtain ⟨ts, hts, hbf⟩ := bindE_ok hbf
      cases hbf
      simp only [if_true, Bind.addTo] at ht
      cases ht
      have h1 := sim_tupleOf (sound_exps hap es env G ts hts he hG)
      refine Sim.bindG0 h1 (fun p hp => ?_)
      show OutQ P Usage.returned (Out.returned p.1 p.2) (Res.ok (tupleV (p.1.map (toT P)), heapT P p.2))
      exact ⟨rfl, rfl, hp.1, hp.2⟩
    | loc => simp [trInBlock] at hbf
  · simp only [hn, Bool.false_eq_true, if_false] at ht
    obtain ⟨bf, hbf, ht⟩ := bindE_ok ht
    simp [trInBlock] at hbf

/-- a statement that completes normally in front of a list -/
theorem sound_cons_simple {s : Stmt} {rest : Stmts} (hs : SimpleSound P apG apT s)
    (hunf : ∀ self Γ u, trStmts false P self Γ (.cons s rest) u =
      if rest.isNil then
        bindE (trInBlock false P self Γ s u) fun bf => .ok (if bf.2 then bf.1.addTo true .unit else bf.1.addTo false .unit)
      else
        bindE (trInBlock false P self Γ s .loc) fun bf =>
        bindE (trStmts false P self (bf.1.scope Γ) rest u) fun r => .ok (bf.1.addTo false r))
    (hrest : StmtsSound P apG apT rest) : StmtsSound P apG apT (.cons s rest) := by
  intro env G u t ht he hG
  rw [hunf] at ht
  rw [execStmts_cons]
  by_cases hn : rest.isNil = true
  · simp only [hn, if_true] at ht
    obtain ⟨bf, hbf, ht⟩ := bindE_ok ht
    obtain ⟨b, fin⟩ := bf
    obtain ⟨hfin, hstep⟩ := hs env G u b fin hbf he hG
    have hnil : rest = .nil := by
      cases rest with
      | nil => rfl
      | cons _ _ => simp [Stmts.isNil] at hn
    subst hnil
    cases u with
    | loc =>
      have hf : fin = true := by rw [hfin]; rfl
      subst hf
      simp only [if_true, addTo_true] at ht
      cases ht
      cases hx : execStmt apG P env G s with
      | ok o =>
        rw [hx] at hstep
        cases o with
        | normal e' g' =>
          obtain ⟨tv, h1, _, _, _, _, h6⟩ := hstep
          simp only [thenStmts, execStmts]
          exact ⟨tv, h1, (fun h => by cases h), h6⟩
        | returned vs g' => exact hstep.elim
      | fuel =>
        rw [hx] at hstep
        exact hstep
      | bad => trivial
    | returned =>
      have hf : fin = false := by rw [hfin]; rfl
      subst hf
      simp only [Bool.false_eq_true, if_false] at ht
      cases ht
      rw [evalT_addTo_false]
      cases hx : execStmt apG P env G s with
      | ok o =>
        rw [hx] at hstep
        cases o with
        | normal e' g' =>
          obtain ⟨tv, h1, h2, _, _, _, h6⟩ := hstep
          simp only [thenStmts, execStmts]
          rw [h1]
          simp only [res_ok_bind, h2, evalT]
          exact ⟨.unit, rfl, fun _ => rfl, h6⟩
        | returned vs g' => exact hstep.elim
      | fuel =>
        rw [hx] at hstep
        have h1 : evalT apT (envT P env) b.expr (heapT P G) = .fuel := hstep
        rw [h1]
        rfl
      | bad => trivial
  · simp only [hn, Bool.false_eq_true, if_false] at ht
    obtain ⟨bf, hbf, ht⟩ := bindE_ok ht
    obtain ⟨b, fin⟩ := bf
    obtain ⟨r, hr, ht⟩ := bindE_ok ht
    cases ht
    obtain ⟨_, hstep⟩ := hs env G .loc b fin hbf he hG
    rw [evalT_addTo_false]
    cases hx : execStmt apG P env G s with
    | ok o =>
      rw [hx] at hstep
      cases o with
      | normal e' g' =>
        obtain ⟨tv, h1, h2, h3, h4, h5, h6⟩ := hstep
        simp only [thenStmts]
        rw [h1]
        simp only [res_ok_bind, h2]
        apply hrest e' g' u r _ h5 h6
        rw [h3, h4]
        exact hr
      | returned vs g' => exact hstep.elim
    | fuel =>
      rw [hx] at hstep
      have h1 : evalT apT (envT P env) b.expr (heapT P G) = .fuel := hstep
      rw [h1]
      rfl
    | bad => trivial

omit hap in
/-- a branch in tail position -/
theorem branch_last {ss : Stmts} {env : Env} {G1 : GHeap} {u : Usage} {rt : Res (TVal × THeap)}
    (h : SimG (OutQ P u) (execStmts apG P env G1 ss) rt) :
    SimG (OutQ P u) (thenStmts (leave env (execStmts apG P env G1 ss)) (fun e g => execStmts apG P e g .nil)) rt := by
  cases hx : execStmts apG P env G1 ss with
  | ok o =>
    rw [hx] at h
    cases o with
    | normal e' g' =>
      simp only [leave, thenStmts, execStmts]
      exact h
    | returned vs g' =>
      simp only [leave, thenStmts]
      exact h
  | fuel =>
    rw [hx] at h
    exact h
  | bad => trivial

omit hap in
/-- a branch that does not return, followed by the rest of the list -/
theorem branch_mid {ss rest : Stmts} {env : Env} {G1 : GHeap} {u : Usage} {rt1 : Res (TVal × THeap)} {r : T}
    (h : SimG (OutQ P .loc) (execStmts apG P env G1 ss) rt1)
    (hrest : ∀ G2, HeapOK G2 → SimG (OutQ P u) (execStmts apG P env G2 rest) (evalT apT (envT P env) r (heapT P G2))) :
    SimG (OutQ P u) (thenStmts (leave env (execStmts apG P env G1 ss)) (fun e g => execStmts apG P e g rest))
      (rt1.bind fun q => evalT apT (envT P env) r q.2) := by
  cases hx : execStmts apG P env G1 ss with
  | ok o =>
    rw [hx] at h
    cases o with
    | normal e' g' =>
      obtain ⟨tv, h1, _, h3⟩ := h
      simp only [leave, thenStmts]
      rw [h1]
      exact hrest g' h3
    | returned vs g' =>
      have := h.1
      cases this
  | fuel =>
    rw [hx] at h
    have h1 : rt1 = .fuel := h
    rw [h1]
    rfl
  | bad => trivial

omit hap in
/-- a branch that always returns -/
theorem branch_returns {ss : Stmts} {env : Env} {G1 : GHeap} {u : Usage} {rt : Res (TVal × THeap)}
    {k : Env → GHeap → Res Out} (hend : endsWithReturn ss = true)
    (h : SimG (OutQ P u) (execStmts apG P env G1 ss) rt) :
    SimG (OutQ P u) (thenStmts (leave env (execStmts apG P env G1 ss)) k) rt := by
  cases hx : execStmts apG P env G1 ss with
  | ok o =>
    rw [hx] at h
    cases o with
    | normal e' g' => exact absurd hx (endsWithReturn_not_normal apG P ss hend env G1 e' g')
    | returned vs g' =>
      simp only [leave, thenStmts]
      exact h
  | fuel =>
    rw [hx] at h
    exact h
  | bad => trivial

theorem sound_cons_ite (c : Exp) {thn els rest : Stmts} (hthn : StmtsSound P apG apT thn) (hels : StmtsSound P apG apT els)
    (hrest : StmtsSound P apG apT rest) : StmtsSound P apG apT (.cons (.ite c thn els) rest) := by
  intro env G u t ht he hG
  simp only [trStmts] at ht
  obtain ⟨tc, htc, ht⟩ := bindE_ok ht
  rw [execStmts_cons]
  simp only [execStmt, thenStmts_bind]
  unfold trIf at ht
  by_cases hn : rest.isNil = true
  · -- the last statement: both branches in tail position
    simp only [hn, if_true] at ht
    obtain ⟨a, hta, ht⟩ := bindE_ok ht
    obtain ⟨b, htb, ht⟩ := bindE_ok ht
    cases ht
    have hnil : rest = .nil := by
      cases rest with
      | nil => rfl
      | cons _ _ => simp [Stmts.isNil] at hn
    subst hnil
    simp only [evalT]
    refine Sim.bindG (sound_exp hap c env G tc htc he hG) (fun p hp => ?_)
    apply sim_asBool P
    intro bb
    cases bb with
    | true =>
      simp only [if_true]
      exact branch_last (hthn env p.2 u a hta he hp.2)
    | false =>
      simp only [Bool.false_eq_true, if_false]
      exact branch_last (hels env p.2 u b htb he hp.2)
  · simp only [hn, Bool.false_eq_true, if_false] at ht
    by_cases hend : endsWithReturn thn = true
    · -- early return: the rest of the list is the else-branch
      simp only [hend, if_true] at ht
      obtain ⟨a, hta, ht⟩ := bindE_ok ht
      by_cases hels0 : els.isNil = true
      · simp only [hels0, if_true] at ht
        obtain ⟨r, hr, ht⟩ := bindE_ok ht
        cases ht
        have hnil : els = .nil := by
          cases els with
          | nil => rfl
          | cons _ _ => simp [Stmts.isNil] at hels0
        subst hnil
        simp only [evalT]
        refine Sim.bindG (sound_exp hap c env G tc htc he hG) (fun p hp => ?_)
        apply sim_asBool P
        intro bb
        cases bb with
        | true =>
          simp only [if_true]
          exact branch_returns hend (hthn env p.2 u a hta he hp.2)
        | false =>
          simp only [Bool.false_eq_true, if_false, execStmts, leave, thenStmts]
          exact hrest env p.2 u r hr he hp.2
      · simp only [hels0] at ht
        cases ht
    · -- neither branch returns
      simp only [hend, Bool.false_eq_true, if_false] at ht
      obtain ⟨a, hta, ht⟩ := bindE_ok ht
      obtain ⟨b, htb, ht⟩ := bindE_ok ht
      obtain ⟨r, hr, ht⟩ := bindE_ok ht
      cases ht
      simp only [evalT, Res.bind_assoc]
      refine Sim.bindG (sound_exp hap c env G tc htc he hG) (fun p hp => ?_)
      apply sim_asBool P
      intro bb
      cases bb with
      | true =>
        simp only [if_true]
        exact branch_mid (hthn env p.2 .loc a hta he hp.2) (fun G2 hG2 => hrest env G2 u r hr he hG2)
      | false =>
        simp only [Bool.false_eq_true, if_false]
        exact branch_mid (hels env p.2 .loc b htb he hp.2) (fun G2 hG2 => hrest env G2 u r hr he hG2)

mutual
/-- Every accepted statement list is simulated, for every usage: structural induction over statement lists. -/
theorem sound_stmts : (ss : Stmts) → StmtsSound P apG apT ss
  | .nil => sound_nil_stmts hap
  | .cons (.ret es) rest => sound_cons_ret hap es rest
  | .cons (.ite c thn els) rest => sound_cons_ite hap c (sound_stmts thn) (sound_stmts els) (sound_stmts rest)
  | .cons (.define x e) rest => sound_cons_simple hap (simple_define hap x e) (fun _ _ _ => by simp only [trStmts]) (sound_stmts rest)
  | .cons (.declare x ty e) rest => sound_cons_simple hap (simple_declare hap x ty e) (fun _ _ _ => by simp only [trStmts]) (sound_stmts rest)
  | .cons (.assign x e) rest => sound_cons_simple hap (simple_assign hap x e) (fun _ _ _ => by simp only [trStmts]) (sound_stmts rest)
  | .cons (.defineN xs e) rest => sound_cons_simple hap (simple_defineN hap xs e) (fun _ _ _ => by simp only [trStmts]) (sound_stmts rest)
  | .cons (.setP f p e) rest => sound_cons_simple hap (simple_setP hap f p e) (fun _ _ _ => by simp only [trStmts]) (sound_stmts rest)
  | .cons (.setV f v e) rest => sound_cons_simple hap (simple_setV hap f v e) (fun _ _ _ => by simp only [trStmts]) (sound_stmts rest)
  | .cons (.expr e) rest => sound_cons_simple hap (simple_expr hap e) (fun _ _ _ => by simp only [trStmts]) (sound_stmts rest)
end

end stmts

end GooseVerif.Model.Fun
