/-
Helper lemmas for the functions theorem, part 1 (model: `Model/Fun.lean`): the simulation relation.

Both heaps hold the same kinds of objects and grow in lockstep, and the two environments are parallel lists, so the
relation is a FUNCTION:

  `toT`      a Go value as a GooseLang value: a pointer `o` is the location `o`, a top-level function `f` the value
             of the definition `f`, a closure (ps, body, env) the GooseLang closure of the TRANSLATED body in the
             translated environment
  `envT`     name by name: a `:=` variable is bound to its translated value, a `var` variable to the location of its
             cell; the bottom of the environment (the name of the function being executed) is the binder of `rec:`
  `senv`     the static environment goose has where the run-time environment is `env`: which names are cells, with
             their declared types
  `heapT`    object by object
  `ValOK`    every closure inside the value was ACCEPTED by the translator (in the static environment of its
             captured environment); `HeapOK`: cells hold first-order values only

`Sim` relates a Go outcome with a GooseLang outcome: the same value (through a function), fuel ↦ fuel, and nothing
is claimed when the Go side is `bad` (not well-typed Go, or outside the model).
-/
import GooseVerif.Model.Fun
import GooseVerif.Lemmas.Coll

set_option linter.unusedSimpArgs false
set_option linter.unusedSectionVars false

namespace GooseVerif.Model.Fun
open GooseVerif.Model.Heap (look)
open GooseVerif.Model.Coll (Obj getCell getArr Cmp bindE bindE_ok getCell_map getArr_map)

/-! ### the monads -/

@[simp] theorem res_ok_bind {α β : Type} (a : α) (f : α → Res β) : (Res.ok a).bind f = f a := rfl
@[simp] theorem res_fuel_bind {α β : Type} (f : α → Res β) : (Res.fuel : Res α).bind f = .fuel := rfl
@[simp] theorem res_bad_bind {α β : Type} (f : α → Res β) : (Res.bad : Res α).bind f = .bad := rfl
theorem Res.bind_assoc {α β γ : Type} (r : Res α) (f : α → Res β) (g : β → Res γ) :
    (r.bind f).bind g = r.bind fun a => (f a).bind g := by
  cases r <;> rfl

@[simp] theorem ofOpt_some {α : Type} (a : α) : ofOpt (some a) = .ok a := rfl
@[simp] theorem ofOpt_none {α : Type} : ofOpt (none : Option α) = .bad := rfl

/-! ### the relation as functions -/

def selfOf : Env → String
  | .top s => s
  | .val _ _ r => selfOf r
  | .cell _ _ _ r => selfOf r

def senv : Env → SVars
  | .top _ => []
  | .val x _ r => (x, none) :: senv r
  | .cell x ty _ r => (x, some ty) :: senv r

/-- the translated body of a function literal (`#()` if it was refused: excluded by `ValOK`) -/
def trBodyD (P : Pkg) (self : String) (Γ : SVars) (ps : List String) (body : Stmts) : T :=
  match trBody false P self Γ ps body with
  | .ok t => t
  | .error _ => .unit

mutual
def toT (P : Pkg) : Val → TVal
  | .num n => .num n
  | .bool b => .bool b
  | .str s => .str s
  | .bytes o => .bytes o
  | .strct a b => .strct a b
  | .ptr o => .loc o
  | .fn f => .glob f
  | .clo ps body env => .clo (envT P env) (trParams ps) (trBodyD P (selfOf env) (senv env) ps body)
def envT (P : Pkg) : Env → TEnv
  | .top self => .cons self (.glob self) .nil
  | .val x v rest => .cons x (toT P v) (envT P rest)
  | .cell x _ o rest => .cons x (.loc o) (envT P rest)
end

def heapT (P : Pkg) (G : GHeap) : THeap := G.map (Obj.mapCell (toT P))

mutual
def ValOK (P : Pkg) : Val → Prop
  | .clo ps body env => EnvOK P env ∧ ∃ tb, trBody false P (selfOf env) (senv env) ps body = .ok tb
  | _ => True
def EnvOK (P : Pkg) : Env → Prop
  | .top _ => True
  | .val _ v rest => ValOK P v ∧ EnvOK P rest
  | .cell _ _ _ rest => EnvOK P rest
end

def ValsOK (P : Pkg) (vs : List Val) : Prop := ∀ v ∈ vs, ValOK P v

def HeapOK (G : GHeap) : Prop := ∀ o v, getCell G o = some v → v.fo = true

/-! ### outcomes -/

/-- A Go outcome and a GooseLang outcome agree: `Q` relates a Go result with the GooseLang outcome; fuel ↦ fuel; nothing is
claimed when the Go side is `bad`. -/
def SimG {α β : Type} (Q : α → Res β → Prop) (r : Res α) (rt : Res β) : Prop :=
  match r with
  | .ok a => Q a rt
  | .fuel => rt = .fuel
  | .bad => True

/-- … the GooseLang outcome is the image of the Go result under `f`, and `ok` is what is known about the result. -/
abbrev Sim {α β : Type} (f : α → β) (ok : α → Prop) : Res α → Res β → Prop :=
  SimG (fun a rt => rt = .ok (f a) ∧ ok a)

theorem Sim.bindG {α β α' β' : Type} {f : α → β} {ok : α → Prop} {Q : α' → Res β' → Prop}
    {r : Res α} {rt : Res β} {k : α → Res α'} {kt : β → Res β'}
    (h : Sim f ok r rt) (hk : ∀ a, ok a → SimG Q (k a) (kt (f a))) : SimG Q (r.bind k) (rt.bind kt) := by
  cases r with
  | ok a =>
    obtain ⟨h1, h2⟩ := h
    subst h1
    exact hk a h2
  | fuel =>
    have h1 : rt = .fuel := h
    subst h1
    rfl
  | bad => trivial

/-- … when the GooseLang side has nothing left to do -/
theorem Sim.bindG0 {α β α' : Type} {f : α → β} {ok : α → Prop} {Q : α' → Res β → Prop}
    {r : Res α} {rt : Res β} {k : α → Res α'}
    (h : Sim f ok r rt) (hk : ∀ a, ok a → SimG Q (k a) (.ok (f a))) : SimG Q (r.bind k) rt := by
  cases r with
  | ok a =>
    obtain ⟨h1, h2⟩ := h
    subst h1
    exact hk a h2
  | fuel => exact h
  | bad => trivial

theorem Sim.bind {α β α' β' : Type} {f : α → β} {ok : α → Prop} {g : α' → β'} {ok' : α' → Prop}
    {r : Res α} {rt : Res β} {k : α → Res α'} {kt : β → Res β'}
    (h : Sim f ok r rt) (hk : ∀ a, ok a → Sim g ok' (k a) (kt (f a))) : Sim g ok' (r.bind k) (rt.bind kt) :=
  Sim.bindG h hk

theorem SimG.bad {α β : Type} {Q : α → Res β → Prop} {rt : Res β} : SimG Q .bad rt := trivial

theorem Sim.bad {α β : Type} {f : α → β} {ok : α → Prop} {rt : Res β} : Sim f ok .bad rt := trivial

theorem Sim.ok {α β : Type} {f : α → β} {ok : α → Prop} {a : α} (h : ok a) : Sim f ok (.ok a) (.ok (f a)) := ⟨rfl, h⟩

theorem Sim.mono {α β : Type} {f : α → β} {ok ok' : α → Prop} {r : Res α} {rt : Res β}
    (h : Sim f ok r rt) (hm : ∀ a, ok a → ok' a) : Sim f ok' r rt := by
  cases r with
  | ok a => exact ⟨h.1, hm a h.2⟩
  | fuel => exact h
  | bad => trivial

/-- an expression: value and heap -/
abbrev SimE (P : Pkg) : Res (Val × GHeap) → Res (TVal × THeap) → Prop :=
  Sim (fun p => (toT P p.1, heapT P p.2)) (fun p => ValOK P p.1 ∧ HeapOK p.2)

/-- a list of expressions: values in source order and heap -/
abbrev SimEs (P : Pkg) : Res (List Val × GHeap) → Res (List TVal × THeap) → Prop :=
  Sim (fun p => (p.1.map (toT P), heapT P p.2)) (fun p => ValsOK P p.1 ∧ HeapOK p.2)

/-- a call: the results as a tuple, and the heap -/
abbrev SimR (P : Pkg) : Res (List Val × GHeap) → Res (TVal × THeap) → Prop :=
  Sim (fun p => (tupleV (p.1.map (toT P)), heapT P p.2)) (fun p => ValsOK P p.1 ∧ HeapOK p.2)

/-- The two oracles for calls agree on related function values, arguments and heaps. -/
def OracleRel (P : Pkg) (apG : GOracle) (apT : TOracle) : Prop :=
  ∀ fv args G, ValOK P fv → ValsOK P args → HeapOK G →
    SimR P (apG fv args G) (apT (toT P fv) (argsT (args.map (toT P))) (heapT P G))

/-! ### first-order values -/

theorem fo_ValOK (P : Pkg) {v : Val} (h : v.fo = true) : ValOK P v := by
  cases v <;> simp [Val.fo] at h <;> simp [ValOK]

theorem hasTy_fo {v : Val} {ty : Ty} (h : v.hasTy ty = true) : v.fo = true := by
  cases v <;> cases ty <;> simp [Val.hasTy] at h <;> rfl

theorem ValsOK_nil (P : Pkg) : ValsOK P [] := by
  intro v hv
  cases hv

theorem ValsOK_cons {P : Pkg} {v : Val} {vs : List Val} (h1 : ValOK P v) (h2 : ValsOK P vs) : ValsOK P (v :: vs) := by
  intro w hw
  cases hw with
  | head => exact h1
  | tail _ h => exact h2 w h

theorem ValsOK_head {P : Pkg} {v : Val} {vs : List Val} (h : ValsOK P (v :: vs)) : ValOK P v :=
  h v (List.mem_cons_self ..)

theorem ValsOK_tail {P : Pkg} {v : Val} {vs : List Val} (h : ValsOK P (v :: vs)) : ValsOK P vs :=
  fun w hw => h w (List.mem_cons_of_mem _ hw)

/-! ### heaps -/

@[simp] theorem heapT_length (P : Pkg) (G : GHeap) : (heapT P G).length = G.length := by simp [heapT]

@[simp] theorem heapT_append (P : Pkg) (G : GHeap) (x : Obj Val) :
    heapT P (G ++ [x]) = heapT P G ++ [x.mapCell (toT P)] := by
  simp [heapT]

@[simp] theorem heapT_set (P : Pkg) (G : GHeap) (o : Nat) (x : Obj Val) :
    heapT P (G.set o x) = (heapT P G).set o (x.mapCell (toT P)) := by
  simp [heapT, List.map_set]

@[simp] theorem getCell_heapT (P : Pkg) (G : GHeap) (o : Nat) : getCell (heapT P G) o = (getCell G o).map (toT P) :=
  getCell_map (toT P) G o

@[simp] theorem getArr_heapT (P : Pkg) (G : GHeap) (o : Nat) : getArr (heapT P G) o = getArr G o :=
  getArr_map (toT P) G o

@[simp] theorem readBytes_heapT (P : Pkg) (G : GHeap) (o : Option Nat) : readBytes (heapT P G) o = readBytes G o := by
  cases o <;> simp [readBytes]

theorem getCell_append {α : Type} (H : List (Obj α)) (x : Obj α) (o : Nat) :
    getCell (H ++ [x]) o = if o < H.length then getCell H o else if o = H.length then (match x with | .cell v => some v | _ => none) else none := by
  unfold getCell
  by_cases h : o < H.length
  · simp [h, List.getElem?_append_left h]
  · simp only [h, if_false]
    by_cases h2 : o = H.length
    · subst h2
      simp
      cases x <;> rfl
    · have h3 : H.length < o := by omega
      have : (H ++ [x])[o]? = none := by
        apply List.getElem?_eq_none
        simp
        omega
      simp [h2, this]

theorem getCell_lt {α : Type} {H : List (Obj α)} {o : Nat} {v : α} (h : getCell H o = some v) : o < H.length := by
  unfold getCell at h
  by_cases h2 : o < H.length
  · exact h2
  · have : H[o]? = none := List.getElem?_eq_none (by omega)
    simp [this] at h

theorem getCell_set {α : Type} (H : List (Obj α)) (o o' : Nat) (w : α) :
    getCell (H.set o (.cell w)) o' = if o = o' ∧ o < H.length then some w else getCell H o' := by
  unfold getCell
  by_cases h : o = o'
  · subst h
    by_cases h2 : o < H.length
    · simp [h2]
    · simp [h2]
  · simp [h, List.getElem?_set_ne h]

theorem HeapOK_nil : HeapOK [] := by
  intro o v h
  simp [getCell] at h

theorem HeapOK_append_cell {G : GHeap} {v : Val} (h : HeapOK G) (hv : v.fo = true) : HeapOK (G ++ [.cell v]) := by
  intro o w hw
  rw [getCell_append] at hw
  by_cases h1 : o < G.length
  · simp [h1] at hw
    exact h o w hw
  · simp only [h1, if_false] at hw
    by_cases h2 : o = G.length
    · simp [h2] at hw
      rw [← hw]
      exact hv
    · simp [h2] at hw

theorem HeapOK_append_arr {G : GHeap} {bs : List Nat} (h : HeapOK G) : HeapOK (G ++ [.arr bs]) := by
  intro o w hw
  rw [getCell_append] at hw
  by_cases h1 : o < G.length
  · simp [h1] at hw
    exact h o w hw
  · simp only [h1, if_false] at hw
    by_cases h2 : o = G.length
    · simp [h2] at hw
    · simp [h2] at hw

theorem HeapOK_set_cell {G : GHeap} {o : Nat} {v : Val} (h : HeapOK G) (hv : v.fo = true) : HeapOK (G.set o (.cell v)) := by
  intro o' w hw
  rw [getCell_set] at hw
  by_cases h1 : o = o' ∧ o < G.length
  · rw [if_pos h1] at hw
    simp at hw
    rw [← hw]
    exact hv
  · simp only [h1, if_false] at hw
    exact h o' w hw

theorem HeapOK_cell {P : Pkg} {G : GHeap} {o : Nat} {v : Val} (h : HeapOK G) (hc : getCell G o = some v) : ValOK P v :=
  fo_ValOK P (h o v hc)

/-! ### environments -/

theorem look_senv (x : String) : (env : Env) →
    look x (senv env) = (lookE x env).map fun b => match b with
      | .val _ => none
      | .cell ty _ => some ty
  | .top s => by simp [senv, lookE, look]
  | .val y v rest => by
    have ih := look_senv x rest
    simp only [senv, lookE, look]
    split
    · rfl
    · exact ih
  | .cell y ty o rest => by
    have ih := look_senv x rest
    simp only [senv, lookE, look]
    split
    · rfl
    · exact ih

theorem lookT_envT (P : Pkg) (x : String) : (env : Env) →
    lookT x (envT P env) = match lookE x env with
      | some (.val v) => some (toT P v)
      | some (.cell _ o) => some (.loc o)
      | none => if selfOf env = x then some (.glob x) else none
  | .top s => by
    simp only [envT, lookE, lookT, selfOf]
    split
    · next h => subst h; simp
    · next h => simp [h]
  | .val y v rest => by
    have ih := lookT_envT P x rest
    simp only [envT, lookE, lookT, selfOf]
    split
    · rfl
    · exact ih
  | .cell y ty o rest => by
    have ih := lookT_envT P x rest
    simp only [envT, lookE, lookT, selfOf]
    split
    · rfl
    · exact ih

theorem EnvOK_look {P : Pkg} {x : String} {v : Val} : (env : Env) → EnvOK P env → lookE x env = some (.val v) → ValOK P v
  | .top s, _, hl => by simp [lookE] at hl
  | .val y w rest, h, hl => by
    simp only [lookE] at hl
    simp only [EnvOK] at h
    split at hl
    · simp at hl
      rw [← hl]
      exact h.1
    · exact EnvOK_look rest h.2 hl
  | .cell y ty o rest, h, hl => by
    simp only [lookE] at hl
    simp only [EnvOK] at h
    split at hl
    · simp at hl
    · exact EnvOK_look rest h hl

/-! ### binding parameters and names -/

theorem senv_bindPs {ps : List String} {vs : List Val} {env env' : Env} (h : bindPs ps vs env = some env') :
    senv env' = bindΓ ps (senv env) ∧ selfOf env' = selfOf env := by
  induction ps generalizing vs env with
  | nil =>
    cases vs with
    | nil => simp [bindPs] at h; subst h; exact ⟨rfl, rfl⟩
    | cons v vs => simp [bindPs] at h
  | cons p ps ih =>
    cases vs with
    | nil => simp [bindPs] at h
    | cons v vs =>
      simp only [bindPs] at h
      have := ih h
      by_cases hp : p = "_"
      · simp only [hp, if_true] at this
        simp only [bindΓ, hp, if_true]
        exact this
      · simp only [hp, if_false, senv, selfOf] at this
        simp only [bindΓ, hp, if_false]
        exact this

theorem EnvOK_bindPs {P : Pkg} {ps : List String} {vs : List Val} {env env' : Env} (h : bindPs ps vs env = some env')
    (he : EnvOK P env) (hv : ValsOK P vs) : EnvOK P env' := by
  induction ps generalizing vs env with
  | nil =>
    cases vs with
    | nil => simp [bindPs] at h; subst h; exact he
    | cons v vs => simp [bindPs] at h
  | cons p ps ih =>
    cases vs with
    | nil => simp [bindPs] at h
    | cons v vs =>
      simp only [bindPs] at h
      apply ih h _ (ValsOK_tail hv)
      by_cases hp : p = "_"
      · simp only [hp, if_true]; exact he
      · simp only [hp, if_false, EnvOK]; exact ⟨ValsOK_head hv, he⟩

theorem bindTs_bindPs {P : Pkg} {ps : List String} {vs : List Val} {env env' : Env} (h : bindPs ps vs env = some env') :
    bindTs ps (vs.map (toT P)) (envT P env) = some (envT P env') := by
  induction ps generalizing vs env with
  | nil =>
    cases vs with
    | nil => simp [bindPs] at h; subst h; rfl
    | cons v vs => simp [bindPs] at h
  | cons p ps ih =>
    cases vs with
    | nil => simp [bindPs] at h
    | cons v vs =>
      simp only [bindPs] at h
      simp only [List.map, bindTs]
      have := ih h
      by_cases hp : p = "_"
      · simp only [hp, if_true] at this ⊢; exact this
      · simp only [hp, if_false, envT] at this ⊢; exact this

theorem bindPs_length {ps : List String} {vs : List Val} {env env' : Env} (h : bindPs ps vs env = some env') :
    ps.length = vs.length := by
  induction ps generalizing vs env with
  | nil =>
    cases vs with
    | nil => rfl
    | cons v vs => simp [bindPs] at h
  | cons p ps ih =>
    cases vs with
    | nil => simp [bindPs] at h
    | cons v vs =>
      simp only [bindPs] at h
      simp [ih h]

/-- parameters of a call: `<>` and `#()` when there are none -/
theorem bindTs_params {P : Pkg} {ps : List String} {vs : List Val} {env env' : Env} (h : bindPs ps vs env = some env') :
    bindTs (trParams ps) (argsT (vs.map (toT P))) (envT P env) = some (envT P env') := by
  cases ps with
  | nil =>
    cases vs with
    | nil =>
      simp [bindPs] at h
      subst h
      simp [trParams, argsT, bindTs]
    | cons v vs => simp [bindPs] at h
  | cons p ps =>
    cases vs with
    | nil => simp [bindPs] at h
    | cons v vs => exact bindTs_bindPs h

/-! ### tuples -/

theorem unpairR_tupleR : (l : List TVal) → l ≠ [] → unpairR (l.length - 1) (tupleR l) = some l
  | [], h => absurd rfl h
  | [v], _ => rfl
  | last :: i :: init, _ => by
    have ih := unpairR_tupleR (i :: init) (by simp)
    simp only [List.length_cons, Nat.add_sub_cancel] at ih ⊢
    simp only [tupleR, unpairR, ih, Option.map]

/-- destructuring the value of a tuple expression gives back its components -/
theorem unpair_tupleV (vs : List TVal) (h : vs ≠ []) : unpair vs.length (tupleV vs) = some vs := by
  cases vs with
  | nil => exact absurd rfl h
  | cons v vs =>
    have h2 := unpairR_tupleR (v :: vs).reverse (by simp)
    simp only [List.length_reverse, List.length_cons, Nat.add_sub_cancel] at h2
    simp only [unpair, tupleV, List.length_cons, h2, Option.map, List.reverse_reverse]

theorem tupleV_single (v : TVal) : tupleV [v] = v := rfl

theorem tupleV_nil : tupleV [] = .unit := rfl

end GooseVerif.Model.Fun
