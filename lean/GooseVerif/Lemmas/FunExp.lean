/-
Helper lemmas for the functions theorem, part 2: EXPRESSIONS.  For an arbitrary pair of call oracles that agree on
related inputs (`OracleRel`), every accepted expression evaluates, in related states, to related outcomes
(`ExpSound`, `ExpsSound`): by one mutual structural induction over expressions and argument lists.  A function
literal is not looked into here: the closure it creates is related to the GooseLang closure by the definition of
`toT`, and `ValOK` records that its body was accepted.
-/
import GooseVerif.Lemmas.Fun

set_option linter.unusedSimpArgs false
set_option linter.unusedSectionVars false

namespace GooseVerif.Model.Fun
open GooseVerif.Model.Heap (look)
open GooseVerif.Model.Coll (Obj getCell getArr Cmp bindE bindE_ok)

/-! ### operations on values -/

section ops
variable (P : Pkg)

theorem sim_addV (a b : Val) : Sim (toT P) (ValOK P) (addV a b) (addT (toT P a) (toT P b)) := by
  cases a <;> cases b <;> simp [addV, addT, toT, Sim, SimG, ValOK]

theorem sim_subV (a b : Val) : Sim (toT P) (ValOK P) (subV a b) (subT (toT P a) (toT P b)) := by
  cases a <;> cases b <;> simp [subV, subT, toT, Sim, SimG]
  rename_i m n
  by_cases h : n ≤ m <;> simp [h, toT, ValOK]

theorem sim_mulV (a b : Val) : Sim (toT P) (ValOK P) (mulV a b) (mulT (toT P a) (toT P b)) := by
  cases a <;> cases b <;> simp [mulV, mulT, toT, Sim, SimG, ValOK]

theorem sim_cmpV (op : Cmp) (a b : Val) : Sim (toT P) (ValOK P) (cmpV op a b) (cmpT op (toT P a) (toT P b)) := by
  cases a <;> cases b <;> simp [cmpV, cmpT, toT, Sim, SimG, ValOK]

theorem sim_scmpV (op : Cmp) (a b : Val) : Sim (toT P) (ValOK P) (scmpV op a b) (cmpT op (toT P a) (toT P b)) := by
  cases a <;> cases b <;> simp [scmpV, cmpT, toT, Sim, SimG]
  cases op <;> simp [toT, ValOK]

variable {α' β' : Type} {Q : α' → Res β' → Prop}

theorem sim_asNum (v : Val) {k : Nat → Res α'} {kt : Nat → Res β'} (hk : ∀ n, SimG Q (k n) (kt n)) :
    SimG Q ((asNum v).bind k) ((asNumT (toT P v)).bind kt) := by
  cases v <;> simp [asNum, asNumT, toT, SimG.bad]
  exact hk _

theorem sim_asBool (v : Val) {k : Bool → Res α'} {kt : Bool → Res β'} (hk : ∀ n, SimG Q (k n) (kt n)) :
    SimG Q ((asBool v).bind k) ((asBoolT (toT P v)).bind kt) := by
  cases v <;> simp [asBool, asBoolT, toT, SimG.bad]
  exact hk _

theorem sim_asStr (v : Val) {k : List Nat → Res α'} {kt : List Nat → Res β'} (hk : ∀ n, SimG Q (k n) (kt n)) :
    SimG Q ((asStr v).bind k) ((asStrT (toT P v)).bind kt) := by
  cases v <;> simp [asStr, asStrT, toT, SimG.bad]
  exact hk _

theorem sim_asBytes (v : Val) {k : Option Nat → Res α'} {kt : Option Nat → Res β'} (hk : ∀ n, SimG Q (k n) (kt n)) :
    SimG Q ((asBytes v).bind k) ((asBytesT (toT P v)).bind kt) := by
  cases v <;> simp [asBytes, asBytesT, toT, SimG.bad]
  exact hk _

theorem sim_asStrct (v : Val) {k : Nat × Nat → Res α'} {kt : Nat × Nat → Res β'} (hk : ∀ n, SimG Q (k n) (kt n)) :
    SimG Q ((asStrct v).bind k) ((asStrctT (toT P v)).bind kt) := by
  cases v <;> simp [asStrct, asStrctT, toT, SimG.bad]
  exact hk _

theorem sim_asPtr (v : Val) {k : Nat → Res α'} {kt : Nat → Res β'} (hk : ∀ n, SimG Q (k n) (kt n)) :
    SimG Q ((asPtr v).bind k) ((asLocT (toT P v)).bind kt) := by
  cases v <;> simp [asPtr, asLocT, toT, SimG.bad]
  exact hk _

theorem sim_getCell {G : GHeap} (o : Nat) (hG : HeapOK G) {k : Val → Res α'} {kt : TVal → Res β'}
    (hk : ∀ v, getCell G o = some v → v.fo = true → SimG Q (k v) (kt (toT P v))) :
    SimG Q ((ofOpt (getCell G o)).bind k) ((ofOpt (getCell (heapT P G) o)).bind kt) := by
  rw [getCell_heapT]
  cases h : getCell G o with
  | none => exact SimG.bad
  | some v => exact hk v h (hG o v h)

theorem sim_getStrct {G : GHeap} (o : Nat) {k : Nat × Nat → Res α'} {kt : Nat × Nat → Res β'}
    (hk : ∀ s, getCell G o = some (.strct s.1 s.2) → SimG Q (k s) (kt s)) :
    SimG Q ((getStrct G o).bind k) ((getStrctT (heapT P G) o).bind kt) := by
  unfold getStrct getStrctT
  rw [getCell_heapT]
  cases h : getCell G o with
  | none => exact SimG.bad
  | some v =>
    cases v <;> simp [asStrct, asStrctT, toT, SimG.bad]
    exact hk _ h

theorem sim_readBytes {G : GHeap} (o : Option Nat) {k : List Nat → Res α'} {kt : List Nat → Res β'}
    (hk : ∀ bs, SimG Q (k bs) (kt bs)) :
    SimG Q ((ofOpt (readBytes G o)).bind k) ((ofOpt (readBytes (heapT P G) o)).bind kt) := by
  rw [readBytes_heapT]
  cases readBytes G o with
  | none => exact SimG.bad
  | some bs => exact hk bs

/-- one result expected -/
theorem sim_single {r : Res (List Val × GHeap)} {rt : Res (TVal × THeap)} (h : SimR P r rt) : SimE P (r.bind single) rt := by
  cases r with
  | ok p =>
    obtain ⟨vs, G'⟩ := p
    obtain ⟨h1, h2, h3⟩ := h
    cases vs with
    | nil => exact Sim.bad
    | cons v vs =>
      cases vs with
      | nil =>
        simp only [res_ok_bind, single]
        exact ⟨h1, ValsOK_head h2, h3⟩
      | cons w ws => exact Sim.bad
  | fuel => exact h
  | bad => trivial

theorem Sim.congr_f {α β : Type} {f f' : α → β} {ok : α → Prop} {r : Res α} {rt : Res β}
    (h : Sim f ok r rt) (hf : ∀ a, r = .ok a → f a = f' a) : Sim f' ok r rt := by
  cases r with
  | ok a =>
    refine ⟨?_, h.2⟩
    rw [← hf a rfl]
    exact h.1
  | fuel => exact h
  | bad => trivial

end ops

/-! ### expressions -/

section exps
variable (P : Pkg) (apG : GOracle) (apT : TOracle)

def ExpSound (e : Exp) : Prop :=
  ∀ env G t, trE false P (selfOf env) (senv env) e = .ok t → EnvOK P env → HeapOK G →
    SimE P (evalE apG P env e G) (evalT apT (envT P env) t (heapT P G))

def ExpsSound (es : Exps) : Prop :=
  ∀ env G ts, trEs false P (selfOf env) (senv env) es = .ok ts → EnvOK P env → HeapOK G →
    SimEs P (evalEs apG P env es G) (evalTs apT (envT P env) ts (heapT P G))

variable {P apG apT}

theorem sound_lit (n : Nat) : ExpSound P apG apT (.lit n) := by
  intro env G t ht he hG
  simp only [trE] at ht
  cases ht
  simp only [evalE, evalT]
  exact ⟨rfl, by simp [ValOK], hG⟩

theorem sound_slit (s : List Nat) : ExpSound P apG apT (.slit s) := by
  intro env G t ht he hG
  simp only [trE] at ht
  cases ht
  simp only [evalE, evalT]
  exact ⟨rfl, by simp [ValOK], hG⟩

theorem sound_blit (b : Bool) : ExpSound P apG apT (.blit b) := by
  intro env G t ht he hG
  simp only [trE] at ht
  cases ht
  simp only [evalE, evalT]
  exact ⟨rfl, by simp [ValOK], hG⟩

theorem sound_var (x : String) : ExpSound P apG apT (.var x) := by
  intro env G t ht he hG
  simp only [trE, look_senv] at ht
  simp only [evalE]
  cases hl : lookE x env with
  | none => simp [hl] at ht
  | some b =>
    cases b with
    | val v =>
      simp [hl] at ht
      subst ht
      simp only [evalT, lookT_envT, hl, ofOpt_some, res_ok_bind]
      exact ⟨rfl, EnvOK_look env he hl, hG⟩
    | cell ty o =>
      simp [hl] at ht
      subst ht
      simp only [evalT, lookT_envT, hl, ofOpt_some, res_ok_bind, asLocT]
      apply sim_getCell P o hG
      intro v hv hfo
      exact ⟨rfl, fo_ValOK P hfo, hG⟩

/-- how a top-level function is referred to: in both forms the value of the definition -/
theorem evalT_fnRef (env : Env) (f : String) (H : THeap) (h : f = selfOf env → lookE f env = none) :
    evalT apT (envT P env) (fnRef (selfOf env) f) H = .ok (.glob f, H) := by
  unfold fnRef
  split
  · next hs =>
    have := h hs
    simp only [evalT, lookT_envT]
    rw [this]
    simp [hs.symm]
  · simp only [evalT]

theorem sound_fref (f : String) : ExpSound P apG apT (.fref f) := by
  intro env G t ht he hG
  simp only [trE, look_senv] at ht
  cases hl : lookE f env with
  | some b => simp [hl] at ht
  | none =>
    simp [hl] at ht
    subst ht
    simp only [evalE]
    rw [evalT_fnRef env f _ (fun _ => hl)]
    exact ⟨rfl, by simp [ValOK], hG⟩

theorem sound_bin {opV : Val → Val → Res Val} {opT : TVal → TVal → Res TVal}
    (hop : ∀ a b, Sim (toT P) (ValOK P) (opV a b) (opT (toT P a) (toT P b)))
    {a b : Exp} (ha : ExpSound P apG apT a) (hb : ExpSound P apG apT b) {env : Env} {G : GHeap} {ta tb : T}
    (hta : trE false P (selfOf env) (senv env) a = .ok ta) (htb : trE false P (selfOf env) (senv env) b = .ok tb)
    (he : EnvOK P env) (hG : HeapOK G) :
    SimE P ((evalE apG P env b G).bind fun r1 => (evalE apG P env a r1.2).bind fun r2 => (opV r2.1 r1.1).bind fun v => .ok (v, r2.2))
      ((evalT apT (envT P env) tb (heapT P G)).bind fun r1 => (evalT apT (envT P env) ta r1.2).bind fun r2 =>
        (opT r2.1 r1.1).bind fun v => .ok (v, r2.2)) := by
  refine Sim.bind (hb env G tb htb he hG) (fun p1 hp1 => ?_)
  refine Sim.bind (ha env p1.2 ta hta he hp1.2) (fun p2 hp2 => ?_)
  refine Sim.bind (hop p2.1 p1.1) (fun v hv => ?_)
  exact Sim.ok ⟨hv, hp2.2⟩

theorem sound_add {a b : Exp} (ha : ExpSound P apG apT a) (hb : ExpSound P apG apT b) : ExpSound P apG apT (.add a b) := by
  intro env G t ht he hG
  simp only [trE] at ht
  obtain ⟨ta, hta, ht⟩ := bindE_ok ht
  obtain ⟨tb, htb, ht⟩ := bindE_ok ht
  cases ht
  simp only [evalE, evalT]
  exact sound_bin (sim_addV P) ha hb hta htb he hG

theorem sound_sub {a b : Exp} (ha : ExpSound P apG apT a) (hb : ExpSound P apG apT b) : ExpSound P apG apT (.sub a b) := by
  intro env G t ht he hG
  simp only [trE] at ht
  obtain ⟨ta, hta, ht⟩ := bindE_ok ht
  obtain ⟨tb, htb, ht⟩ := bindE_ok ht
  cases ht
  simp only [evalE, evalT]
  exact sound_bin (sim_subV P) ha hb hta htb he hG

theorem sound_mul {a b : Exp} (ha : ExpSound P apG apT a) (hb : ExpSound P apG apT b) : ExpSound P apG apT (.mul a b) := by
  intro env G t ht he hG
  simp only [trE] at ht
  obtain ⟨ta, hta, ht⟩ := bindE_ok ht
  obtain ⟨tb, htb, ht⟩ := bindE_ok ht
  cases ht
  simp only [evalE, evalT]
  exact sound_bin (sim_mulV P) ha hb hta htb he hG

theorem sound_cmp (op : Cmp) {a b : Exp} (ha : ExpSound P apG apT a) (hb : ExpSound P apG apT b) :
    ExpSound P apG apT (.cmp op a b) := by
  intro env G t ht he hG
  simp only [trE] at ht
  obtain ⟨ta, hta, ht⟩ := bindE_ok ht
  obtain ⟨tb, htb, ht⟩ := bindE_ok ht
  cases ht
  simp only [evalE, evalT]
  exact sound_bin (sim_cmpV P op) ha hb hta htb he hG

theorem sound_scmp (op : Cmp) {a b : Exp} (ha : ExpSound P apG apT a) (hb : ExpSound P apG apT b) :
    ExpSound P apG apT (.scmp op a b) := by
  intro env G t ht he hG
  simp only [trE] at ht
  split at ht
  · obtain ⟨ta, hta, ht⟩ := bindE_ok ht
    obtain ⟨tb, htb, ht⟩ := bindE_ok ht
    cases ht
    simp only [evalE, evalT]
    exact sound_bin (sim_scmpV P op) ha hb hta htb he hG
  · cases ht

theorem sound_slen {s : Exp} (hs : ExpSound P apG apT s) : ExpSound P apG apT (.slen s) := by
  intro env G t ht he hG
  simp only [trE] at ht
  obtain ⟨ts, hts, ht⟩ := bindE_ok ht
  cases ht
  simp only [evalE, evalT]
  refine Sim.bind (hs env G ts hts he hG) (fun p hp => ?_)
  apply sim_asStr P
  intro bs
  exact Sim.ok ⟨by simp [ValOK], hp.2⟩

theorem sound_toBytes {s : Exp} (hs : ExpSound P apG apT s) : ExpSound P apG apT (.toBytes s) := by
  intro env G t ht he hG
  simp only [trE] at ht
  obtain ⟨ts, hts, ht⟩ := bindE_ok ht
  cases ht
  simp only [evalE, evalT]
  refine Sim.bind (hs env G ts hts he hG) (fun p hp => ?_)
  apply sim_asStr P
  intro bs
  by_cases h : bs.length = 0
  · simp only [h, if_true]
    exact Sim.ok ⟨by simp [ValOK], hp.2⟩
  · simp only [h, if_false]
    refine ⟨?_, by simp [ValOK], HeapOK_append_arr hp.2⟩
    simp [toT, Obj.mapCell]

theorem sound_ofBytes {b : Exp} (hb : ExpSound P apG apT b) : ExpSound P apG apT (.ofBytes b) := by
  intro env G t ht he hG
  simp only [trE] at ht
  obtain ⟨tb, htb, ht⟩ := bindE_ok ht
  cases ht
  simp only [evalE, evalT]
  refine Sim.bind (hb env G tb htb he hG) (fun p hp => ?_)
  apply sim_asBytes P
  intro o
  apply sim_readBytes P
  intro bs
  exact Sim.ok ⟨by simp [ValOK], hp.2⟩

theorem sound_blen {b : Exp} (hb : ExpSound P apG apT b) : ExpSound P apG apT (.blen b) := by
  intro env G t ht he hG
  simp only [trE] at ht
  obtain ⟨tb, htb, ht⟩ := bindE_ok ht
  cases ht
  simp only [evalE, evalT]
  refine Sim.bind (hb env G tb htb he hG) (fun p hp => ?_)
  apply sim_asBytes P
  intro o
  apply sim_readBytes P
  intro bs
  exact Sim.ok ⟨by simp [ValOK], hp.2⟩

theorem sound_mk {a b : Exp} (ha : ExpSound P apG apT a) (hb : ExpSound P apG apT b) : ExpSound P apG apT (.mk a b) := by
  intro env G t ht he hG
  simp only [trE] at ht
  obtain ⟨ta, hta, ht⟩ := bindE_ok ht
  obtain ⟨tb, htb, ht⟩ := bindE_ok ht
  cases ht
  simp only [evalE, evalT]
  refine Sim.bind (hb env G tb htb he hG) (fun p1 hp1 => ?_)
  apply sim_asNum P
  intro y
  refine Sim.bind (ha env p1.2 ta hta he hp1.2) (fun p2 hp2 => ?_)
  apply sim_asNum P
  intro x
  exact Sim.ok ⟨by simp [ValOK], hp2.2⟩

theorem sound_new {a b : Exp} (ha : ExpSound P apG apT a) (hb : ExpSound P apG apT b) : ExpSound P apG apT (.new a b) := by
  intro env G t ht he hG
  simp only [trE] at ht
  obtain ⟨ta, hta, ht⟩ := bindE_ok ht
  obtain ⟨tb, htb, ht⟩ := bindE_ok ht
  cases ht
  simp only [evalE, evalT]
  refine Sim.bind (hb env G tb htb he hG) (fun p1 hp1 => ?_)
  apply sim_asNum P
  intro y
  refine Sim.bind (ha env p1.2 ta hta he hp1.2) (fun p2 hp2 => ?_)
  apply sim_asNum P
  intro x
  refine ⟨?_, by simp [ValOK], HeapOK_append_cell hp2.2 rfl⟩
  simp [toT, Obj.mapCell]

theorem sound_fld (viaPtr : Bool) (f : Fld) {e : Exp} (h : ExpSound P apG apT e) : ExpSound P apG apT (.fld viaPtr f e) := by
  intro env G t ht he hG
  simp only [trE] at ht
  obtain ⟨te, hte, ht⟩ := bindE_ok ht
  cases ht
  simp only [evalE]
  cases viaPtr with
  | true =>
    simp only [if_true, evalT]
    refine Sim.bind (h env G te hte he hG) (fun p hp => ?_)
    apply sim_asPtr P
    intro o
    apply sim_getStrct P
    intro s _
    exact Sim.ok ⟨by simp [ValOK], hp.2⟩
  | false =>
    simp only [Bool.false_eq_true, if_false, evalT]
    refine Sim.bind (h env G te hte he hG) (fun p hp => ?_)
    apply sim_asStrct P
    intro s
    exact Sim.ok ⟨by simp [ValOK], hp.2⟩

theorem sound_fn (named : Bool) (ps : List String) (body : Stmts) : ExpSound P apG apT (.fn named ps body) := by
  intro env G t ht he hG
  simp only [trE] at ht
  cases named with
  | true => simp at ht
  | false =>
    simp only [Bool.false_eq_true, if_false] at ht
    obtain ⟨tb, htb, ht⟩ := bindE_ok ht
    cases ht
    simp only [evalE, Bool.false_eq_true, if_false, evalT]
    have hb : trBody false P (selfOf env) (senv env) ps body = .ok tb := htb
    refine ⟨?_, ?_, hG⟩
    · simp only [toT, trBodyD, hb]
    · simp only [ValOK]
      exact ⟨he, tb, hb⟩

/-! ### argument lists and calls -/

theorem sound_nil : ExpsSound P apG apT .nil := by
  intro env G ts ht he hG
  simp only [trEs] at ht
  cases ht
  simp only [evalEs, evalTs]
  exact ⟨rfl, ValsOK_nil P, hG⟩

theorem sound_cons {e : Exp} {rest : Exps} (h : ExpSound P apG apT e) (hr : ExpsSound P apG apT rest) :
    ExpsSound P apG apT (.cons e rest) := by
  intro env G ts ht he hG
  simp only [trEs] at ht
  split at ht
  · cases ht
  · obtain ⟨t, hte, ht⟩ := bindE_ok ht
    obtain ⟨ts', hts, ht⟩ := bindE_ok ht
    cases ht
    simp only [evalEs, evalTs]
    refine Sim.bind (hr env G ts' hts he hG) (fun p1 hp1 => ?_)
    refine Sim.bind (h env p1.2 t hte he hp1.2) (fun p2 hp2 => ?_)
    exact Sim.ok ⟨ValsOK_cons hp2.1 hp1.1, hp2.2⟩

/-- the arguments of a call: `#()` when there are none -/
theorem sound_args {es : Exps} (h : ExpsSound P apG apT es) {env : Env} {G : GHeap} {ts : Ts}
    (ht : trEs false P (selfOf env) (senv env) es = .ok ts) (he : EnvOK P env) (hG : HeapOK G) :
    Sim (fun p => (argsT (p.1.map (toT P)), heapT P p.2)) (fun p => ValsOK P p.1 ∧ HeapOK p.2)
      (evalEs apG P env es G) (evalTs apT (envT P env) (unitArgs ts) (heapT P G)) := by
  cases es with
  | nil =>
    simp only [trEs] at ht
    cases ht
    simp only [evalEs, unitArgs, evalTs, res_ok_bind, evalT]
    exact ⟨rfl, ValsOK_nil P, hG⟩
  | cons e rest =>
    have hs := h env G ts ht he hG
    simp only [trEs] at ht
    split at ht
    · cases ht
    · obtain ⟨t, _, ht⟩ := bindE_ok ht
      obtain ⟨ts', _, ht⟩ := bindE_ok ht
      cases ht
      simp only [unitArgs]
      apply Sim.congr_f hs
      intro a ha
      simp only [evalEs] at ha
      cases h1 : evalEs apG P env rest G with
      | ok p1 =>
        simp only [h1, res_ok_bind] at ha
        cases h2 : evalE apG P env e p1.2 with
        | ok p2 =>
          simp only [h2, res_ok_bind] at ha
          cases ha
          rfl
        | fuel => simp [h2] at ha
        | bad => simp [h2] at ha
      | fuel => simp [h1] at ha
      | bad => simp [h1] at ha

variable (hap : OracleRel P apG apT)
include hap

theorem sound_callC (f : String) {args : Exps} (h : ExpsSound P apG apT args) {env : Env} {G : GHeap} {t : T}
    (ht : trE false P (selfOf env) (senv env) (.call f args) = .ok t) (he : EnvOK P env) (hG : HeapOK G) :
    SimR P (evalC apG P env G (.call f args)) (evalT apT (envT P env) t (heapT P G)) := by
  simp only [trE, look_senv] at ht
  obtain ⟨ts, hts, ht⟩ := bindE_ok ht
  simp only [evalC]
  cases hl : lookE f env with
  | none =>
    simp [hl] at ht
    subst ht
    simp only [evalT]
    refine Sim.bind (sound_args h hts he hG) (fun p hp => ?_)
    simp only [calleeOf, hl, res_ok_bind]
    rw [evalT_fnRef env f _ (fun _ => hl)]
    simp only [res_ok_bind]
    exact (hap (.fn f) p.1 p.2 (by simp [ValOK]) hp.1 hp.2)
  | some b =>
    cases b with
    | val v =>
      simp [hl] at ht
      subst ht
      simp only [evalT]
      refine Sim.bind (sound_args h hts he hG) (fun p hp => ?_)
      simp only [calleeOf, hl, res_ok_bind, lookT_envT, ofOpt_some]
      exact (hap v p.1 p.2 (EnvOK_look env he hl) hp.1 hp.2)
    | cell ty o =>
      simp [hl] at ht
      subst ht
      simp only [evalT]
      refine Sim.bind (sound_args h hts he hG) (fun p hp => ?_)
      simp only [calleeOf, hl, res_ok_bind, lookT_envT, ofOpt_some, asLocT]
      rw [getCell_heapT]
      cases hc : getCell p.2 o with
      | none => exact Sim.bad
      | some v =>
        simp only [ofOpt_some, Option.map, res_ok_bind]
        exact (hap v p.1 p.2 (HeapOK_cell hp.2 hc) hp.1 hp.2)

omit hap in
theorem evalE_call (ap : GOracle) (env : Env) (f : String) (args : Exps) (G : GHeap) :
    evalE ap P env (.call f args) G = (evalC ap P env G (.call f args)).bind single := by
  simp only [evalE, evalC, Res.bind_assoc]

theorem sound_call (f : String) {args : Exps} (h : ExpsSound P apG apT args) : ExpSound P apG apT (.call f args) := by
  intro env G t ht he hG
  rw [evalE_call]
  exact sim_single P (sound_callC hap f h ht he hG)

theorem sound_mcallC (viaPtr : Bool) (m : String) {recv : Exp} {args : Exps} (hr : ExpSound P apG apT recv)
    (h : ExpsSound P apG apT args) {env : Env} {G : GHeap} {t : T}
    (ht : trE false P (selfOf env) (senv env) (.mcall viaPtr m recv args) = .ok t) (he : EnvOK P env) (hG : HeapOK G) :
    SimR P (evalC apG P env G (.mcall viaPtr m recv args)) (evalT apT (envT P env) t (heapT P G)) := by
  simp only [trE] at ht
  cases hm : findMeth m P with
  | none => simp [hm] at ht
  | some d =>
    simp only [hm] at ht
    cases hrc : d.recv with
    | none => simp [hrc] at ht
    | some rc =>
      simp only [hrc] at ht
      obtain ⟨tr, htr, ht⟩ := bindE_ok ht
      obtain ⟨ts, hts, ht⟩ := bindE_ok ht
      simp only [Bool.false_eq_true, if_false] at ht
      split at ht
      · cases ht
      · next hshadow =>
        split at ht
        · next hkind =>
          cases ht
          simp only [evalC, hm, hrc, ofOpt_some, res_ok_bind, evalT, evalTs, Res.bind_assoc]
          refine Sim.bind (h env G ts hts he hG) (fun p1 hp1 => ?_)
          have hrv : recvOf env viaPtr rc.ptr recv p1.2 (evalE apG P env recv p1.2) = evalE apG P env recv p1.2 := by
            rw [← hkind]
            cases viaPtr <;> rfl
          rw [hrv]
          refine Sim.bind (hr env p1.2 tr htr he hp1.2) (fun p2 hp2 => ?_)
          simp only [res_ok_bind]
          have hself : d.name = selfOf env → lookE d.name env = none := by
            intro hs
            have : ¬ (look d.name (senv env)).isSome := fun hh => hshadow ⟨hs, hh⟩
            rw [look_senv] at this
            cases hl : lookE d.name env with
            | none => rfl
            | some b => simp [hl] at this
          rw [evalT_fnRef env d.name _ hself]
          simp only [res_ok_bind]
          exact (hap (.fn d.name) (p2.1 :: p1.1) p2.2 (by simp [ValOK]) (ValsOK_cons hp2.1 hp1.1) hp2.2)
        · split at ht <;> cases ht

omit hap in
theorem evalE_mcall (ap : GOracle) (env : Env) (viaPtr : Bool) (m : String) (recv : Exp) (args : Exps) (G : GHeap) :
    evalE ap P env (.mcall viaPtr m recv args) G = (evalC ap P env G (.mcall viaPtr m recv args)).bind single := by
  simp only [evalE, evalC, Res.bind_assoc]

theorem sound_mcall (viaPtr : Bool) (m : String) {recv : Exp} {args : Exps} (hr : ExpSound P apG apT recv)
    (h : ExpsSound P apG apT args) : ExpSound P apG apT (.mcall viaPtr m recv args) := by
  intro env G t ht he hG
  rw [evalE_mcall]
  exact sim_single P (sound_mcallC hap viaPtr m hr h ht he hG)

mutual
/-- Every accepted expression is simulated: one mutual structural induction over expressions and argument lists. -/
theorem sound_exp : (e : Exp) → ExpSound P apG apT e
  | .lit n => sound_lit n
  | .slit s => sound_slit s
  | .blit b => sound_blit b
  | .var x => sound_var x
  | .fref f => sound_fref f
  | .add a b => sound_add (sound_exp a) (sound_exp b)
  | .sub a b => sound_sub (sound_exp a) (sound_exp b)
  | .mul a b => sound_mul (sound_exp a) (sound_exp b)
  | .cmp op a b => sound_cmp op (sound_exp a) (sound_exp b)
  | .scmp op a b => sound_scmp op (sound_exp a) (sound_exp b)
  | .slen s => sound_slen (sound_exp s)
  | .toBytes s => sound_toBytes (sound_exp s)
  | .ofBytes b => sound_ofBytes (sound_exp b)
  | .blen b => sound_blen (sound_exp b)
  | .mk a b => sound_mk (sound_exp a) (sound_exp b)
  | .new a b => sound_new (sound_exp a) (sound_exp b)
  | .fld v f e => sound_fld v f (sound_exp e)
  | .call f args => sound_call hap f (sound_exps args)
  | .mcall v m recv args => sound_mcall hap v m (sound_exp recv) (sound_exps args)
  | .fn named ps body => sound_fn named ps body
theorem sound_exps : (es : Exps) → ExpsSound P apG apT es
  | .nil => sound_nil
  | .cons e rest => sound_cons (sound_exp e) (sound_exps rest)
end

/-- a call-like expression (any number of results) -/
theorem sound_evalC (e : Exp) {env : Env} {G : GHeap} {t : T}
    (ht : trE false P (selfOf env) (senv env) e = .ok t) (he : EnvOK P env) (hG : HeapOK G) :
    SimR P (evalC apG P env G e) (evalT apT (envT P env) t (heapT P G)) := by
  have one : ∀ {r : Res (Val × GHeap)} {rt : Res (TVal × THeap)}, SimE P r rt →
      SimR P (r.bind fun q => .ok ([q.1], q.2)) rt := by
    intro r rt h
    cases r with
    | ok p => exact ⟨h.1, ValsOK_cons h.2.1 (ValsOK_nil P), h.2.2⟩
    | fuel => exact h
    | bad => trivial
  cases e with
  | call f args => exact sound_callC hap f (sound_exps hap args) ht he hG
  | mcall v m recv args => exact sound_mcallC hap v m (sound_exp hap recv) (sound_exps hap args) ht he hG
  | lit n => exact one (sound_exp hap _ env G t ht he hG)
  | slit n => exact one (sound_exp hap _ env G t ht he hG)
  | blit n => exact one (sound_exp hap _ env G t ht he hG)
  | var n => exact one (sound_exp hap _ env G t ht he hG)
  | fref n => exact one (sound_exp hap _ env G t ht he hG)
  | add a b => exact one (sound_exp hap _ env G t ht he hG)
  | sub a b => exact one (sound_exp hap _ env G t ht he hG)
  | mul a b => exact one (sound_exp hap _ env G t ht he hG)
  | cmp op a b => exact one (sound_exp hap _ env G t ht he hG)
  | scmp op a b => exact one (sound_exp hap _ env G t ht he hG)
  | slen a => exact one (sound_exp hap _ env G t ht he hG)
  | toBytes a => exact one (sound_exp hap _ env G t ht he hG)
  | ofBytes a => exact one (sound_exp hap _ env G t ht he hG)
  | blen a => exact one (sound_exp hap _ env G t ht he hG)
  | mk a b => exact one (sound_exp hap _ env G t ht he hG)
  | new a b => exact one (sound_exp hap _ env G t ht he hG)
  | fld v f a => exact one (sound_exp hap _ env G t ht he hG)
  | fn n ps b => exact one (sound_exp hap _ env G t ht he hG)

end exps

end GooseVerif.Model.Fun
