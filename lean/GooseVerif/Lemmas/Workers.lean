import GooseVerif.Model.Workers

namespace GooseVerif.Model.Workers

theorem runSched_length {α β : Type} (f : α → β) (inputs : List α) (sched : List Nat) (slots : List (Option β)) :
    (runSched f inputs sched slots).length = slots.length := by
  induction sched generalizing slots with
  | nil => rfl
  | cons i sched ih =>
    simp only [runSched, List.foldl_cons] at ih ⊢
    split <;> simp [ih]

/-- slot `j` holds `f inputs[j]` once worker `j` has run, and is never anything else -/
theorem runSched_get {α β : Type} (f : α → β) (inputs : List α) (sched : List Nat) (slots : List (Option β))
    (j : Nat) (hlen : slots.length = inputs.length)
    (hinv : ∀ x, inputs[j]? = some x → slots[j]? = some none ∨ slots[j]? = some (some (f x))) :
    ∀ x, inputs[j]? = some x →
      (runSched f inputs sched slots)[j]? = (if j ∈ sched then some (some (f x)) else slots[j]?) := by
  induction sched generalizing slots with
  | nil => intro x hx; simp [runSched]
  | cons i sched ih =>
    intro x hx
    simp only [runSched, List.foldl_cons]
    cases hi : inputs[i]? with
    | none =>
      have hne : i ≠ j := by intro h; subst h; rw [hx] at hi; cases hi
      have := ih slots hlen hinv x hx
      simp only [runSched] at this
      simp only [this, List.mem_cons]
      have : (j = i ∨ j ∈ sched) ↔ j ∈ sched := by
        constructor
        · rintro (h | h)
          · exact absurd h.symm hne
          · exact h
        · exact Or.inr
      simp [this]
    | some y =>
      have hlen' : (slots.set i (some (f y))).length = inputs.length := by simp [hlen]
      have hinv' : ∀ x, inputs[j]? = some x →
          (slots.set i (some (f y)))[j]? = some none ∨ (slots.set i (some (f y)))[j]? = some (some (f x)) := by
        intro x' hx'
        by_cases hij : i = j
        · subst hij
          rw [hx'] at hi; cases hi
          right
          have : i < slots.length := by
            rw [hlen]
            exact (List.getElem?_eq_some_iff.mp hx').1
          simp [List.getElem?_set, this]
        · rw [List.getElem?_set_ne hij]; exact hinv x' hx'
      have := ih (slots.set i (some (f y))) hlen' hinv' x hx
      simp only [runSched] at this
      rw [this]
      by_cases hij : i = j
      · subst hij
        rw [hx] at hi; cases hi
        have hlt : i < slots.length := by
          rw [hlen]; exact (List.getElem?_eq_some_iff.mp hx).1
        by_cases hm : i ∈ sched <;> simp [hm, List.getElem?_set, hlt]
      · have : (j = i ∨ j ∈ sched) ↔ j ∈ sched := by
          constructor
          · rintro (h | h)
            · exact absurd h.symm hij
            · exact h
          · exact Or.inr
        simp only [List.mem_cons, this, List.getElem?_set_ne hij]

end GooseVerif.Model.Workers
