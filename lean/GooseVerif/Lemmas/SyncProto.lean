/-
Lemmas for `Model/SyncProto.lean` (C03, the parametric part): invariants of the wait-group /
mutex protocol proved by induction over `Reachable`, the order log that gives the outcome set,
progress and the termination measure; invariant, continuation schedule and the captured-copy
mutant of the condition-variable hand-off.
-/
import GooseVerif.Model.SyncProto

namespace GooseVerif.Model.SyncProto

namespace WG

theorem countP_set' {α : Type} (p : α → Bool) (l : List α) (i : Nat) (a b : α) (h : l[i]? = some a) :
    (l.set i b).countP p + (if p a then 1 else 0) = l.countP p + (if p b then 1 else 0) := by
  induction l generalizing i with
  | nil => simp at h
  | cons x l ih =>
    cases i with
    | zero =>
      simp only [List.getElem?_cons_zero, Option.some.injEq] at h
      subst h
      simp only [List.set_cons_zero, List.countP_cons]
      omega
    | succ i =>
      simp only [List.getElem?_cons_succ] at h
      have := ih i h
      simp only [List.set_cons_succ, List.countP_cons]
      omega

theorem sum_map_set {α : Type} (r : α → Nat) (l : List α) (i : Nat) (a b : α) (h : l[i]? = some a) :
    ((l.set i b).map r).sum + r a = (l.map r).sum + r b := by
  induction l generalizing i with
  | nil => simp at h
  | cons x l ih =>
    cases i with
    | zero =>
      simp only [List.getElem?_cons_zero, Option.some.injEq] at h
      subst h
      simp only [List.set_cons_zero, List.map_cons, List.sum_cons]
      omega
    | succ i =>
      simp only [List.getElem?_cons_succ] at h
      have := ih i h
      simp only [List.set_cons_succ, List.map_cons, List.sum_cons]
      omega

theorem step_worker_cases {crit : Nat → Nat → Nat} {vs : List Nat} {s s' : State} {i : Nat}
    (h : step crit vs s (.worker i) = some s') :
    (s.pcs[i]? = some .start ∧ s.lock = none ∧
        s' = { s with lock := some i, pcs := s.pcs.set i .locked }) ∨
    (s.pcs[i]? = some .locked ∧
        s' = { s with total := crit s.total (vs[i]?.getD 0), pcs := s.pcs.set i .added }) ∨
    (s.pcs[i]? = some .added ∧ s' = { s with lock := none, pcs := s.pcs.set i .unlocked }) ∨
    (s.pcs[i]? = some .unlocked ∧ s.wg ≠ 0 ∧
        s' = { s with wg := s.wg - 1, pcs := s.pcs.set i .done }) := by
  simp only [step] at h
  split at h
  · split at h
    · simp only [Option.some.injEq] at h; exact .inl ⟨by assumption, by assumption, h.symm⟩
    · simp at h
  · simp only [Option.some.injEq] at h; exact .inr (.inl ⟨by assumption, h.symm⟩)
  · simp only [Option.some.injEq] at h; exact .inr (.inr (.inl ⟨by assumption, h.symm⟩))
  · split at h
    · simp at h
    · simp only [Option.some.injEq] at h; exact .inr (.inr (.inr ⟨by assumption, by assumption, h.symm⟩))
  · simp at h

theorem step_main_cases {crit : Nat → Nat → Nat} {vs : List Nat} {s s' : State}
    (h : step crit vs s .main = some s') :
    s.wg = 0 ∧ s.mainPassed = false ∧ s' = { s with mainPassed := true } := by
  simp only [step] at h
  split at h
  · simp only [Option.some.injEq] at h; rename_i hc; exact ⟨hc.1, hc.2, h.symm⟩
  · simp at h


/-! ### invariants of the worker steps (whatever the registered count is) -/

/-- mutual exclusion: the lock is held iff exactly one worker is in its critical section, and
that worker is the holder -/
def CSInv (s : State) : Prop :=
  s.pcs.countP inCS = (if s.lock.isSome then 1 else 0) ∧
  ∀ i, s.lock = some i → ∃ pc, s.pcs[i]? = some pc ∧ inCS pc = true

theorem cs_iff {s : State} (h : CSInv s) :
    (s.lock.isSome = true ↔ s.pcs.countP inCS = 1) ∧ s.pcs.countP inCS ≤ 1 := by
  obtain ⟨hc, _⟩ := h
  cases hl : s.lock with
  | none =>
    rw [hl] at hc
    simp only [Option.isSome_none, Bool.false_eq_true, if_false] at hc
    rw [hc]; simp
  | some j =>
    rw [hl] at hc
    simp only [Option.isSome_some, if_true] at hc
    rw [hc]; simp

/-- the shared cell is the fold of the critical sections executed so far, in some order `l`
(indices of the workers, without repetition) -/
def LogInv (crit : Nat → Nat → Nat) (vs : List Nat) (init0 : Nat) (s : State) : Prop :=
  ∃ l : List Nat, l.Nodup ∧ (∀ i, i ∈ l ↔ ∃ pc, s.pcs[i]? = some pc ∧ passed pc = true) ∧
    s.total = (l.map fun i => vs[i]?.getD 0).foldl crit init0

theorem lt_of_getElem? {α : Type} {l : List α} {i : Nat} {a : α} (h : l[i]? = some a) : i < l.length := by
  rcases Nat.lt_or_ge i l.length with h' | h'
  · exact h'
  · rw [List.getElem?_eq_none h'] at h; cases h

theorem notDone_start : notDone .start = true := rfl
theorem notDone_locked : notDone .locked = true := rfl
theorem notDone_added : notDone .added = true := rfl
theorem notDone_unlocked : notDone .unlocked = true := rfl
theorem notDone_done : notDone .done = false := rfl
theorem inCS_start : inCS .start = false := rfl
theorem inCS_locked : inCS .locked = true := rfl
theorem inCS_added : inCS .added = true := rfl
theorem inCS_unlocked : inCS .unlocked = false := rfl
theorem inCS_done : inCS .done = false := rfl
theorem passed_start : passed .start = false := rfl
theorem passed_locked : passed .locked = false := rfl
theorem passed_added : passed .added = true := rfl
theorem passed_unlocked : passed .unlocked = true := rfl
theorem passed_done : passed .done = true := rfl

open Lean.Parser.Tactic in
/-- evaluate the pc predicates on constructors, nothing else -/
macro "pc_simp" loc:(location)? : tactic =>
  `(tactic| simp only [notDone_start, notDone_locked, notDone_added, notDone_unlocked, notDone_done,
      inCS_start, inCS_locked, inCS_added, inCS_unlocked, inCS_done,
      passed_start, passed_locked, passed_added, passed_unlocked, passed_done, rank,
      Option.isSome_some, Option.isSome_none, Bool.false_eq_true, if_true, if_false, reduceIte] $[$loc]?)

theorem worker_frame {crit : Nat → Nat → Nat} {vs : List Nat} {s s' : State} {i : Nat}
    (h : step crit vs s (.worker i) = some s') :
    s'.pcs.length = s.pcs.length ∧ s'.mainPassed = s.mainPassed ∧ s'.wg ≤ s.wg ∧
    s.wg + s'.pcs.countP notDone = s'.wg + s.pcs.countP notDone ∧
    (s'.pcs.map rank).sum + 1 = (s.pcs.map rank).sum := by
  rcases step_worker_cases h with ⟨hp, _, rfl⟩ | ⟨hp, rfl⟩ | ⟨hp, rfl⟩ | ⟨hp, hw, rfl⟩
  · have h1 := countP_set' notDone s.pcs i _ .locked hp
    have h2 := sum_map_set rank s.pcs i _ .locked hp
    pc_simp at h1 h2
    refine ⟨List.length_set, rfl, Nat.le_refl _, ?_, ?_⟩ <;> dsimp only <;> omega
  · have h1 := countP_set' notDone s.pcs i _ .added hp
    have h2 := sum_map_set rank s.pcs i _ .added hp
    pc_simp at h1 h2
    refine ⟨List.length_set, rfl, Nat.le_refl _, ?_, ?_⟩ <;> dsimp only <;> omega
  · have h1 := countP_set' notDone s.pcs i _ .unlocked hp
    have h2 := sum_map_set rank s.pcs i _ .unlocked hp
    pc_simp at h1 h2
    refine ⟨List.length_set, rfl, Nat.le_refl _, ?_, ?_⟩ <;> dsimp only <;> omega
  · have h1 := countP_set' notDone s.pcs i _ .done hp
    have h2 := sum_map_set rank s.pcs i _ .done hp
    pc_simp at h1 h2
    refine ⟨List.length_set, rfl, Nat.sub_le _ _, ?_, ?_⟩ <;> dsimp only <;> omega

theorem getElem?_set_self' {α : Type} {l : List α} {i : Nat} {a b : α} (h : l[i]? = some a) :
    (l.set i b)[i]? = some b := by
  rw [List.getElem?_set]; simp [lt_of_getElem? h]

theorem getElem?_set_ne' {α : Type} {l : List α} {i j : Nat} {b : α} (h : i ≠ j) :
    (l.set i b)[j]? = l[j]? := by
  rw [List.getElem?_set]; simp [h]

theorem worker_cs {crit : Nat → Nat → Nat} {vs : List Nat} {s s' : State} {i : Nat}
    (h : step crit vs s (.worker i) = some s') (hi : CSInv s) : CSInv s' := by
  obtain ⟨hc, hh⟩ := hi
  rcases step_worker_cases h with ⟨hp, hl, rfl⟩ | ⟨hp, rfl⟩ | ⟨hp, rfl⟩ | ⟨hp, hw, rfl⟩
  · have h1 := countP_set' inCS s.pcs i _ .locked hp
    rw [hl] at hc
    pc_simp at h1 hc
    refine ⟨?_, ?_⟩
    · dsimp only; pc_simp; omega
    · intro j hj
      simp only [Option.some.injEq] at hj
      subst hj
      exact ⟨.locked, getElem?_set_self' hp, rfl⟩
  · have h1 := countP_set' inCS s.pcs i _ .added hp
    pc_simp at h1
    refine ⟨?_, ?_⟩
    · dsimp only; omega
    · intro j hj
      obtain ⟨pc, hpc, hin⟩ := hh j hj
      by_cases hij : i = j
      · subst hij; exact ⟨.added, getElem?_set_self' hp, rfl⟩
      · exact ⟨pc, by dsimp only; rw [getElem?_set_ne' hij, hpc], hin⟩
  · have h1 := countP_set' inCS s.pcs i _ .unlocked hp
    pc_simp at h1
    refine ⟨?_, ?_⟩
    · dsimp only; pc_simp; split at hc <;> omega
    · intro j hj; cases hj
  · have h1 := countP_set' inCS s.pcs i _ .done hp
    pc_simp at h1
    refine ⟨?_, ?_⟩
    · dsimp only; omega
    · intro j hj
      obtain ⟨pc, hpc, hin⟩ := hh j hj
      have hij : i ≠ j := by
        intro e; subst e; rw [hp] at hpc; cases hpc; cases hin
      exact ⟨pc, by dsimp only; rw [getElem?_set_ne' hij, hpc], hin⟩

theorem passed_set_same {pcs : List WorkerPc} {i : Nat} {a b : WorkerPc} (hp : pcs[i]? = some a)
    (hab : passed a = passed b) (j : Nat) :
    (∃ pc, (pcs.set i b)[j]? = some pc ∧ passed pc = true) ↔ (∃ pc, pcs[j]? = some pc ∧ passed pc = true) := by
  by_cases hij : i = j
  · subst hij
    rw [getElem?_set_self' hp, hp]
    constructor
    · rintro ⟨pc, hpc, hh⟩; cases hpc; exact ⟨a, rfl, by rw [hab]; exact hh⟩
    · rintro ⟨pc, hpc, hh⟩; cases hpc; exact ⟨b, rfl, by rw [← hab]; exact hh⟩
  · rw [getElem?_set_ne' hij]

theorem worker_log {crit : Nat → Nat → Nat} {vs : List Nat} {init0 : Nat} {s s' : State} {i : Nat}
    (h : step crit vs s (.worker i) = some s') (hi : LogInv crit vs init0 s) : LogInv crit vs init0 s' := by
  obtain ⟨l, hnd, hmem, htot⟩ := hi
  rcases step_worker_cases h with ⟨hp, hl, rfl⟩ | ⟨hp, rfl⟩ | ⟨hp, rfl⟩ | ⟨hp, hw, rfl⟩
  · exact ⟨l, hnd, fun j => (hmem j).trans (passed_set_same (b := .locked) hp rfl j).symm, htot⟩
  · have hni : i ∉ l := by
      intro hin
      obtain ⟨pc, hpc, hh⟩ := (hmem i).mp hin
      rw [hp] at hpc; cases hpc; cases hh
    refine ⟨l ++ [i], ?_, ?_, ?_⟩
    · rw [List.nodup_append]
      refine ⟨hnd, by simp, ?_⟩
      intro a ha b hb
      simp only [List.mem_singleton] at hb
      subst hb
      intro e; subst e; exact hni ha
    · intro j
      dsimp only
      by_cases hij : i = j
      · subst hij
        rw [getElem?_set_self' hp]
        simp only [List.mem_append, List.mem_singleton, or_true, true_iff]
        exact ⟨.added, rfl, rfl⟩
      · rw [getElem?_set_ne' hij]
        simp only [List.mem_append, List.mem_singleton]
        rw [← hmem j]
        constructor
        · rintro (h1 | h1)
          · exact h1
          · exact absurd h1.symm hij
        · exact Or.inl
    · dsimp only
      rw [List.map_append, List.foldl_append, ← htot]
      rfl
  · exact ⟨l, hnd, fun j => (hmem j).trans (passed_set_same (b := .unlocked) hp rfl j).symm, htot⟩
  · exact ⟨l, hnd, fun j => (hmem j).trans (passed_set_same (b := .done) hp rfl j).symm, htot⟩

/-! ### the correct translation: the registered count is the number of workers -/

structure Inv (crit : Nat → Nat → Nat) (vs : List Nat) (init0 : Nat) (s : State) : Prop where
  len : s.pcs.length = vs.length
  wg : s.wg = s.pcs.countP notDone
  cs : CSInv s
  log : LogInv crit vs init0 s
  passed : s.mainPassed = true → s.wg = 0

theorem inv_init (crit : Nat → Nat → Nat) (vs : List Nat) (init0 : Nat) :
    Inv crit vs init0 (initState init0 vs.length vs.length) := by
  refine ⟨by simp [initState], ?_, ⟨?_, ?_⟩, ?_, ?_⟩
  · simp [initState, List.countP_replicate, notDone_start]
  · simp [initState, List.countP_replicate, inCS_start]
  · intro i h; cases h
  · refine ⟨[], List.nodup_nil, ?_, rfl⟩
    intro i
    simp only [initState, List.not_mem_nil, false_iff, List.getElem?_replicate]
    rintro ⟨pc, hpc, hh⟩
    split at hpc
    · cases hpc; cases hh
    · cases hpc
  · intro h; cases h

theorem inv_step {crit : Nat → Nat → Nat} {vs : List Nat} {init0 : Nat} {s s' : State} {a : Action}
    (h : step crit vs s a = some s') (hi : Inv crit vs init0 s) : Inv crit vs init0 s' := by
  cases a with
  | worker i =>
    obtain ⟨h1, h2, _, h4, _⟩ := worker_frame h
    refine ⟨h1.trans hi.len, ?_, worker_cs h hi.cs, worker_log h hi.log, ?_⟩
    · have := hi.wg; omega
    · intro hm; rw [h2] at hm; have := hi.passed hm; omega
  | main =>
    obtain ⟨hw, _, rfl⟩ := step_main_cases h
    exact ⟨hi.len, hi.wg, hi.cs, hi.log, fun _ => hw⟩

theorem inv_reachable {crit : Nat → Nat → Nat} {vs : List Nat} {init0 : Nat} {s : State}
    (h : Reachable crit vs (initState init0 vs.length vs.length) s) : Inv crit vs init0 s := by
  induction h with
  | init => exact inv_init crit vs init0
  | step a _ hs ih => exact inv_step hs ih

theorem reachable_of_run {crit : Nat → Nat → Nat} {vs : List Nat} {s0 s s' : State} {sched : List Action}
    (hr : Reachable crit vs s0 s) (h : run crit vs s sched = some s') : Reachable crit vs s0 s' := by
  induction sched generalizing s with
  | nil => simp only [run, Option.some.injEq] at h; subst h; exact hr
  | cons a as ih =>
    simp only [run] at h
    cases hs : step crit vs s a with
    | none => rw [hs] at h; cases h
    | some t => rw [hs] at h; exact ih (hr.step a hs) h

theorem run_append {crit : Nat → Nat → Nat} {vs : List Nat} {s s' : State} {a b : List Action}
    (h : run crit vs s a = some s') : run crit vs s (a ++ b) = run crit vs s' b := by
  induction a generalizing s with
  | nil => simp only [run, Option.some.injEq] at h; subst h; rfl
  | cons x xs ih =>
    simp only [run, List.cons_append] at h ⊢
    cases hs : step crit vs s x with
    | none => rw [hs] at h; cases h
    | some t => rw [hs] at h; simp only [Option.bind_some] at h ⊢; exact ih h

/-- when the counter is zero every worker is done -/
theorem all_done {crit : Nat → Nat → Nat} {vs : List Nat} {init0 : Nat} {s : State}
    (hi : Inv crit vs init0 s) (hw : s.wg = 0) : ∀ pc ∈ s.pcs, pc = .done := by
  intro pc hpc
  have h0 : s.pcs.countP notDone = 0 := by rw [← hi.wg]; exact hw
  have := List.countP_eq_zero.mp h0 pc hpc
  cases pc <;> first | rfl | (exfalso; exact this rfl)

theorem map_range_getD (vs : List Nat) : (List.range vs.length).map (fun i => vs[i]?.getD 0) = vs := by
  apply List.ext_getElem
  · simp
  · intro i h1 h2
    simp only [List.length_map, List.length_range] at h1
    simp [h1]

/-- the join: the shared cell is the fold of ALL the values, in some order -/
theorem final_perm' {crit : Nat → Nat → Nat} {vs : List Nat} {init0 : Nat} {s : State}
    (hlen : s.pcs.length = vs.length) (hall : ∀ pc ∈ s.pcs, pc = .done) (hlog : LogInv crit vs init0 s) :
    ∃ l' : List Nat, l'.Perm vs ∧ s.total = l'.foldl crit init0 := by
  obtain ⟨l, hnd, hmem, htot⟩ := hlog
  have hperm : l.Perm (List.range vs.length) := by
    rw [List.perm_ext_iff_of_nodup hnd List.nodup_range]
    intro i
    rw [hmem i, List.mem_range]
    constructor
    · rintro ⟨pc, hpc, _⟩; rw [← hlen]; exact lt_of_getElem? hpc
    · intro hlt
      rw [← hlen] at hlt
      refine ⟨s.pcs[i], List.getElem?_eq_getElem hlt, ?_⟩
      rw [hall _ (List.getElem_mem hlt)]; rfl
  refine ⟨l.map fun i => vs[i]?.getD 0, ?_, htot⟩
  have := hperm.map (fun i => vs[i]?.getD 0)
  rwa [map_range_getD] at this

theorem final_perm {crit : Nat → Nat → Nat} {vs : List Nat} {init0 : Nat} {s : State}
    (hi : Inv crit vs init0 s) (hw : s.wg = 0) :
    ∃ l' : List Nat, l'.Perm vs ∧ s.total = l'.foldl crit init0 :=
  final_perm' hi.len (all_done hi hw) hi.log

theorem foldl_sumCrit (l : List Nat) (a : Nat) : l.foldl sumCrit a = a + l.sum := by
  induction l generalizing a with
  | nil => simp
  | cons x l ih => simp only [List.foldl_cons, ih, sumCrit, List.sum_cons]; omega

/-! ### progress and termination -/

theorem progress' {crit : Nat → Nat → Nat} {vs : List Nat} {init0 : Nat} {s : State}
    (hi : Inv crit vs init0 s) (hm : s.mainPassed = false) : ∃ a, (step crit vs s a).isSome = true := by
  by_cases hw : s.wg = 0
  · exact ⟨.main, by simp [step, hw, hm]⟩
  · have hpos : 0 < s.pcs.countP notDone := by rw [← hi.wg]; omega
    obtain ⟨pc, hmem, hnd⟩ := List.countP_pos_iff.mp hpos
    obtain ⟨i, hpi⟩ := List.getElem?_of_mem hmem
    cases pc with
    | start =>
      cases hl : s.lock with
      | none => exact ⟨.worker i, by simp [step, hpi, hl]⟩
      | some j =>
        obtain ⟨pc', hpj, hin⟩ := hi.cs.2 j hl
        cases pc' with
        | locked => exact ⟨.worker j, by simp [step, hpj]⟩
        | added => exact ⟨.worker j, by simp [step, hpj]⟩
        | _ => cases hin
    | locked => exact ⟨.worker i, by simp [step, hpi]⟩
    | added => exact ⟨.worker i, by simp [step, hpi]⟩
    | unlocked => exact ⟨.worker i, by simp [step, hpi, hw]⟩
    | done => cases hnd

theorem progress {crit : Nat → Nat → Nat} {vs : List Nat} {init0 : Nat} {s : State}
    (hi : Inv crit vs init0 s) (hm : s.mainPassed = false) : ∃ a s', step crit vs s a = some s' := by
  obtain ⟨a, ha⟩ := progress' hi hm
  exact ⟨a, Option.isSome_iff_exists.mp ha⟩

theorem never_stuck {crit : Nat → Nat → Nat} {vs : List Nat} {init0 : Nat} {s : State}
    (hi : Inv crit vs init0 s) (i : Nat) : ¬ StuckWorker s i := by
  rintro ⟨hp, hw⟩
  have := all_done hi hw _ (List.mem_of_getElem? hp)
  cases this

/-- every step (whatever the registered count) strictly decreases the measure -/
theorem step_measure {crit : Nat → Nat → Nat} {vs : List Nat} {s s' : State} {a : Action}
    (h : step crit vs s a = some s') : measure s' < measure s := by
  cases a with
  | worker i =>
    obtain ⟨_, h2, _, _, h5⟩ := worker_frame h
    simp only [measure, h2]; omega
  | main =>
    obtain ⟨_, hm, rfl⟩ := step_main_cases h
    simp [measure, hm]

theorem run_measure {crit : Nat → Nat → Nat} {vs : List Nat} {s s' : State} {sched : List Action}
    (h : run crit vs s sched = some s') : sched.length + measure s' ≤ measure s := by
  induction sched generalizing s with
  | nil => simp only [run, Option.some.injEq] at h; subst h; simp
  | cons a as ih =>
    simp only [run] at h
    cases hs : step crit vs s a with
    | none => rw [hs] at h; cases h
    | some t =>
      rw [hs] at h
      have := ih h
      have := step_measure hs
      simp only [List.length_cons]; omega

/-- there is no infinite schedule -/
theorem step_wf (crit : Nat → Nat → Nat) (vs : List Nat) :
    WellFounded (fun s' s : State => ∃ a, step crit vs s a = some s') := by
  apply Subrelation.wf (r := InvImage (· < ·) measure)
  · rintro s' s ⟨a, h⟩; exact step_measure h
  · exact InvImage.wf _ Nat.lt_wfRel.wf

/-- every reachable state can be completed, and all completions are finite -/
theorem completion {crit : Nat → Nat → Nat} {vs : List Nat} {init0 : Nat} {s : State}
    (hi : Inv crit vs init0 s) :
    ∃ sched s', run crit vs s sched = some s' ∧ s'.mainPassed = true := by
  generalize hn : measure s = n
  induction n using Nat.strongRecOn generalizing s with
  | _ n ih =>
    cases hm : s.mainPassed with
    | true => exact ⟨[], s, rfl, hm⟩
    | false =>
      obtain ⟨a, t, hs⟩ := progress hi hm
      have hlt := step_measure hs
      obtain ⟨sched, s', hr, hp⟩ := ih (measure t) (by omega) (inv_step hs hi) rfl
      exact ⟨a :: sched, s', by simp [run, hs, hr], hp⟩


/-! ### sequential schedules: the workers of `σ` one after the other -/

def workerSched (i : Nat) : List Action := [.worker i, .worker i, .worker i, .worker i]

def seqSched : List Nat → List Action
  | [] => []
  | i :: σ => workerSched i ++ seqSched σ

theorem step_start {crit : Nat → Nat → Nat} {vs : List Nat} {s : State} {i : Nat}
    (hp : s.pcs[i]? = some .start) (hl : s.lock = none) :
    step crit vs s (.worker i) = some { s with lock := some i, pcs := s.pcs.set i .locked } := by
  simp only [step, hp, hl, if_true]

theorem step_locked {crit : Nat → Nat → Nat} {vs : List Nat} {s : State} {i : Nat}
    (hp : s.pcs[i]? = some .locked) :
    step crit vs s (.worker i) =
      some { s with total := crit s.total (vs[i]?.getD 0), pcs := s.pcs.set i .added } := by
  simp only [step, hp]

theorem step_added {crit : Nat → Nat → Nat} {vs : List Nat} {s : State} {i : Nat}
    (hp : s.pcs[i]? = some .added) :
    step crit vs s (.worker i) = some { s with lock := none, pcs := s.pcs.set i .unlocked } := by
  simp only [step, hp]

theorem step_unlocked {crit : Nat → Nat → Nat} {vs : List Nat} {s : State} {i : Nat}
    (hp : s.pcs[i]? = some .unlocked) (hw : s.wg ≠ 0) :
    step crit vs s (.worker i) = some { s with wg := s.wg - 1, pcs := s.pcs.set i .done } := by
  simp only [step, hp, hw, if_false]

theorem run_cons_of_step {crit : Nat → Nat → Nat} {vs : List Nat} {s t : State} {a : Action}
    {as : List Action} (h : step crit vs s a = some t) :
    run crit vs s (a :: as) = run crit vs t as := by
  simp only [run, h, Option.bind_some]

/-- worker `i` up to (and including) its `Unlock` -/
theorem run_worker3 {crit : Nat → Nat → Nat} {vs : List Nat} {s : State} {i : Nat}
    (hp : s.pcs[i]? = some .start) (hl : s.lock = none) :
    run crit vs s [.worker i, .worker i, .worker i] =
      some { s with total := crit s.total (vs[i]?.getD 0), pcs := s.pcs.set i .unlocked } := by
  have h1 := step_start (crit := crit) (vs := vs) hp hl
  have h2 := step_locked (crit := crit) (vs := vs)
    (s := { s with lock := some i, pcs := s.pcs.set i .locked }) (i := i) (getElem?_set_self' hp)
  have h3 := step_added (crit := crit) (vs := vs)
    (s := ⟨crit s.total (vs[i]?.getD 0), some i, s.wg, (s.pcs.set i .locked).set i .added, s.mainPassed⟩)
    (i := i)
    (getElem?_set_self' (getElem?_set_self' hp))
  dsimp only at h2 h3
  rw [run_cons_of_step h1, run_cons_of_step h2, run_cons_of_step h3]
  simp only [run, List.set_set, hl]

theorem run_worker {crit : Nat → Nat → Nat} {vs : List Nat} {s : State} {i : Nat}
    (hp : s.pcs[i]? = some .start) (hl : s.lock = none) (hw : s.wg ≠ 0) :
    run crit vs s (workerSched i) =
      some { s with total := crit s.total (vs[i]?.getD 0), wg := s.wg - 1, pcs := s.pcs.set i .done } := by
  have h3 := run_worker3 (crit := crit) (vs := vs) hp hl
  have h4 := step_unlocked (crit := crit) (vs := vs)
    (s := { s with total := crit s.total (vs[i]?.getD 0), pcs := s.pcs.set i .unlocked }) (i := i)
    (getElem?_set_self' hp) hw
  have : workerSched i = [.worker i, .worker i, .worker i] ++ [.worker i] := rfl
  rw [this, run_append h3]
  dsimp only at h4
  rw [run_cons_of_step h4]
  simp only [run, List.set_set]

theorem run_seq {crit : Nat → Nat → Nat} {vs : List Nat} (σ : List Nat) (s : State)
    (hl : s.lock = none) (hnd : σ.Nodup) (hst : ∀ i ∈ σ, s.pcs[i]? = some .start)
    (hw : σ.length ≤ s.wg) :
    ∃ s', run crit vs s (seqSched σ) = some s' ∧
      s'.total = (σ.map fun i => vs[i]?.getD 0).foldl crit s.total ∧
      s'.wg = s.wg - σ.length ∧ s'.lock = none ∧ s'.mainPassed = s.mainPassed ∧
      (∀ j, j ∉ σ → s'.pcs[j]? = s.pcs[j]?) ∧ (∀ j ∈ σ, s'.pcs[j]? = some .done) := by
  induction σ generalizing s with
  | nil => exact ⟨s, rfl, rfl, rfl, hl, rfl, fun _ _ => rfl, fun _ h => by cases h⟩
  | cons i σ ih =>
    have hpi := hst i (List.mem_cons_self ..)
    simp only [List.length_cons] at hw
    have hrw := run_worker (crit := crit) (vs := vs) hpi hl (by omega)
    rw [List.nodup_cons] at hnd
    obtain ⟨s', h1, h2, h3, h4, h5, h6, h7⟩ := ih
      { s with total := crit s.total (vs[i]?.getD 0), wg := s.wg - 1, pcs := s.pcs.set i .done }
      hl hnd.2
      (fun j hj => by
        have hij : i ≠ j := fun e => hnd.1 (e ▸ hj)
        dsimp only; rw [getElem?_set_ne' hij]; exact hst j (List.mem_cons_of_mem _ hj))
      (by dsimp only; omega)
    refine ⟨s', ?_, ?_, ?_, h4, h5, ?_, ?_⟩
    · simp only [seqSched]; rw [run_append hrw]; exact h1
    · rw [h2]; rfl
    · rw [h3]; simp only [List.length_cons]; omega
    · intro j hj
      simp only [List.mem_cons, not_or] at hj
      rw [h6 j hj.2]; dsimp only
      exact getElem?_set_ne' (fun e => hj.1 e.symm)
    · intro j hj
      by_cases hjs : j ∈ σ
      · exact h7 j hjs
      · have : j = i := by simpa [hjs] using hj
        subst this
        rw [h6 j hjs]; dsimp only
        exact getElem?_set_self' hpi


theorem map_range_take (vs : List Nat) (k : Nat) (hk : k ≤ vs.length) :
    (List.range k).map (fun i => vs[i]?.getD 0) = vs.take k := by
  apply List.ext_getElem
  · simp; omega
  · intro i h1 h2
    simp only [List.length_map, List.length_range] at h1
    have : i < vs.length := by omega
    simp [this]

/-- a permutation of the values is the image of a permutation of the indices -/
theorem perm_index {l' l : List Nat} (h : l'.Perm l) :
    ∃ σ : List Nat, σ.Perm (List.range l.length) ∧ σ.map (fun i => l[i]?.getD 0) = l' := by
  induction h with
  | nil => exact ⟨[], by simp, rfl⟩
  | @cons x l1 l2 _ ih =>
    obtain ⟨σ, hp, hm⟩ := ih
    refine ⟨0 :: σ.map Nat.succ, ?_, ?_⟩
    · rw [List.length_cons, List.range_succ_eq_map]
      exact (hp.map Nat.succ).cons 0
    · simp only [List.map_cons, List.map_map, List.getElem?_cons_zero, Option.getD_some]
      congr 1
  | swap x y l =>
    refine ⟨1 :: 0 :: (List.range l.length).map (· + 2), ?_, ?_⟩
    · simp only [List.length_cons]
      rw [List.range_succ_eq_map, List.range_succ_eq_map]
      simp only [List.map_cons, List.map_map]
      exact List.Perm.swap ..
    · simp only [List.map_cons, List.map_map]
      have := map_range_getD l
      simp only [List.getElem?_cons_succ, List.getElem?_cons_zero, Option.getD_some]
      congr 2
  | @trans l1 l2 l3 h12 h23 ih1 ih2 =>
    obtain ⟨σ1, hp1, hm1⟩ := ih1
    obtain ⟨σ2, hp2, hm2⟩ := ih2
    have hlen2 : σ2.length = l2.length := by
      rw [hp2.length_eq, List.length_range, h23.length_eq]
    refine ⟨σ1.map (fun i => σ2[i]?.getD 0), ?_, ?_⟩
    · have := hp1.map (fun i => σ2[i]?.getD 0)
      rw [← hlen2, map_range_getD] at this
      exact this.trans hp2
    · rw [List.map_map, ← hm1]
      apply List.map_congr_left
      intro i hi
      have hil : i < l2.length := by simpa using hp1.mem_iff.mp hi
      have : l2[i]? = (σ2.map fun i => l3[i]?.getD 0)[i]? := by rw [hm2]
      simp only [Function.comp]
      rw [this, List.getElem?_map]
      have h2 : i < σ2.length := by omega
      simp [h2]


/-- every order of the critical sections is produced by some schedule -/
theorem order_reachable (crit : Nat → Nat → Nat) (vs : List Nat) (init0 : Nat) (l' : List Nat)
    (h : l'.Perm vs) :
    ∃ s, Reachable crit vs (initState init0 vs.length vs.length) s ∧ s.mainPassed = true ∧
      s.total = l'.foldl crit init0 := by
  obtain ⟨σ, hp, hm⟩ := perm_index h
  have hlen : σ.length = vs.length := by rw [hp.length_eq, List.length_range]
  obtain ⟨s', h1, h2, h3, _, h5, _, _⟩ := run_seq (crit := crit) (vs := vs) σ
    (initState init0 vs.length vs.length) rfl (hp.nodup_iff.mpr List.nodup_range)
    (fun i hi => by
      have : i < vs.length := by simpa using hp.mem_iff.mp hi
      simp [initState, this])
    (by simp [initState, hlen])
  have hs' := reachable_of_run Reachable.init h1
  have hw : s'.wg = 0 := by rw [h3]; simp [initState, hlen]
  have hm' : s'.mainPassed = false := by rw [h5]; rfl
  refine ⟨{ s' with mainPassed := true }, hs'.step .main (by simp [step, hw, hm']), rfl, ?_⟩
  show s'.total = _
  rw [h2, hm]; rfl

/-- registering fewer than there are workers (`k < n`): main can pass after the first `k` workers,
and the next worker gets stuck in `Done` -/
theorem mismatch (crit : Nat → Nat → Nat) (vs : List Nat) (init0 k : Nat) (hk : k < vs.length) :
    (∃ s, Reachable crit vs (initState init0 vs.length k) s ∧ s.mainPassed = true ∧
        s.total = (vs.take k).foldl crit init0 ∧ s.pcs[k]? = some .start) ∧
    (∃ s, Reachable crit vs (initState init0 vs.length k) s ∧ StuckWorker s k) := by
  obtain ⟨s', h1, h2, h3, h4, h5, h6, _⟩ := run_seq (crit := crit) (vs := vs) (List.range k)
    (initState init0 vs.length k) rfl List.nodup_range
    (fun i hi => by
      have : i < vs.length := by have := List.mem_range.mp hi; omega
      simp [initState, this])
    (by simp [initState])
  have hs' := reachable_of_run Reachable.init h1
  have hw : s'.wg = 0 := by rw [h3]; simp [initState]
  have hm' : s'.mainPassed = false := by rw [h5]; rfl
  have hpk : s'.pcs[k]? = some .start := by
    rw [h6 k (by simp)]; simp [initState, hk]
  constructor
  · refine ⟨{ s' with mainPassed := true }, hs'.step .main (by simp [step, hw, hm']), rfl, ?_, hpk⟩
    show s'.total = _
    rw [h2, map_range_take vs k (by omega)]; rfl
  · have h3' := run_worker3 (crit := crit) (vs := vs) hpk h4
    exact ⟨_, reachable_of_run hs' h3', getElem?_set_self' hpk, hw⟩

end WG

namespace WGInc
open WG (WorkerPc notDone inCS passed rank CSInv LogInv)

structure Inv (crit : Nat → Nat → Nat) (vs : List Nat) (init0 : Nat) (s : State) : Prop where
  len : s.pcs.length ≤ vs.length
  wg : s.wg = s.pcs.countP notDone + (if s.addOne then 1 else 0)
  addLt : s.addOne = true → s.pcs.length < vs.length
  cs : CSInv s.toState
  log : LogInv crit vs init0 s.toState
  passed : s.mainPassed = true → s.wg = 0 ∧ s.pcs.length = vs.length

theorem step_worker_cases {crit : Nat → Nat → Nat} {vs : List Nat} {s s' : State} {i : Nat}
    (h : step crit vs s (.worker i) = some s') :
    ∃ t, WG.step crit vs s.toState (.worker i) = some t ∧ s' = { s with toState := t } := by
  simp only [step, Option.map_eq_some_iff] at h
  obtain ⟨t, ht, rfl⟩ := h
  exact ⟨t, ht, rfl⟩

theorem step_main_cases {crit : Nat → Nat → Nat} {vs : List Nat} {s s' : State}
    (h : step crit vs s .main = some s') :
    (s.pcs.length < vs.length ∧ s.addOne = true ∧
        s' = { s with pcs := s.pcs ++ [.start], addOne := false }) ∨
    (s.pcs.length < vs.length ∧ s.addOne = false ∧ s' = { s with wg := s.wg + 1, addOne := true }) ∨
    (vs.length ≤ s.pcs.length ∧ s.wg = 0 ∧ s.mainPassed = false ∧ s' = { s with mainPassed := true }) := by
  simp only [step] at h
  split at h
  · split at h
    · simp only [Option.some.injEq] at h; exact .inl ⟨by assumption, by assumption, h.symm⟩
    · simp only [Option.some.injEq] at h
      exact .inr (.inl ⟨by assumption, by simpa using ‹¬ s.addOne = true›, h.symm⟩)
  · split at h
    · simp only [Option.some.injEq] at h; rename_i h1 h2
      exact .inr (.inr ⟨by omega, h2.1, h2.2, h.symm⟩)
    · cases h

theorem inv_init (crit : Nat → Nat → Nat) (vs : List Nat) (init0 : Nat) : Inv crit vs init0 (initState init0) := by
  refine ⟨by simp [initState], by simp [initState], by simp [initState], ⟨by simp [initState], ?_⟩, ?_, ?_⟩
  · intro i h; cases h
  · refine ⟨[], List.nodup_nil, ?_, rfl⟩
    intro i; simp [initState]
  · intro h; cases h

theorem getElem?_snoc_start (pcs : List WorkerPc) (j : Nat) (p : WorkerPc → Bool) (hp : p .start = false) :
    (∃ pc, (pcs ++ [WorkerPc.start])[j]? = some pc ∧ p pc = true) ↔ (∃ pc, pcs[j]? = some pc ∧ p pc = true) := by
  rcases Nat.lt_trichotomy j pcs.length with h | h | h
  · rw [List.getElem?_append_left h]
  · subst h
    simp [hp]
  · rw [List.getElem?_eq_none (by simp; omega), List.getElem?_eq_none (by omega)]

theorem inv_step {crit : Nat → Nat → Nat} {vs : List Nat} {init0 : Nat} {s s' : State} {a : WG.Action}
    (h : step crit vs s a = some s') (hi : Inv crit vs init0 s) : Inv crit vs init0 s' := by
  cases a with
  | worker i =>
    obtain ⟨t, ht, rfl⟩ := step_worker_cases h
    obtain ⟨h1, h2, _, h4, _⟩ := WG.worker_frame ht
    have hwg := hi.wg
    refine ⟨?_, ?_, ?_, WG.worker_cs ht hi.cs, WG.worker_log ht hi.log, ?_⟩
    · show t.pcs.length ≤ _; rw [h1]; exact hi.len
    · show t.wg = t.pcs.countP notDone + (if s.addOne then 1 else 0); omega
    · intro ha; show t.pcs.length < _; rw [h1]; exact hi.addLt ha
    · intro hm
      have hm' : s.mainPassed = true := by rw [← h2]; exact hm
      obtain ⟨p1, p2⟩ := hi.passed hm'
      exact ⟨by show t.wg = 0; omega, by show t.pcs.length = _; rw [h1]; exact p2⟩
  | main =>
    rcases step_main_cases h with ⟨hl, ha, rfl⟩ | ⟨hl, ha, rfl⟩ | ⟨hl, hw, hm, rfl⟩
    · have hwg := hi.wg
      obtain ⟨c1, c2⟩ := hi.cs
      obtain ⟨l, l1, l2, l3⟩ := hi.log
      refine ⟨?_, ?_, ?_, ⟨?_, ?_⟩, ⟨l, l1, ?_, l3⟩, ?_⟩
      · simp only [List.length_append, List.length_singleton]; omega
      · simp only [List.countP_append, List.countP_singleton, WG.notDone_start, ha] at hwg ⊢
        simpa using hwg
      · intro h; cases h
      · simp only [List.countP_append, List.countP_singleton, WG.inCS_start]
        simpa using c1
      · intro i hi'
        exact (getElem?_snoc_start s.pcs i inCS rfl).mpr (c2 i hi')
      · intro i
        exact (l2 i).trans (getElem?_snoc_start s.pcs i passed rfl).symm
      · intro hm
        have := (hi.passed hm).2
        omega
    · have hwg := hi.wg
      refine ⟨hi.len, ?_, fun _ => hl, hi.cs, hi.log, ?_⟩
      · simp only [ha] at hwg ⊢; simpa using hwg
      · intro hm; have := (hi.passed hm).2; omega
    · exact ⟨hi.len, hi.wg, hi.addLt, hi.cs, hi.log, fun _ => ⟨hw, by have := hi.len; show s.pcs.length = _; omega⟩⟩

theorem inv_reachable {crit : Nat → Nat → Nat} {vs : List Nat} {init0 : Nat} {s : State}
    (h : Reachable crit vs (initState init0) s) : Inv crit vs init0 s := by
  induction h with
  | init => exact inv_init crit vs init0
  | step a _ hs ih => exact inv_step hs ih

/-- all workers have been started: the state is a state of the `Add(n)` protocol -/
theorem toWG {crit : Nat → Nat → Nat} {vs : List Nat} {init0 : Nat} {s : State}
    (hi : Inv crit vs init0 s) (hl : s.pcs.length = vs.length) : WG.Inv crit vs init0 s.toState := by
  have ha : s.addOne = false := by
    cases h : s.addOne with
    | false => rfl
    | true => have := hi.addLt h; omega
  refine ⟨hl, ?_, hi.cs, hi.log, fun hm => (hi.passed hm).1⟩
  have := hi.wg; rw [ha] at this; simpa using this

theorem never_stuck {crit : Nat → Nat → Nat} {vs : List Nat} {init0 : Nat} {s : State}
    (hi : Inv crit vs init0 s) (i : Nat) : ¬ WG.StuckWorker s.toState i := by
  rintro ⟨hp, hw⟩
  have h0 : s.pcs.countP notDone = 0 := by have := hi.wg; omega
  have := List.countP_eq_zero.mp h0 _ (List.mem_of_getElem? hp)
  exact this rfl

theorem progress {crit : Nat → Nat → Nat} {vs : List Nat} {init0 : Nat} {s : State}
    (hi : Inv crit vs init0 s) (hm : s.mainPassed = false) : ∃ a s', step crit vs s a = some s' := by
  by_cases hl : s.pcs.length < vs.length
  · refine ⟨.main, ?_⟩
    apply Option.isSome_iff_exists.mp
    simp only [step, hl, if_true]
    split <;> rfl
  · have hlen : s.pcs.length = vs.length := by have := hi.len; omega
    obtain ⟨a, t, ht⟩ := WG.progress (toWG hi hlen) hm
    cases a with
    | worker i => exact ⟨.worker i, { s with toState := t }, by simp [step, ht]⟩
    | main =>
      obtain ⟨hw, hm', rfl⟩ := WG.step_main_cases ht
      exact ⟨.main, { s with mainPassed := true }, by simp [step, hl, hw, hm]⟩

theorem step_measure {crit : Nat → Nat → Nat} {vs : List Nat} {s s' : State} {a : WG.Action}
    (h : step crit vs s a = some s') : measure vs s' < measure vs s := by
  cases a with
  | worker i =>
    obtain ⟨t, ht, rfl⟩ := step_worker_cases h
    obtain ⟨h1, h2, _, _, h5⟩ := WG.worker_frame ht
    simp only [measure, h1, h2]; omega
  | main =>
    rcases step_main_cases h with ⟨hl, ha, rfl⟩ | ⟨hl, ha, rfl⟩ | ⟨hl, hw, hm, rfl⟩
    · simp only [measure, ha, List.map_append, List.sum_append, List.length_append, List.map_cons,
        List.map_nil, List.sum_cons, List.sum_nil, List.length_singleton, rank]
      simp; omega
    · simp [measure, ha]
    · simp [measure, hm]

theorem step_wf (crit : Nat → Nat → Nat) (vs : List Nat) :
    WellFounded (fun s' s : State => ∃ a, step crit vs s a = some s') := by
  apply Subrelation.wf (r := InvImage (· < ·) (measure vs))
  · rintro s' s ⟨a, h⟩; exact step_measure h
  · exact InvImage.wf _ Nat.lt_wfRel.wf

theorem reachable_of_run {crit : Nat → Nat → Nat} {vs : List Nat} {s0 s s' : State} {sched : List WG.Action}
    (hr : Reachable crit vs s0 s) (h : run crit vs s sched = some s') : Reachable crit vs s0 s' := by
  induction sched generalizing s with
  | nil => simp only [run, Option.some.injEq] at h; subst h; exact hr
  | cons a as ih =>
    simp only [run] at h
    cases hs : step crit vs s a with
    | none => rw [hs] at h; cases h
    | some t => rw [hs] at h; exact ih (hr.step a hs) h

end WGInc

namespace Handoff

/-- the worker holds the lock -/
def wIn : WorkerPc → Bool
  | .locked | .wrote | .flagged => true
  | _ => false
/-- the worker has written `result` -/
def wWrote : WorkerPc → Bool
  | .wrote | .flagged | .unlocked => true
  | _ => false
/-- the worker has set `done` -/
def wFlag : WorkerPc → Bool
  | .flagged | .unlocked => true
  | _ => false

/-- who holds the lock, as a function of the two program counters -/
def lockOf (m : MainPc) (w : WorkerPc) : Option Tid :=
  match m with
  | .checking => some .main
  | _ => if wIn w then some .worker else none

structure Inv (v : Nat) (s : State) : Prop where
  lockEq : s.lock = lockOf s.mainPc s.workerPc
  excl : s.mainPc = .checking → wIn s.workerPc = false
  flag : s.done = wFlag s.workerPc
  res : wWrote s.workerPc = true → s.result = v
  got : ∀ r, s.mainPc = .gotResult r → r = v

theorem inv_init (v r0 : Nat) : Inv v (initState r0) := by
  refine ⟨?_, ?_, ?_, ?_, ?_⟩ <;> simp [initState, wIn, wFlag, wWrote, lockOf]

theorem inv_step {v : Nat} {s s' : State} {t : Tid} (h : step true v s t = some s') (hi : Inv v s) :
    Inv v s' := by
  obtain ⟨result, done, pr, pd, lock, mpc, wpc⟩ := s
  obtain ⟨h1, h2, h3, h4, h5⟩ := hi
  simp only at h1 h2 h3 h4 h5
  cases t <;> cases wpc <;> cases mpc <;> simp only [step] at h <;> (try split at h) <;>
    first
    | (cases h; done)
    | (simp only [Option.some.injEq] at h; subst h
       refine ⟨?_, ?_, ?_, ?_, ?_⟩ <;> grind [wIn, wFlag, wWrote, lockOf])

theorem inv_reachable {v r0 : Nat} {s : State} (h : Reachable true v (initState r0) s) : Inv v s := by
  induction h with
  | init => exact inv_init v r0
  | step t _ hs ih => exact inv_step hs ih

theorem reachable_of_run {b : Bool} {v : Nat} {s0 s s' : State} {sched : List Tid}
    (hr : Reachable b v s0 s) (h : run b v s sched = some s') : Reachable b v s0 s' := by
  induction sched generalizing s with
  | nil => simp only [run, Option.some.injEq] at h; subst h; exact hr
  | cons a as ih =>
    simp only [run] at h
    cases hs : step b v s a with
    | none => rw [hs] at h; cases h
    | some t => rw [hs] at h; exact ih (hr.step a hs) h

/-- steps the worker still has to take -/
def wLeft : WorkerPc → Nat
  | .start => 4 | .locked => 3 | .wrote => 2 | .flagged => 1 | .unlocked => 0

/-- the continuation: main gives the lock up if it has it, the worker runs to its end, main
re-acquires the lock, sees `done` and returns -/
def finishSched (m : MainPc) (w : WorkerPc) : List Tid :=
  match m, w with
  | .gotResult _, _ => []
  | .checking, .unlocked => [.main]
  | .checking, _ => .main :: (List.replicate (wLeft w) .worker ++ [.main, .main])
  | _, _ => List.replicate (wLeft w) .worker ++ [.main, .main]

theorem finish {v : Nat} {s : State} (hi : Inv v s) (hf : finished s = false) :
    (run true v s (finishSched s.mainPc s.workerPc)).map State.mainPc = some (.gotResult v) := by
  obtain ⟨result, done, pr, pd, lock, mpc, wpc⟩ := s
  obtain ⟨h1, h2, h3, h4, h5⟩ := hi
  simp only at h1 h2 h3 h4 h5
  subst h1 h3
  cases wpc <;> cases mpc <;>
    simp [finished, wIn, lockOf, wWrote, wFlag, finishSched, wLeft, run, step, List.replicate] at hf h2 h4 ⊢
  all_goals exact h4

theorem finishSched_length (m : MainPc) (w : WorkerPc) : (finishSched m w).length ≤ 7 := by
  cases m <;> cases w <;> simp [finishSched, wLeft]

theorem progress {v : Nat} {s : State} (hi : Inv v s) (hf : finished s = false) :
    ∃ sched s', run true v s sched = some s' ∧ s'.mainPc = .gotResult v ∧ sched.length ≤ 7 := by
  have h := finish hi hf
  simp only [Option.map_eq_some_iff] at h
  obtain ⟨s', h1, h2⟩ := h
  exact ⟨_, s', h1, h2, finishSched_length _ _⟩

/-- once the worker has finished, main needs at most two more steps, and takes them whatever the
schedule: spinning for ever requires starving the worker -/
def mLeft : MainPc → Nat
  | .needLock => 2 | .waiting => 2 | .checking => 1 | .gotResult _ => 0

theorem worker_step_decreases {b : Bool} {v : Nat} {s s' : State} (h : step b v s .worker = some s') :
    wLeft s'.workerPc < wLeft s.workerPc ∧ s'.mainPc = s.mainPc := by
  obtain ⟨result, done, pr, pd, lock, mpc, wpc⟩ := s
  cases b <;> cases wpc <;> simp only [step] at h <;> (try split at h) <;>
    first
    | (cases h; done)
    | (simp only [Option.some.injEq] at h; subst h; simp [wLeft])

theorem after_worker_step {v : Nat} {s s' : State} {t : Tid} (hi : Inv v s) (hw : s.workerPc = .unlocked)
    (h : step true v s t = some s') : s'.workerPc = .unlocked ∧ mLeft s'.mainPc < mLeft s.mainPc := by
  obtain ⟨result, done, pr, pd, lock, mpc, wpc⟩ := s
  obtain ⟨h1, h2, h3, h4, h5⟩ := hi
  simp only at h1 h2 h3 h4 h5 hw
  subst hw h1 h3
  cases t <;> cases mpc <;> simp only [step, wFlag, reduceIte] at h <;> (try split at h) <;>
    first
    | (cases h; done)
    | (simp only [Option.some.injEq] at h; subst h; simp [mLeft])

/-! ### the translation that snapshots captured variables -/

theorem copy_inv_step {v : Nat} {s s' : State} {t : Tid} (h : step false v s t = some s')
    (hi : s.done = false ∧ finished s = false) : s'.done = false ∧ finished s' = false := by
  obtain ⟨result, done, pr, pd, lock, mpc, wpc⟩ := s
  obtain ⟨h1, h2⟩ := hi
  simp only at h1 h2
  subst h1
  cases t <;> cases wpc <;> cases mpc <;> simp only [step] at h <;> (try split at h) <;>
    first
    | (cases h; done)
    | (simp only [Option.some.injEq] at h; subst h; simp_all [finished])

theorem copy_inv_reachable {v r0 : Nat} {s : State} (h : Reachable false v (initState r0) s) :
    s.done = false ∧ finished s = false := by
  induction h with
  | init => exact ⟨rfl, rfl⟩
  | step t _ hs ih => exact copy_inv_step hs ih

end Handoff

end GooseVerif.Model.SyncProto
