/-
Helper lemmas for C04 (declaration emission order, `Model/Deps.lean`).

* the name table resolves a name to the last declaration defining it;
* the depth-first traversal `visit` keeps a white/gray/black invariant: `vis` = gray ∪ black,
  `out` = black; a call never changes the gray set, only appends to `out`, never runs out of
  fuel, and (when the graph is acyclic apart from self-loops, stated with a rank function) keeps
  `out` topologically sorted.
-/
import GooseVerif.Model.Deps

namespace GooseVerif.Model.Deps

/-! ### name table -/

theorem nameTableFrom_some (s : String) :
    ∀ (ds : List DeclInfo) (k : Nat) (acc : Option Nat) (i : Nat),
      nameTableFrom s ds k acc = some i →
      (acc = some i ∧ ∀ d ∈ ds, s ∉ d.names) ∨
      (∃ m, i = k + m ∧ m < ds.length ∧ (∃ d, ds[m]? = some d ∧ s ∈ d.names) ∧
        ∀ m' d, m < m' → ds[m']? = some d → s ∉ d.names) := by
  intro ds
  induction ds with
  | nil =>
    intro k acc i h
    left
    exact ⟨h, by simp⟩
  | cons d ds ih =>
    intro k acc i h
    simp only [nameTableFrom] at h
    rcases ih _ _ _ h with ⟨hacc, hno⟩ | ⟨m, hi, hm, ⟨d', hd', hs⟩, hlast⟩
    · by_cases hsd : s ∈ d.names
      · right
        rw [if_pos hsd] at hacc
        refine ⟨0, ?_, by simp, ⟨d, by simp, hsd⟩, ?_⟩
        · simpa using (Option.some.inj hacc).symm
        · intro m' d' hm' hd'
          cases m' with
          | zero => omega
          | succ m'' =>
            rw [List.getElem?_cons_succ] at hd'
            exact hno d' (List.mem_of_getElem? hd')
      · left
        rw [if_neg hsd] at hacc
        refine ⟨hacc, ?_⟩
        intro d' hd'
        rcases List.mem_cons.1 hd' with rfl | hd'
        · exact hsd
        · exact hno d' hd'
    · right
      refine ⟨m + 1, by omega, by simp; omega, ⟨d', by simpa using hd', hs⟩, ?_⟩
      intro m' d'' hm' hd''
      cases m' with
      | zero => omega
      | succ m'' =>
        rw [List.getElem?_cons_succ] at hd''
        exact hlast m'' d'' (by omega) hd''

theorem nameTableFrom_none (s : String) :
    ∀ (ds : List DeclInfo) (k : Nat) (acc : Option Nat),
      nameTableFrom s ds k acc = none → acc = none ∧ ∀ d ∈ ds, s ∉ d.names := by
  intro ds
  induction ds with
  | nil => intro k acc h; exact ⟨h, by simp⟩
  | cons d ds ih =>
    intro k acc h
    simp only [nameTableFrom] at h
    obtain ⟨hacc, hno⟩ := ih _ _ h
    by_cases hsd : s ∈ d.names
    · rw [if_pos hsd] at hacc; cases hacc
    · rw [if_neg hsd] at hacc
      refine ⟨hacc, ?_⟩
      intro d' hd'
      rcases List.mem_cons.1 hd' with rfl | hd'
      · exact hsd
      · exact hno d' hd'

/-- The collision rule: a name resolves to the last declaration that defines it. -/
theorem nameTable_some {ds : List DeclInfo} {s : String} {i : Nat} (h : nameTable ds s = some i) :
    i < ds.length ∧ (∃ d, ds[i]? = some d ∧ s ∈ d.names) ∧
      ∀ j d, i < j → ds[j]? = some d → s ∉ d.names := by
  rcases nameTableFrom_some s ds 0 none i h with ⟨hacc, _⟩ | ⟨m, hi, hm, hd, hlast⟩
  · cases hacc
  · have : i = m := by omega
    subst this
    exact ⟨hm, hd, hlast⟩

/-- A defined name always resolves. -/
theorem nameTable_isSome {ds : List DeclInfo} {s : String} {d : DeclInfo} (hd : d ∈ ds)
    (hs : s ∈ d.names) : ∃ i, nameTable ds s = some i := by
  cases h : nameTable ds s with
  | some i => exact ⟨i, rfl⟩
  | none => exact absurd hs ((nameTableFrom_none s ds 0 none h).2 d hd)

theorem adj_lt {ds : List DeclInfo} {i j : Nat} (h : j ∈ adj ds i) : j < ds.length := by
  unfold adj at h
  split at h
  · obtain ⟨s, _, hs⟩ := List.mem_filterMap.1 h
    exact (nameTable_some hs).1
  · cases h

/-! ### traversal invariant -/

/-- `vis` (generated set) and `out` (emitted declarations) have no duplicates, are in range, and
everything emitted is marked generated. -/
def Inv (n : Nat) (vis out : List Nat) : Prop :=
  vis.Nodup ∧ out.Nodup ∧ (∀ x ∈ vis, x < n) ∧ (∀ x ∈ out, x ∈ vis)

theorem Inv.length_le {n : Nat} {vis out : List Nat} (h : Inv n vis out) : vis.length ≤ n := by
  have := List.Nodup.length_le_of_subset h.1 (l₂ := List.range n)
    (fun x hx => List.mem_range.2 (h.2.2.1 x hx))
  simpa using this

/-- Effect of a call (or sequence of calls) on the state, independent of the visited vertex:
the invariant holds afterwards, `out` is extended at the end, `vis` grows, and the gray set
(marked generated but not yet emitted) is unchanged. -/
def Ext (n : Nat) (vis out vis' out' : List Nat) : Prop :=
  Inv n vis' out' ∧ (∃ new, out' = out ++ new) ∧ (∀ x ∈ vis, x ∈ vis') ∧
    (∀ g, (g ∈ vis' ∧ g ∉ out') ↔ (g ∈ vis ∧ g ∉ out))

theorem Ext.refl {n : Nat} {vis out : List Nat} (h : Inv n vis out) : Ext n vis out vis out :=
  ⟨h, ⟨[], by simp⟩, fun _ hx => hx, fun _ => Iff.rfl⟩

theorem Ext.trans {n : Nat} {v0 o0 v1 o1 v2 o2 : List Nat} (h1 : Ext n v0 o0 v1 o1)
    (h2 : Ext n v1 o1 v2 o2) : Ext n v0 o0 v2 o2 := by
  obtain ⟨_, ⟨n1, e1⟩, s1, g1⟩ := h1
  obtain ⟨i2, ⟨n2, e2⟩, s2, g2⟩ := h2
  refine ⟨i2, ⟨n1 ++ n2, by rw [e2, e1, List.append_assoc]⟩, fun x hx => s2 x (s1 x hx),
    fun g => (g2 g).trans (g1 g)⟩

theorem Ext.length_le {n : Nat} {vis out vis' out' : List Nat} (hi : Inv n vis out)
    (h : Ext n vis out vis' out') : vis.length ≤ vis'.length :=
  List.Nodup.length_le_of_subset hi.1 h.2.2.1

theorem Ext.out_sub {n : Nat} {vis out vis' out' : List Nat} (h : Ext n vis out vis' out') :
    ∀ x ∈ out, x ∈ out' := by
  obtain ⟨_, ⟨new, e⟩, _, _⟩ := h
  intro x hx
  rw [e]
  exact List.mem_append_left _ hx

/-- `out` is topologically sorted: everything a member mentions (other than itself) occurs
strictly earlier. -/
def Sorted (ds : List DeclInfo) (out : List Nat) : Prop :=
  ∀ u ∈ out, ∀ j ∈ adj ds u, j ≠ u → j ∈ out ∧ out.idxOf j < out.idxOf u

theorem Sorted.nil (ds : List DeclInfo) : Sorted ds [] := by
  intro u hu
  cases hu

theorem Sorted.snoc {ds : List DeclInfo} {out : List Nat} {v : Nat} (h : Sorted ds out)
    (hv : v ∉ out) (hdeps : ∀ j ∈ adj ds v, j ≠ v → j ∈ out) : Sorted ds (out ++ [v]) := by
  intro u hu j hj hne
  rcases List.mem_append.1 hu with hu | hu
  · obtain ⟨hjo, hlt⟩ := h u hu j hj hne
    refine ⟨List.mem_append_left _ hjo, ?_⟩
    rw [List.idxOf_append, List.idxOf_append, if_pos hjo, if_pos hu]
    exact hlt
  · have : u = v := by simpa using hu
    subst this
    have hjo := hdeps j hj hne
    refine ⟨List.mem_append_left _ hjo, ?_⟩
    rw [List.idxOf_append, List.idxOf_append, if_pos hjo, if_neg hv]
    have := List.idxOf_lt_length_of_mem hjo
    omega

/-- The dependency graph is acyclic apart from self-loops (witnessed by a rank function). -/
def Acyc (ds : List DeclInfo) (rank : Nat → Nat) : Prop :=
  ∀ i, i < ds.length → ∀ j ∈ adj ds i, j ≠ i → rank j < rank i

/-- Specification of one call `visit f vis out v` returning `(vis', out')`. -/
def Post (ds : List DeclInfo) (rank : Nat → Nat) (vis out : List Nat) (v : Nat)
    (vis' out' : List Nat) : Prop :=
  Ext ds.length vis out vis' out' ∧ v ∈ vis' ∧
    (Acyc ds rank → (∀ g ∈ vis, g ∉ out → g ≠ v → rank v < rank g) → Sorted ds out →
      Sorted ds out')

theorem visit_of_mem (ds : List DeclInfo) (f : Nat) {vis : List Nat} (out : List Nat) {v : Nat}
    (h : v ∈ vis) : visit ds f vis out v = (vis, out) := by
  cases f <;> simp [visit, h]

/-- The loop over the dependencies of `v` inside `visit (f+1) _ _ v`, given the specification of
calls with fuel `f`. -/
theorem fold_spec (ds : List DeclInfo) (rank : Nat → Nat) (f v : Nat) (hv : v < ds.length)
    (ih : ∀ vis out w, Inv ds.length vis out → w < ds.length → ds.length < f + vis.length →
      ∃ vis' out', visit ds f vis out w = (vis', out') ∧ Post ds rank vis out w vis' out') :
    ∀ (ws vis out : List Nat), (∀ w ∈ ws, w ∈ adj ds v) → Inv ds.length vis out →
      v ∈ vis → v ∉ out → ds.length < f + vis.length →
      ∃ vis' out', ws.foldl (fun st w => visit ds f st.1 st.2 w) (vis, out) = (vis', out') ∧
        Ext ds.length vis out vis' out' ∧
        (Acyc ds rank → (∀ g ∈ vis, g ∉ out → g ≠ v → rank v < rank g) → Sorted ds out →
          Sorted ds out' ∧ ∀ w ∈ ws, w ≠ v → w ∈ out') := by
  intro ws
  induction ws with
  | nil =>
    intro vis out _ hinv _ _ _
    exact ⟨vis, out, rfl, Ext.refl hinv, fun _ _ hs => ⟨hs, by simp⟩⟩
  | cons w ws ihws =>
    intro vis out hws hinv hvv hvo hfuel
    have hw : w ∈ adj ds v := hws w (List.mem_cons_self ..)
    obtain ⟨vis1, out1, e1, hext1, hmem1, hsort1⟩ := ih vis out w hinv (adj_lt hw) hfuel
    have hlen := Ext.length_le hinv hext1
    have hgray1 := hext1.2.2.2
    have hvv1 : v ∈ vis1 := hext1.2.2.1 v hvv
    have hvo1 : v ∉ out1 := ((hgray1 v).2 ⟨hvv, hvo⟩).2
    obtain ⟨vis2, out2, e2, hext2, hsort2⟩ :=
      ihws vis1 out1 (fun x hx => hws x (List.mem_cons_of_mem _ hx)) hext1.1 hvv1 hvo1 (by omega)
    refine ⟨vis2, out2, ?_, Ext.trans hext1 hext2, ?_⟩
    · rw [List.foldl_cons]
      simp only [e1]
      exact e2
    · intro hac hcond hs
      -- every gray vertex has larger rank than a dependency `w ≠ v` of `v`
      have hcondw : w ≠ v → ∀ g ∈ vis, g ∉ out → rank w < rank g := by
        intro hne g hg hgo
        have h1 : rank w < rank v := hac v hv w hw hne
        by_cases hgv : g = v
        · rw [hgv]; exact h1
        · exact Nat.lt_trans h1 (hcond g hg hgo hgv)
      have hs1 : Sorted ds out1 := by
        apply hsort1 hac _ hs
        intro g hg hgo hgw
        by_cases hwv : w = v
        · rw [hwv]; rw [hwv] at hgw; exact hcond g hg hgo hgw
        · exact hcondw hwv g hg hgo
      have hcond1 : ∀ g ∈ vis1, g ∉ out1 → g ≠ v → rank v < rank g := by
        intro g hg hgo hgv
        obtain ⟨hg', hgo'⟩ := (hgray1 g).1 ⟨hg, hgo⟩
        exact hcond g hg' hgo' hgv
      obtain ⟨hs2, hall2⟩ := hsort2 hac hcond1 hs1
      refine ⟨hs2, ?_⟩
      intro x hx hxv
      rcases List.mem_cons.1 hx with rfl | hx
      · by_cases hxo : x ∈ out1
        · exact hext2.out_sub x hxo
        · obtain ⟨hg', hgo'⟩ := (hgray1 x).1 ⟨hmem1, hxo⟩
          exact absurd (hcondw hxv x hg' hgo') (Nat.lt_irrefl _)
      · exact hall2 x hx hxv

/-- Specification of `visit`: with enough fuel (`ds.length < fuel + vis.length`) a call keeps the
invariant, only appends to the output, leaves the gray set unchanged, marks `v`, and keeps the
output topologically sorted when every gray vertex other than `v` has a larger rank than `v`. -/
theorem visit_spec (ds : List DeclInfo) (rank : Nat → Nat) :
    ∀ (f : Nat) (vis out : List Nat) (v : Nat), Inv ds.length vis out → v < ds.length →
      ds.length < f + vis.length →
      ∃ vis' out', visit ds f vis out v = (vis', out') ∧ Post ds rank vis out v vis' out' := by
  intro f
  induction f with
  | zero =>
    intro vis out v hinv _ hfuel
    have := hinv.length_le
    omega
  | succ f ih =>
    intro vis out v hinv hv hfuel
    by_cases hm : v ∈ vis
    · exact ⟨vis, out, visit_of_mem ds _ out hm, Ext.refl hinv, hm, fun _ _ hs => hs⟩
    · obtain ⟨hnv, hno, hlt, hsub⟩ := hinv
      have hvo : v ∉ out := fun h => hm (hsub v h)
      have hinv0 : Inv ds.length (v :: vis) out := by
        refine ⟨List.nodup_cons.2 ⟨hm, hnv⟩, hno, ?_, fun x hx => List.mem_cons_of_mem _ (hsub x hx)⟩
        intro x hx
        rcases List.mem_cons.1 hx with rfl | hx
        · exact hv
        · exact hlt x hx
      obtain ⟨vis1, out1, e1, hext1, hsort1⟩ :=
        fold_spec ds rank f v hv ih (adj ds v) (v :: vis) out (fun _ h => h) hinv0
          (List.mem_cons_self ..) hvo (by simp only [List.length_cons]; omega)
      obtain ⟨⟨hnv1, hno1, hlt1, hsub1⟩, ⟨new, enew⟩, hvs1, hgray1⟩ := hext1
      have hv1 : v ∈ vis1 := hvs1 v (List.mem_cons_self ..)
      have hvo1 : v ∉ out1 := ((hgray1 v).2 ⟨List.mem_cons_self .., hvo⟩).2
      refine ⟨vis1, out1 ++ [v], ?_, ⟨⟨hnv1, ?_, hlt1, ?_⟩, ⟨new ++ [v], ?_⟩, ?_, ?_⟩, hv1, ?_⟩
      · simp only [visit, if_neg hm, e1]
      · rw [List.nodup_append]
        refine ⟨hno1, by simp, ?_⟩
        intro a ha b hb
        have : b = v := by simpa using hb
        rw [this]
        intro hab
        exact hvo1 (hab ▸ ha)
      · intro x hx
        rcases List.mem_append.1 hx with hx | hx
        · exact hsub1 x hx
        · have : x = v := by simpa using hx
          rw [this]; exact hv1
      · rw [enew, List.append_assoc]
      · intro x hx
        exact hvs1 x (List.mem_cons_of_mem _ hx)
      · intro g
        constructor
        · rintro ⟨hg, hgo⟩
          have hgo1 : g ∉ out1 := fun h => hgo (List.mem_append_left _ h)
          have hgv : g ≠ v := fun h => hgo (by rw [h]; simp)
          obtain ⟨hg', hgo'⟩ := (hgray1 g).1 ⟨hg, hgo1⟩
          rcases List.mem_cons.1 hg' with h | h
          · exact absurd h hgv
          · exact ⟨h, hgo'⟩
        · rintro ⟨hg, hgo⟩
          obtain ⟨hg1, hgo1⟩ := (hgray1 g).2 ⟨List.mem_cons_of_mem _ hg, hgo⟩
          refine ⟨hg1, ?_⟩
          intro h
          rcases List.mem_append.1 h with h | h
          · exact hgo1 h
          · have : g = v := by simpa using h
            exact hm (this ▸ hg)
      · intro hac hcond hs
        have hcond0 : ∀ g ∈ v :: vis, g ∉ out → g ≠ v → rank v < rank g := by
          intro g hg hgo hgv
          rcases List.mem_cons.1 hg with h | h
          · exact absurd h hgv
          · exact hcond g h hgo hgv
        obtain ⟨hs1, hall1⟩ := hsort1 hac hcond0 hs
        exact Sorted.snoc hs1 hvo1 hall1

/-- The top-level loop `for … { processDecl(id, "") }` from a state without gray vertices. -/
theorem top_spec (ds : List DeclInfo) (rank : Nat → Nat) :
    ∀ (ws vis out : List Nat), (∀ w ∈ ws, w < ds.length) → Inv ds.length vis out →
      (∀ g ∈ vis, g ∈ out) →
      ∃ vis' out',
        ws.foldl (fun st v => visit ds (ds.length + 1) st.1 st.2 v) (vis, out) = (vis', out') ∧
        Inv ds.length vis' out' ∧ (∀ g ∈ vis', g ∈ out') ∧ (∀ x ∈ out, x ∈ out') ∧
        (∀ w ∈ ws, w ∈ out') ∧ (Acyc ds rank → Sorted ds out → Sorted ds out') := by
  intro ws
  induction ws with
  | nil =>
    intro vis out _ hinv hng
    exact ⟨vis, out, rfl, hinv, hng, fun _ h => h, by simp, fun _ h => h⟩
  | cons w ws ihws =>
    intro vis out hws hinv hng
    obtain ⟨vis1, out1, e1, hext1, hmem1, hsort1⟩ :=
      visit_spec ds rank (ds.length + 1) vis out w hinv (hws w (List.mem_cons_self ..)) (by omega)
    have hng1 : ∀ g ∈ vis1, g ∈ out1 := by
      intro g hg
      by_cases hgo : g ∈ out1
      · exact hgo
      · obtain ⟨hg', hgo'⟩ := (hext1.2.2.2 g).1 ⟨hg, hgo⟩
        exact absurd (hng g hg') hgo'
    obtain ⟨vis2, out2, e2, hinv2, hng2, hsub2, hall2, hsort2⟩ :=
      ihws vis1 out1 (fun x hx => hws x (List.mem_cons_of_mem _ hx)) hext1.1 hng1
    refine ⟨vis2, out2, ?_, hinv2, hng2, fun x hx => hsub2 x (hext1.out_sub x hx), ?_, ?_⟩
    · rw [List.foldl_cons]
      simp only [e1]
      exact e2
    · intro x hx
      rcases List.mem_cons.1 hx with rfl | hx
      · exact hsub2 x (hng1 x hmem1)
      · exact hall2 x hx
    · intro hac hs
      exact hsort2 hac (hsort1 hac (fun g hg hgo => absurd (hng g hg) hgo) hs)

/-- Summary for the whole traversal. -/
theorem emitOrder_spec (ds : List DeclInfo) (rank : Nat → Nat) :
    (emitOrder ds).Nodup ∧ (∀ x ∈ emitOrder ds, x < ds.length) ∧
      (∀ i, i < ds.length → i ∈ emitOrder ds) ∧ (Acyc ds rank → Sorted ds (emitOrder ds)) := by
  obtain ⟨vis', out', e, ⟨_, hno, hlt, hsub⟩, _, _, hall, hsort⟩ :=
    top_spec ds rank (List.range ds.length) [] [] (fun w hw => List.mem_range.1 hw)
      ⟨List.nodup_nil, List.nodup_nil, by simp, by simp⟩ (by simp)
  have eo : emitOrder ds = out' := by
    unfold emitOrder emitState
    rw [e]
  rw [eo]
  exact ⟨hno, fun x hx => hlt x (hsub x hx), fun i hi => hall i (List.mem_range.2 hi),
    fun hac => hsort hac (Sorted.nil ds)⟩

end GooseVerif.Model.Deps
