/-
Helper lemmas for the model of conversions (Model/Conv.lean); the property theorems are in Props/C02Conv.lean.
-/
import GooseVerif.Model.Conv

namespace GooseVerif.Lemmas.Conv
open GooseVerif.Model
open GooseVerif.Model.Conv

/-- `to_u<w>` computes Go's integer conversion to width `w`: `setWidth` is truncation to a narrower width,
zero-extension to a wider one, and the identity at the same width. -/
theorem toUVal_eq_goIntConv (w : Nat) (v : Val) : toUVal w v = goIntConv w v := by
  unfold toUVal goIntConv
  split <;> simp [BitVec.truncate, BitVec.zeroExtend]

/-- What `getIntegerType` accepts is a represented integer kind of that width. -/
theorem getIntegerType_repWidth {u : Under} {w : Nat} (h : getIntegerType u = some w) : repWidth u = some w := by
  cases u with
  | basic b => cases b <;> simp_all [getIntegerType, repWidth]
  | _ => simp [getIntegerType] at h

/-- The widths of the model. -/
theorem repWidth_cases {u : Under} {w : Nat} (h : repWidth u = some w) : w = 64 ∨ w = 32 ∨ w = 8 := by
  cases u with
  | basic b => cases b <;> simp_all [repWidth] <;> omega
  | _ => simp [repWidth] at h

/-- At the width of its own type, Go's integer conversion leaves the word alone. -/
theorem goIntConv_same {u : Under} {w : Nat} {v : Val} (hv : v.hasType u = true) (hw : repWidth u = some w) :
    goIntConv w v = some v := by
  cases u with
  | basic b =>
    cases b <;> simp [repWidth] at hw <;> subst hw <;> cases v <;> simp_all [Val.hasType, goIntConv]
  | _ => simp [repWidth] at hw

/-- `identWidth` is the represented width of the target. -/
theorem identWidth_repWidth {to : Ty} {w : Nat} (h : identWidth to = some w) :
    to.defined = false ∧ repWidth to.under = some w := by
  obtain ⟨d, u⟩ := to
  cases d <;> cases u with
  | basic b => cases b <;> simp_all [identWidth, repWidth]
  | _ => simp [identWidth] at h

/-- Go's conversion between represented integer kinds is `goIntConv` at the target's width
(also when the two underlying types are identical). -/
theorem goConv_int {to src : Under} {wt ws : Nat} {v : Val} (ht : repWidth to = some wt) (hs : repWidth src = some ws)
    (hv : v.hasType src = true) : goConv to src v = goIntConv wt v := by
  unfold goConv
  split
  · next h => subst h; exact (goIntConv_same hv ht).symm
  · simp [ht, hs]

/-- The `ident` spellings (`integerConversion`): whenever the source is accepted, the emitted operation
computes Go's conversion. -/
theorem integerConversion_faithful {to src : Ty} {width : Nat} {v : Val} (hw : identWidth to = some width)
    (hv : v.hasType src.under = true) :
    integerConversion width src false = .reject ∨
      (integerConversion width src false).apply v = goConv to.under src.under v := by
  unfold integerConversion
  simp only [Bool.false_eq_true, if_false]
  cases hg : getIntegerType src.under with
  | none => exact .inl rfl
  | some w =>
    right
    have hs := getIntegerType_repWidth hg
    have ht := (identWidth_repWidth hw).2
    rw [goConv_int ht hs hv]
    by_cases hww : w = width
    · subst hww; simp [Decision.apply, goIntConv_same hv hs]
    · simp [hww, Decision.apply, toUVal_eq_goIntConv]

/-- The class the main theorem excludes (goose issue #14, a known failing test of the repository's suite):
a conversion to a DEFINED type, both underlying types represented integer kinds, of different widths
(`type U32 uint32; U32(x)` with `x uint64`).  `methodExpr` makes it the identity; Go truncates/extends. -/
def knownNamedInt (to src : Ty) : Bool :=
  to.defined &&
    match repWidth to.under, repWidth src.under with
    | some wt, some ws => wt != ws
    | _, _ => false

/-- Every other spelling (`methodExpr`): outside the known class, whenever Go allows the conversion and the
translator accepts it, the emitted operation computes Go's result. -/
theorem methodExprConv_faithful {to src : Ty} {v r : Val} (hv : v.hasType src.under = true)
    (hgo : goConv to.under src.under v = some r) (hk : knownNamedInt to src = false) :
    methodExprConv to (some src.under) = .reject ∨ (methodExprConv to (some src.under)).apply v = some r := by
  obtain ⟨td, tu⟩ := to
  obtain ⟨sd, su⟩ := src
  simp only at hv hgo
  -- the 13 well-typed (source kind, value) pairs, then the 26 targets
  rcases su with (_|_|_|_|_|_|_|_|_|_)|_|_|_ <;> cases v <;> simp [Val.hasType] at hv <;>
    cases td <;> rcases tu with (_|_|_|_|_|_|_|_|_|_)|_|_|_ <;>
    simp_all [methodExprConv, goConv, repWidth, goIntConv, knownNamedInt, isByteSlice, isString,
      Decision.apply, Basic.isNumeric]

end GooseVerif.Lemmas.Conv
