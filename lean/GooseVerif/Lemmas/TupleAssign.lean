/-
Helper lemmas for the multiple-assignment guard (Props/C02Tuple.lean).

The invariant (`Unchanged`): after the translation has processed a prefix of the targets, as long
as only identifier targets were met (`onlyVarsSoFar`), the current heap differs from the initial one
at most in the cells of the variables in `assigned`.  Together with the injectivity of `cell` it
makes every operand the guard accepts evaluate to what it evaluated to in the initial heap.
-/
import GooseVerif.Model.TupleAssign

namespace GooseVerif.Model.TupleAssign

/-- while only identifier targets were met, the heap changed at most in the cells of `assigned` -/
def Unchanged (cell : String → Loc) (assigned : List String) (only : Bool) (h0 h : Heap) : Prop :=
  only = true → ∀ l, (∀ y, y ∈ assigned → l ≠ cell y) → h l = h0 l

theorem Unchanged.refl (cell : String → Loc) (assigned : List String) (only : Bool) (h0 : Heap) :
    Unchanged cell assigned only h0 h0 :=
  fun _ _ _ => rfl

theorem Unchanged.false (cell : String → Loc) (assigned : List String) (h0 h : Heap) :
    Unchanged cell assigned false h0 h :=
  fun hf => by cases hf

theorem Heap.store_none (h : Heap) (v : Nat) : h.store none v = h := rfl

theorem Heap.store_some (h : Heap) (l : Loc) (v : Nat) : h.store (some l) v = h.set l v := rfl

theorem Heap.set_ne (h : Heap) (l l' : Loc) (v : Nat) (hne : l' ≠ l) : h.set l v l' = h l' := by
  simp [Heap.set, hne]

theorem Heap.set_eq (h : Heap) (l : Loc) (v : Nat) : h.set l v l = v := by
  simp [Heap.set]

/-- an operand the guard accepts evaluates in the current heap to what it did in the initial one -/
theorem Atom.eval_of_stable {env : Env} {cell : String → Loc} {assigned : List String}
    {only : Bool} {h0 h : Heap} (hinj : ∀ x y, cell x = cell y → x = y)
    (hU : Unchanged cell assigned only h0 h) (a : Atom)
    (hs : a.stable assigned only = true) : a.eval env cell h = a.eval env cell h0 := by
  cases a with
  | lit n => rfl
  | imm x => rfl
  | «mut» x =>
    simp only [Atom.stable, Bool.and_eq_true, Bool.not_eq_true', List.contains_eq_mem,
      decide_eq_false_iff_not] at hs
    show h (cell x) = h0 (cell x)
    apply hU hs.2
    intro y hy heq
    have hxy := hinj _ _ heq
    subst hxy
    exact hs.1 hy

/-- a target the guard accepts denotes in the current heap the location it did in the initial one -/
theorem Target.loc_of_stable {env : Env} {cell : String → Loc} {slot : Nat → Nat → Loc}
    {assigned : List String} {only : Bool} {h0 h : Heap}
    (hinj : ∀ x y, cell x = cell y → x = y)
    (hU : Unchanged cell assigned only h0 h) (t : Target)
    (hs : t.stable assigned only = true) :
    t.loc env cell slot h = t.loc env cell slot h0 := by
  cases t with
  | blank => rfl
  | var x => rfl
  | deref p =>
    simp only [Target.stable] at hs
    simp only [Target.loc, Atom.eval_of_stable hinj hU p hs]
  | index m k =>
    simp only [Target.stable, Bool.and_eq_true] at hs
    simp only [Target.loc, Atom.eval_of_stable hinj hU m hs.1, Atom.eval_of_stable hinj hU k hs.2]
  | field s off =>
    simp only [Target.stable] at hs
    simp only [Target.loc, Atom.eval_of_stable hinj hU s hs]

/-- the location of an identifier target does not depend on the heap -/
theorem Target.loc_of_isIdent {env : Env} {cell : String → Loc} {slot : Nat → Nat → Loc}
    (h h0 : Heap) (t : Target) (hi : t.isIdent = true) :
    t.loc env cell slot h = t.loc env cell slot h0 := by
  cases t <;> first | rfl | cases hi

/-- an identifier target keeps the invariant: it changes only the cell of the variable it records -/
theorem Unchanged.step_ident {env : Env} {cell : String → Loc} {slot : Nat → Nat → Loc}
    {assigned : List String} {only : Bool} {h0 h : Heap} (h1 : Heap) (t : Target) (v : Nat)
    (hi : t.isIdent = true) (hU : Unchanged cell assigned only h0 h) :
    Unchanged cell (t.assigns ++ assigned) only h0 (h.store (t.loc env cell slot h1) v) := by
  cases t with
  | blank => exact hU
  | var x =>
    intro ho l hl
    show (h.set (cell x) v) l = h0 l
    have hne : l ≠ cell x := hl x (by simp [Target.assigns])
    rw [Heap.set_ne _ _ _ _ hne]
    exact hU ho l (fun y hy => hl y (by simp [Target.assigns, hy]))
  | deref p => cases hi
  | index m k => cases hi
  | field s off => cases hi

theorem guardFrom_cons (first : Bool) (assigned : List String) (only : Bool) (t : Target)
    (ts : List Target) :
    guardFrom first assigned only (t :: ts) =
      if t.isIdent then guardFrom false (t.assigns ++ assigned) only ts
      else (first || t.stable assigned only) && guardFrom false assigned false ts := rfl

/-- The translation from any reachable intermediate state: if the rest of the statement passes the
guard's loop, evaluating each remaining target when its turn comes is the same as storing to the
locations computed in the initial heap `h0`. -/
theorem trAssign_eq_storeAll {env : Env} {cell : String → Loc} {slot : Nat → Nat → Loc}
    (hinj : ∀ x y, cell x = cell y → x = y) (h0 : Heap) :
    ∀ (ts : List Target) (vs : List Nat) (first : Bool) (assigned : List String) (only : Bool)
      (h : Heap),
      (first = true → h = h0) → Unchanged cell assigned only h0 h →
      guardFrom first assigned only ts = true →
      trAssign env cell slot h ts vs = storeAll h (ts.map (Target.loc env cell slot h0)) vs := by
  intro ts
  induction ts with
  | nil => intro vs first assigned only h _ _ _; cases vs <;> rfl
  | cons t ts ih =>
    intro vs first assigned only h hfirst hU hg
    cases vs with
    | nil => rfl
    | cons v vs =>
      rw [guardFrom_cons] at hg
      show trAssign env cell slot (h.store (t.loc env cell slot h) v) ts vs =
        storeAll (h.store (t.loc env cell slot h0) v) (ts.map (Target.loc env cell slot h0)) vs
      cases hi : t.isIdent with
      | true =>
        rw [hi] at hg
        simp only [if_true] at hg
        rw [Target.loc_of_isIdent h h0 t hi]
        exact ih vs false (t.assigns ++ assigned) only _ (fun hf => by cases hf)
          (Unchanged.step_ident h0 t v hi hU) hg
      | false =>
        rw [hi] at hg
        simp only [Bool.false_eq_true, if_false, Bool.and_eq_true, Bool.or_eq_true] at hg
        have hloc : t.loc env cell slot h = t.loc env cell slot h0 := by
          cases hg.1 with
          | inl hf => rw [hfirst hf]
          | inr hs => exact Target.loc_of_stable hinj hU t hs
        rw [hloc]
        exact ih vs false assigned false _ (fun hf => by cases hf)
          (Unchanged.false cell assigned h0 _) hg.2

/-- the verdict after an identifier-free first target does not look at that target -/
theorem guardFrom_first_nonident (assigned : List String) (only : Bool) (t : Target)
    (ts : List Target) (hi : t.isIdent = false) :
    guardFrom true assigned only (t :: ts) = guardFrom false assigned false ts := by
  rw [guardFrom_cons, hi]
  simp

/-- identifier targets only: the loop never checks anything -/
theorem guardFrom_all_ident : ∀ (ts : List Target) (first : Bool) (assigned : List String)
    (only : Bool), (∀ t, t ∈ ts → t.isIdent = true) → guardFrom first assigned only ts = true := by
  intro ts
  induction ts with
  | nil => intros; rfl
  | cons t ts ih =>
    intro first assigned only hall
    rw [guardFrom_cons, hall t (by simp)]
    simp only [if_true]
    exact ih _ _ _ (fun t' ht' => hall t' (by simp [ht']))

end GooseVerif.Model.TupleAssign
