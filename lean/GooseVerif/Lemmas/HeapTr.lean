/-
Helper lemmas for the heap theorem, part 4: facts about the translator and about Go's heap that the
corollaries use.

* `trStmts_guard_le`: wherever the model's translator `tr` accepts, goose's own behaviour `trGoose`
  (which additionally accepts the store into a let-bound struct value) produces the same expression.
* `evalE_grows`: Go expressions only ALLOCATE: the heap after is the heap before plus new objects.
* `rewrite`: bottom-up rewriting of target expressions, used to state translator mutants.
-/
import GooseVerif.Lemmas.HeapStmt

namespace GooseVerif.Model.Heap

/-! ### `tr` is `trGoose` wherever it accepts -/

theorem bind'_congr_ok {α β : Type} {r : Except String α} {f g : α → Except String β} {y : β}
    (h : Except.bind' r f = .ok y) (hfg : ∀ a, f a = .ok y → g a = .ok y) : Except.bind' r g = .ok y := by
  cases r with
  | ok a => exact hfg a h
  | error m => simp [Except.bind'] at h

mutual
theorem trStmts_guard_le : (ss : Stmts) → ∀ (top : Bool) (Γ : SEnv) (t : T),
    trStmts true top Γ ss = .ok t → trStmts false top Γ ss = .ok t
  | .nil => by
    intro top Γ t h
    simpa [trStmts] using h
  | .ret e => by
    intro top Γ t h
    simpa [trStmts] using h
  | .cons s rest => by
    intro top Γ t h
    simp only [trStmts] at h ⊢
    obtain ⟨b, hb, h⟩ := Except.bind'_ok h
    obtain ⟨r, hr, h⟩ := Except.bind'_ok h
    rw [trStmt_guard_le s Γ b hb]
    simp only [Except.bind']
    rw [trStmts_guard_le rest top _ r hr]
    exact h
theorem trStmt_guard_le : (s : Stmt) → ∀ (Γ : SEnv) (b : Bind), trStmt true Γ s = .ok b → trStmt false Γ s = .ok b
  | .define x e => by intro Γ b h; simpa [trStmt] using h
  | .declare x e => by intro Γ b h; simpa [trStmt] using h
  | .assign x e => by intro Γ b h; simpa [trStmt] using h
  | .storeP e e' => by intro Γ b h; simpa [trStmt] using h
  | .setIdx s i e' => by intro Γ b h; simpa [trStmt] using h
  | .storeF e f e' => by
    intro Γ b h
    simp only [trStmt] at h ⊢
    refine bind'_congr_ok h (fun r' h => bind'_congr_ok h (fun _ h => bind'_congr_ok h (fun r h => ?_)))
    obtain ⟨rt, τ⟩ := r
    cases τ with
    | str =>
      cases e with
      | var x =>
        simp only [] at h ⊢
        match hl : lookStk x Γ with
        | some (false, σ) => simp [hl] at h
        | some (true, σ) => simpa [hl] using h
        | none => simpa [hl] using h
      | _ => exact h
    | _ => exact h
  | .block b' => by
    intro Γ b h
    simp only [trStmt] at h ⊢
    obtain ⟨t, ht, h⟩ := Except.bind'_ok h
    rw [trStmts_guard_le b' false _ t ht]
    exact h
  | .ite c a b' => by
    intro Γ b h
    simp only [trStmt] at h ⊢
    refine bind'_congr_ok h (fun rc h => bind'_congr_ok h (fun _ h => ?_))
    obtain ⟨ta, hta, h⟩ := Except.bind'_ok h
    obtain ⟨tb, htb, h⟩ := Except.bind'_ok h
    rw [trStmts_guard_le a false _ ta hta]
    simp only [Except.bind']
    rw [trStmts_guard_le b' false _ tb htb]
    exact h
end

/-! ### Go expressions only allocate -/

theorem evalE_grows (stk : Stack) : (e : Exp) → ∀ (G : GHeap) (v : Val) (G' : GHeap),
    evalE stk G e = .ok (v, G') → ∃ d, G' = G ++ d
  | .lit n => by
    intro G v G' h
    simp [evalE] at h
    exact ⟨[], by simp [h.2]⟩
  | .var x => by
    intro G v G' h
    simp only [evalE] at h
    obtain ⟨_, _, h⟩ := Res.bind_ok h
    simp at h
    exact ⟨[], by simp [h.2]⟩
  | .add a b => by
    intro G v G' h
    simp only [evalE] at h
    obtain ⟨n, G1, h1, h⟩ := go_num h
    obtain ⟨m, G2, h2, h⟩ := go_num h
    simp at h h2
    obtain ⟨d1, rfl⟩ := evalE_grows stk b G _ G1 h1
    obtain ⟨d2, rfl⟩ := evalE_grows stk a _ _ G2 h2
    exact ⟨d1 ++ d2, by simp [← h.2]⟩
  | .mk alloc ga gb gn ea eb en => by
    intro G v G' h
    simp only [evalE] at h
    obtain ⟨n, G1, h1, h⟩ := go_ptrS h
    obtain ⟨b, G2, h2, h⟩ := go_num h
    obtain ⟨a, G3, h3, h⟩ := go_num h
    simp only [] at h2 h3 h
    have g1 : ∃ d, G1 = G ++ d := by
      cases gn with
      | true => exact evalE_grows stk en G _ G1 (by simpa using h1)
      | false => simp at h1; exact ⟨[], by simp [h1.2]⟩
    have g2 : ∃ d, G2 = G1 ++ d := by
      cases gb with
      | true => exact evalE_grows stk eb G1 _ G2 (by simpa using h2)
      | false => simp at h2; exact ⟨[], by simp [h2.2]⟩
    have g3 : ∃ d, G3 = G2 ++ d := by
      cases ga with
      | true => exact evalE_grows stk ea G2 _ G3 (by simpa using h3)
      | false => simp at h3; exact ⟨[], by simp [h3.2]⟩
    obtain ⟨d1, rfl⟩ := g1
    obtain ⟨d2, rfl⟩ := g2
    obtain ⟨d3, rfl⟩ := g3
    cases alloc with
    | true => simp at h; exact ⟨d1 ++ d2 ++ d3 ++ [.str a b n], by simp [← h.2]⟩
    | false => simp at h; exact ⟨d1 ++ d2 ++ d3, by simp [← h.2]⟩
  | .sel e f => by
    intro G v G' h
    simp only [evalE] at h
    obtain ⟨⟨ve, G1⟩, h1, h⟩ := Res.bind_ok h
    obtain ⟨d, rfl⟩ := evalE_grows stk e G _ G1 h1
    refine ⟨d, ?_⟩
    split at h
    · obtain ⟨_, _, h⟩ := Res.bind_ok h
      simp at h
      exact h.2.symm
    · simp at h
    · simp at h
      exact h.2.symm
    · simp at h
  | .deref e => by
    intro G v G' h
    simp only [evalE] at h
    obtain ⟨⟨ve, G1⟩, h1, h⟩ := Res.bind_ok h
    obtain ⟨d, rfl⟩ := evalE_grows stk e G _ G1 h1
    refine ⟨d, ?_⟩
    split at h
    · obtain ⟨_, _, h⟩ := Res.bind_ok h
      simp at h
      exact h.2.symm
    · simp at h
    · obtain ⟨_, _, h⟩ := Res.bind_ok h
      simp at h
      exact h.2.symm
    · simp at h
  | .newN => by
    intro G v G' h
    simp [evalE] at h
    exact ⟨[.cell 0], h.2.symm⟩
  | .make n => by
    intro G v G' h
    simp only [evalE] at h
    obtain ⟨k, G1, h1, h⟩ := go_num h
    obtain ⟨d, rfl⟩ := evalE_grows stk n G _ G1 h1
    by_cases hk : k = 0
    · simp [hk] at h; exact ⟨d, h.2.symm⟩
    · simp [hk] at h; exact ⟨d ++ [.arr (List.replicate k 0)], by simp [← h.2]⟩
  | .idx s i => by
    intro G v G' h
    simp only [evalE] at h
    obtain ⟨k, G1, h1, h⟩ := go_num h
    obtain ⟨o, off, l, c, G2, h2, h⟩ := go_sl h
    simp only [] at h2 h
    obtain ⟨d1, rfl⟩ := evalE_grows stk i G _ G1 h1
    obtain ⟨d2, rfl⟩ := evalE_grows stk s _ _ G2 h2
    split at h
    · obtain ⟨_, _, h⟩ := Res.bind_ok h
      obtain ⟨_, _, h⟩ := Res.bind_ok h
      simp at h
      exact ⟨d1 ++ d2, by simp [← h.2]⟩
    · simp at h
  | .len s => by
    intro G v G' h
    simp only [evalE] at h
    obtain ⟨o, off, l, c, G1, h1, h⟩ := go_sl h
    simp at h
    obtain ⟨d, rfl⟩ := evalE_grows stk s G _ G1 h1
    exact ⟨d, h.2.symm⟩
  | .sub s a b => by
    intro G v G' h
    simp only [evalE] at h
    obtain ⟨hi, G1, h1, h⟩ := go_num h
    obtain ⟨lo, G2, h2, h⟩ := go_num h
    obtain ⟨o, off, l, c, G3, h3, h⟩ := go_sl h
    simp only [] at h2 h3 h
    obtain ⟨d1, rfl⟩ := evalE_grows stk b G _ G1 h1
    obtain ⟨d2, rfl⟩ := evalE_grows stk a _ _ G2 h2
    obtain ⟨d3, rfl⟩ := evalE_grows stk s _ _ G3 h3
    split at h
    · simp at h; exact ⟨d1 ++ d2 ++ d3, by simp [← h.2]⟩
    · simp at h
  | .take s b => by
    intro G v G' h
    simp only [evalE] at h
    obtain ⟨hi, G1, h1, h⟩ := go_num h
    obtain ⟨o, off, l, c, G3, h3, h⟩ := go_sl h
    simp only [] at h3 h
    obtain ⟨d1, rfl⟩ := evalE_grows stk b G _ G1 h1
    obtain ⟨d3, rfl⟩ := evalE_grows stk s _ _ G3 h3
    split at h
    · simp at h; exact ⟨d1 ++ d3, by simp [← h.2]⟩
    · simp at h
  | .skip s a => by
    intro G v G' h
    simp only [evalE] at h
    obtain ⟨lo, G2, h2, h⟩ := go_num h
    obtain ⟨o, off, l, c, G3, h3, h⟩ := go_sl h
    simp only [] at h3 h
    obtain ⟨d2, rfl⟩ := evalE_grows stk a G _ G2 h2
    obtain ⟨d3, rfl⟩ := evalE_grows stk s _ _ G3 h3
    split at h
    · simp at h; exact ⟨d2 ++ d3, by simp [← h.2]⟩
    · simp at h

/-! ### rewriting target expressions (to state translator mutants) -/

/-- apply `rule` at every node, children first -/
def rewrite (rule : T → T) : T → T
  | .lit n => rule (.lit n)
  | .var x => rule (.var x)
  | .add a b => rule (.add (rewrite rule a) (rewrite rule b))
  | .load ty e => rule (.load ty (rewrite rule e))
  | .store ty d e => rule (.store ty (rewrite rule d) (rewrite rule e))
  | .mk al ga gb gn a b n => rule (.mk al ga gb gn (rewrite rule a) (rewrite rule b) (rewrite rule n))
  | .loadF f e => rule (.loadF f (rewrite rule e))
  | .getF f e => rule (.getF f (rewrite rule e))
  | .storeF f p e => rule (.storeF f (rewrite rule p) (rewrite rule e))
  | .loadS e => rule (.loadS (rewrite rule e))
  | .storeS p e => rule (.storeS (rewrite rule p) (rewrite rule e))
  | .refZero => rule .refZero
  | .refTo ty e => rule (.refTo ty (rewrite rule e))
  | .newSlice n => rule (.newSlice (rewrite rule n))
  | .sliceGet s i => rule (.sliceGet (rewrite rule s) (rewrite rule i))
  | .sliceSet s i e => rule (.sliceSet (rewrite rule s) (rewrite rule i) (rewrite rule e))
  | .sliceLen s => rule (.sliceLen (rewrite rule s))
  | .subslice s a b => rule (.subslice (rewrite rule s) (rewrite rule a) (rewrite rule b))
  | .sliceTake s b => rule (.sliceTake (rewrite rule s) (rewrite rule b))
  | .sliceSkip s a => rule (.sliceSkip (rewrite rule s) (rewrite rule a))
  | .letIn x e b => rule (.letIn x (rewrite rule e) (rewrite rule b))
  | .seq a b => rule (.seq (rewrite rule a) (rewrite rule b))
  | .ite c a b => rule (.ite (rewrite rule c) (rewrite rule a) (rewrite rule b))
  | .unit => rule .unit

/-- mutant 1: a field of a struct VALUE read as if through a pointer (`struct.loadF` for `struct.get`) -/
def ruleGetAsLoad : T → T
  | .getF f e => .loadF f e
  | t => t

/-- mutant 2: `*p = v` stores only the first field -/
def ruleStoreFirstField : T → T
  | .storeS p e => .storeF .a p (.getF .a e)
  | t => t

/-- mutant 3: `s[a:b]` without the lower bound (`SliceTake s b`) -/
def ruleSubsliceNoOffset : T → T
  | .subslice s _ b => .sliceTake s b
  | t => t

/-- mutant 4: a `var` struct variable's field written on a loaded COPY: `v.f = e` as a store through
`![struct.t T] "v"` instead of through `"v"` -/
def ruleStoreFOnCopy : T → T
  | .storeF f (.var x) e => .storeF f (.load .str (.var x)) e
  | t => t

end GooseVerif.Model.Heap
