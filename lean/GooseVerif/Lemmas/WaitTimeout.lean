import GooseVerif.Model.WaitTimeout

namespace GooseVerif.Model.WaitTimeout

/-- The protocol invariant. -/
structure Inv (s : St) : Prop where
  nofatal : s.fatal = false
  /-- until the helper has released `L` on the caller's behalf, the caller still owns it and
  cannot have got past its own `Lock` -/
  early : (s.h = .notStarted ∨ s.h = .atWait) → s.holder = some .caller ∧ (s.c = .start ∨ s.c = .selecting ∨ s.c = .locking)
  startH : s.c = .start ↔ s.h = .notStarted
  /-- the caller is the ghost owner exactly from its own `Lock` (or from before the helper's release) until its `Unlock` -/
  ownC : s.holder = some .caller ↔ (s.c = .returned ∨ s.h = .notStarted ∨ s.h = .atWait)
  ownH : s.holder = some .helper ↔ s.h = .holding
  doneH : s.done = true ↔ s.h = .finished

theorem inv_init : Inv init := by
  constructor <;> simp [init]

theorem inv_step (s : St) (a : Action) (s' : St) (hi : Inv s) (hs : step s a = some s') : Inv s' := by
  obtain ⟨h1, h2, h3, h4, h5, h6⟩ := hi
  obtain ⟨holder, c, h, timer, done, fatal⟩ := s
  simp only at h1 h2 h3 h4 h5 h6
  cases a <;> simp only [step] at hs <;> (try split at hs) <;> (try split at hs) <;>
    (try (cases hs)) <;> (try contradiction) <;>
    (constructor <;> simp_all <;> (try (cases h <;> simp_all)) <;> (try (cases c <;> simp_all)))

theorem inv_run (s : St) (as : List Action) (hi : Inv s) : Inv (run s as) := by
  induction as generalizing s with
  | nil => exact hi
  | cons a as ih =>
    simp only [run]
    cases hs : step s a with
    | none => simpa using ih s hi
    | some s' => simpa using ih s' (inv_step s a s' hi hs)

theorem inv_reachable (s : St) (h : Reachable s) : Inv s := by
  obtain ⟨as, rfl⟩ := h
  exact inv_run _ _ inv_init

end GooseVerif.Model.WaitTimeout

namespace GooseVerif.Model.WaitTimeout

/-- A schedule that lets the caller return from any reachable state in which it has not
returned yet: spawn, let the timer fire, let the helper release the lock, let whoever holds
the lock release it, take the timeout branch, lock. -/
def finishSchedule (s : St) : List Action :=
  [.spawn, .timerFire, .helperWait, .helperUnlock,
   (match s.holder with | some (.env i) => .envUnlock i | _ => .timerFire),
   .selectTimer, .callerLock]

theorem can_return' (s : St) (hi : Inv s) (hc : s.c = .start ∨ s.c = .selecting ∨ s.c = .locking) :
    (run s (finishSchedule s)).c = .returned ∧ (run s (finishSchedule s)).holder = some .caller := by
  obtain ⟨h1, h2, h3, h4, h5, h6⟩ := hi
  obtain ⟨holder, c, h, timer, done, fatal⟩ := s
  simp only at h1 h2 h3 h4 h5 h6 hc
  subst h1
  rcases holder with _ | (_ | _ | i) <;> cases c <;> simp_all <;> cases h <;> simp_all <;>
    cases timer <;> simp [finishSchedule, run, step]

end GooseVerif.Model.WaitTimeout
